(* Model/Occ.v — optimistic concurrency control of the read-modify-write commands (C14).

   A revision-tagged store, commands that are a Read (GET: definition + the tag of the current revision)
   followed by a conditional Write (PATCH of [edit def_read] carrying a tag), and arbitrary interleavings,
   including scripted faults of the backend at a write:

     FLost    the backend processes the update as usual (commits it iff the tag rule accepts it) and the reply
              never reaches the command (5xx / connection dropped).  The client does NOT send the update again
              (cmd/esc/cli/client/retry.go: only GET is retried - a source fact, see Model/OccSrc.v); the variant
              that does re-send is modelled too ([replays = true]) and refutes the property.
     FReject  the backend answers "the definition has errors" (400 with diagnostics) and commits nothing.  The
              interactive `env edit` then shows the diagnostics and, on ENTER, goes back to the editor ON THE
              REJECTED TEXT and saves again WITH THE TAG IT READ AT THE START (round k+1); at end of input it
              aborts.  `env set` / `env rm` / `env edit --file` print the diagnostics and end.

   Mirrors: cmd/esc/cli/env_set.go, env_rm.go, env_edit.go (GetEnvironment ... UpdateEnvironmentWithProject),
   cmd/esc/cli/client/client.go (GetEnvironment / UpdateEnvironmentWithRevision: `if tag != "" { header.Set(etagHeader, tag) }`),
   cmd/esc/cli/client/retry.go and the service contract: an update succeeds iff it carries no tag or the tag of
   the current revision.

   Definitions only (total, computable).  The second half instantiates the definitions with a simple tree and the
   tree-level meaning of `env set <path> <value>`, `env rm <path>` and of the editor scripts used by the
   correspondence check. *)
From Verif Require Import Base.Bytes.

Section Occ.
  Variable D : Type.                     (* environment definitions *)

  (* result of the local edit of a command on the definition it read *)
  Inductive eres := EUpd (d : D) | ENoWrite | EErr | EPanic.

  (* which tag a command puts on its update: the one it read, or none (the dangerous variant) *)
  Inductive policy := SendRead | SendEmpty.

  (* what the backend is scripted to do with the update served at a schedule slot *)
  Inductive fault := FNone | FLost | FReject.

  (* RMW: GET then PATCH ([edit k d] = the text the command saves in its round [k], i.e. after [k] saves rejected
          with diagnostics, when [d] is the definition it read);
          [enters] = how many times it goes back to editing after a rejected save (ENTER presses available; 0 for
          env set / env rm);  [replays] = the client sends an update again when its reply was lost.
     Blind: a single unconditional PATCH (`env edit --file`, other writers) *)
  Inductive command :=
  | RMW (edit : nat -> D -> eres) (pol : policy) (enters : nat) (replays : bool)
  | Blind (d : D).

  Record store := mkStore { s_def : D; s_rev : N }.

  (* ORejected: the last save was refused with diagnostics (nothing written);  OLost: the reply to the update was
     lost (the command cannot know whether it was applied) *)
  Inductive outcome := OOk | OConflict | ONoWrite | OErr | OPanic | ORejected | OLost.

  (* PRead d r k: read definition [d] at revision [r], [k] saves rejected so far;
     PSent t body k: (replaying clients only) an update was sent, its reply lost, it will be sent again *)
  Inductive phase := PIdle | PRead (d : D) (r : N) (k : nat) | PSent (t : option N) (body : D) (k : nat) | PDone (o : outcome).

  (* what the backend sees; [ok] = the update was committed *)
  Inductive event :=
  | EvGet (i : nat) (got : store)
  | EvPatch (i : nat) (t : option N) (ok : bool) (f : fault) (before : store) (body : D) (after : store).

  Record state := mkState {
    st_store : store;
    st_ph : list phase;          (* one per command *)
    st_log : list (nat * nat);   (* (command, round) of the updates that were committed, in commit order *)
    st_trace : list event        (* requests in the order the backend served them *)
  }.

  (* the backend's rule *)
  Definition accept (t : option N) (rev : N) : bool :=
    match t with None => true | Some r => r =? rev end.

  Definition sent_tag (pol : policy) (r : N) : option N :=
    match pol with SendRead => Some r | SendEmpty => None end.

  Fixpoint set_nth {A} (i : nat) (x : A) (l : list A) : list A :=
    match l, i with
    | [], _ => []
    | _ :: r, O => x :: r
    | y :: r, S i' => y :: set_nth i' x r
    end.

  Definition finish (st : state) (i : nat) (o : outcome) : state :=
    mkState (st_store st) (set_nth i (PDone o) (st_ph st)) (st_log st) (st_trace st).

  (* the backend serves the update (tag [t], text [body]) of command [i] (in its round [k]) under fault [f];
     [next ok] is the phase the command goes to when the update was / was not committed *)
  Definition write (st : state) (i k : nat) (t : option N) (body : D) (f : fault) (next : bool -> phase) : state :=
    let s := st_store st in
    if (match f with FReject => false | _ => accept t (s_rev s) end) then
      let s' := mkStore body (s_rev s + 1) in
      mkState s' (set_nth i (next true) (st_ph st)) (st_log st ++ [(i, k)])
              (st_trace st ++ [EvPatch i t true f s body s'])
    else
      mkState s (set_nth i (next false) (st_ph st)) (st_log st)
              (st_trace st ++ [EvPatch i t false f s body s]).

  (* what the command does with the reply *)
  Definition after_reply (f : fault) (replays : bool) (again : phase) (resend : phase) (ok : bool) : phase :=
    match f with
    | FNone => PDone (if ok then OOk else OConflict)
    | FLost => if replays then resend else PDone OLost
    | FReject => again
    end.

  (* command [i] takes its next step; [f] applies if that step is an update *)
  Definition step (cmds : list command) (x : nat * fault) (st : state) : state :=
    let (i, f) := x in
    match nth_error cmds i, nth_error (st_ph st) i with
    | Some (RMW edit pol enters replays), Some PIdle =>
        let s := st_store st in
        mkState s (set_nth i (PRead (s_def s) (s_rev s) 0) (st_ph st)) (st_log st) (st_trace st ++ [EvGet i s])
    | Some (RMW edit pol enters replays), Some (PRead d r k) =>
        match edit k d with
        | EUpd d' =>
            let t := sent_tag pol r in
            write st i k t d' f
                  (after_reply f replays (if (k <? enters)%nat then PRead d r (S k) else PDone ORejected) (PSent t d' k))
        | ENoWrite => finish st i ONoWrite
        | EErr => finish st i OErr
        | EPanic => finish st i OPanic
        end
    | Some (RMW edit pol enters replays), Some (PSent t body k) =>
        write st i k t body f (after_reply f replays (PDone ORejected) (PSent t body k))
    | Some (Blind d), Some PIdle =>
        write st i 0 None d f (after_reply f false (PDone ORejected) (PDone OLost))
    | _, _ => st
    end.

  Definition init_state (cmds : list command) (init : store) : state :=
    mkState init (map (fun _ => PIdle) cmds) [] [].

  (* a schedule is a list of (command index, fault): the k-th occurrence of [i] is the k-th step of command [i]
     (a step of a command that has ended does nothing), so every list is a schedule that respects the per-command
     order, and every interleaving with every placement of faults is such a list *)
  Definition run (cmds : list command) (sched : list (nat * fault)) (st : state) : state :=
    fold_left (fun st x => step cmds x st) sched st.

  Definition no_faults (sched : list nat) : list (nat * fault) := map (fun i => (i, FNone)) sched.

  (* the edits of the commands in [log], applied one after the other, each to the then-current definition *)
  Definition apply_cmd (cmds : list command) (d : D) (x : nat * nat) : D :=
    match nth_error cmds (fst x) with
    | Some (RMW edit _ _ _) => match edit (snd x) d with EUpd d' => d' | _ => d end
    | Some (Blind d') => d'
    | None => d
    end.

  Definition replay (cmds : list command) (log : list (nat * nat)) (d0 : D) : D := fold_left (apply_cmd cmds) log d0.

  (* the guarantee about one update as the backend saw it: not committed and nothing changed, or committed and it is
     the command's edit (of some round) of the definition that was current at the time of the write *)
  Definition event_ok (cmds : list command) (e : event) : Prop :=
    match e with
    | EvGet _ _ => True
    | EvPatch i t ok f before body after =>
        match nth_error cmds i with
        | Some (RMW edit _ _ _) =>
            (ok = false /\ after = before)
            \/ (ok = true /\ f <> FReject /\ (exists k, edit k (s_def before) = EUpd body)
                /\ after = mkStore body (s_rev before + 1))
        | Some (Blind d) =>
            (ok = false /\ f = FReject /\ after = before)
            \/ (ok = true /\ f <> FReject /\ body = d /\ after = mkStore d (s_rev before + 1))
        | None => False
        end
    end.

  (* sends the tag it read and never sends an update twice *)
  Definition tagged (c : command) : Prop :=
    match c with RMW _ SendRead _ false => True | RMW _ _ _ _ => False | Blind _ => True end.

  Definition committed (st : state) : list nat := map fst (st_log st).

  (* the full statement of the property, relative to which commands are allowed *)
  Definition occ_statement (allowed : command -> Prop) : Prop :=
    forall cmds, Forall allowed cmds ->
    forall (init : store) (sched : list (nat * fault)),
      let fin := run cmds sched (init_state cmds init) in
      Forall (event_ok cmds) (st_trace fin)
      /\ s_def (st_store fin) = replay cmds (st_log fin) (s_def init)
      /\ NoDup (committed fin)
      /\ (forall i, nth_error (st_ph fin) i = Some (PDone OOk) -> In i (committed fin))
      /\ (forall i, In i (committed fin) ->
                    nth_error (st_ph fin) i = Some (PDone OOk) \/ nth_error (st_ph fin) i = Some (PDone OLost)).
End Occ.

Arguments EUpd {D}. Arguments ENoWrite {D}. Arguments EErr {D}. Arguments EPanic {D}.
Arguments RMW {D}. Arguments Blind {D}.
Arguments mkStore {D}. Arguments s_def {D}. Arguments s_rev {D}.
Arguments PIdle {D}. Arguments PRead {D}. Arguments PSent {D}. Arguments PDone {D}.
Arguments EvGet {D}. Arguments EvPatch {D}.
Arguments mkState {D}. Arguments st_store {D}. Arguments st_ph {D}. Arguments st_log {D}. Arguments st_trace {D}.
Arguments finish {D}. Arguments write {D}. Arguments after_reply {D}. Arguments step {D}. Arguments init_state {D}.
Arguments run {D}. Arguments committed {D}.
Arguments apply_cmd {D}. Arguments replay {D}. Arguments event_ok {D}. Arguments tagged {D}.
Arguments occ_statement D : clear implicits.

(* ------------------------------------------------------------------------------------------------------------- *)
(* Concrete definitions: YAML documents restricted to mappings with string keys and scalar leaves, as canonical
   trees (keys sorted, no duplicates). *)

Inductive tree := TNull | TLeaf (s : string) | TNode (kids : list (string * tree)).

Fixpoint alookup {A} (k : string) (l : list (string * A)) : option A :=
  match l with
  | [] => None
  | (k', v) :: r => if String.eqb k k' then Some v else alookup k r
  end.

(* insert / replace in a key-sorted association list *)
Fixpoint ainsert {A} (k : string) (v : A) (l : list (string * A)) : list (string * A) :=
  match l with
  | [] => [(k, v)]
  | (k', v') :: r =>
      match String.compare k k' with
      | Eq => (k, v) :: r
      | Lt => (k, v) :: (k', v') :: r
      | Gt => (k', v') :: ainsert k v r
      end
  end.

Fixpoint aremove {A} (k : string) (l : list (string * A)) : list (string * A) :=
  match l with
  | [] => []
  | (k', v') :: r => if String.eqb k k' then aremove k r else (k', v') :: aremove k r
  end.

(* encoding.YAMLSyntax.Set on string-key paths; [None] as the node is yaml's zero node (Kind 0), [None] as the
   result is the error "expected an array or an object" *)
Fixpoint tset (p : list string) (v : tree) (t : option tree) : option tree :=
  match p with
  | [] => Some v
  | k :: p' =>
      match t with
      | None => match tset p' v None with Some c => Some (TNode [(k, c)]) | None => None end
      | Some (TNode kids) =>
          match tset p' v (alookup k kids) with Some c => Some (TNode (ainsert k c kids)) | None => None end
      | Some _ => None
      end
  end.

Inductive dres := DOk (t : tree) | DErr | DPanic.

(* encoding.YAMLSyntax.Delete on string-key paths, as it is: an empty path and a missing intermediate key index
   out of range *)
Fixpoint tdel (p : list string) (t : tree) : dres :=
  match p with
  | [] => DPanic
  | k :: p' =>
      match t with
      | TNode kids =>
          match p' with
          | [] => DOk (TNode (aremove k kids))
          | _ :: _ =>
              match alookup k kids with
              | None => DPanic
              | Some c => match tdel p' c with DOk c' => DOk (TNode (ainsert k c' kids)) | r => r end
              end
          end
      | _ => DErr
      end
  end.

(* the empty document unmarshals to yaml's zero node *)
Definition root_of (doc : tree) : option tree := match doc with TNull => None | t => Some t end.

(* `esc env set <env> <path> <value>` with a path of string keys whose first key is not "imports" *)
Definition op_set (p : list string) (v : tree) (doc : tree) : eres tree :=
  match tset ("values" :: p) v (root_of doc) with Some d => EUpd d | None => EErr end.

(* `esc env rm <env> <path>` *)
Definition op_rm (p : list string) (doc : tree) : eres tree :=
  match doc with
  | TNode kids =>
      match alookup "values" kids with
      | None => ENoWrite
      | Some vals =>
          match tdel p vals with
          | DOk vals' => EUpd (TNode (ainsert "values" vals' kids))
          | DErr => EErr
          | DPanic => EPanic
          end
      end
  | _ => ENoWrite
  end.

(* interactive `esc env edit` where the person in the editor sets values.<k> to the string <v> *)
Definition op_edit (k v : string) (doc : tree) : eres tree :=
  let rkids := match doc with TNode kids => kids | _ => [] end in
  let vkids := match alookup "values" rkids with Some (TNode l) => l | _ => [] end in
  EUpd (TNode (ainsert "values" (TNode (ainsert k (TLeaf v) vkids)) rkids)).

(* interactive `esc env edit` where the person empties the file: "Aborting edit due to empty definition." *)
Definition op_abort (doc : tree) : eres tree := ENoWrite.

(* [sec]: `--show-secrets` (the definition is read from the /decrypt rendering; same protocol);
   [enters]: how many ENTER presses the person has for "Press ENTER to continue editing or ^D to exit" *)
Inductive op :=
| OpSet (p : list string) (v : tree)
| OpRm (p : list string)
| OpEdit (k v : string) (sec : bool) (enters : nat)
| OpAbort
| OpFile (d : tree).

(* the editor script run [n]+1 times, each time on the text the previous run left (env_edit.go: `yaml = newYAML`) *)
Fixpoint rounds (e : tree -> eres tree) (n : nat) (d : tree) : eres tree :=
  match n with
  | O => e d
  | S n' => match e d with EUpd d' => rounds e n' d' | r => r end
  end.

(* what the command saves in round [n] when it read [doc] *)
Definition edit_of (o : op) (n : nat) : tree -> eres tree :=
  match o with
  | OpSet p v => op_set p v
  | OpRm p => op_rm p
  | OpEdit k v _ _ => rounds (op_edit k v) n
  | OpAbort => op_abort
  | OpFile d => fun _ => EUpd d
  end.

Definition enters_of (o : op) : nat := match o with OpEdit _ _ _ n => n | _ => 0%nat end.
Definition shows_secrets (o : op) : bool := match o with OpEdit _ _ s _ => s | _ => false end.

(* the tag policy of a command according to the Go source (Src/SrcOcc.v): [sites] are the call sites of the client's
   Update* methods in the command, (inside the `--file` branch?, what is passed as tag: 0 = the tag returned by
   GetEnvironment, 1 = "", 2 = something else); [client_ok] says that the client returns the ETag header from
   GetEnvironment and sends the tag parameter of the update as that header *)
Definition policy_of_sites (client_ok : bool) (sites : list (bool * N)) : policy :=
  let inter := filter (fun s => negb (fst s)) sites in
  if client_ok && negb (match inter with [] => true | _ => false end) && forallb (fun s => snd s =? 0) inter
  then SendRead else SendEmpty.

(* the commands of the correspondence check; [ps pr pe] are the tag policies of set / rm / interactive edit,
   [rp] says whether the client sends a tagged update again after a lost reply *)
Definition command_of (ps pr pe : policy) (rp : bool) (o : op) : command tree :=
  match o with
  | OpSet _ _ => RMW (edit_of o) ps 0 rp
  | OpRm _ => RMW (edit_of o) pr 0 rp
  | OpEdit _ _ _ n => RMW (edit_of o) pe n rp
  | OpAbort => RMW (edit_of o) pe 0 rp
  | OpFile d => Blind d
  end.
