(* Model/Occ.v — optimistic concurrency control of the read-modify-write commands (C14).

   A revision-tagged store, commands that are a Read (GET: definition + the tag of the current revision)
   followed by a conditional Write (PATCH of [edit def_read] carrying a tag), and arbitrary interleavings.

   Mirrors: cmd/esc/cli/env_set.go, env_rm.go, env_edit.go (GetEnvironment ... UpdateEnvironmentWithProject),
   cmd/esc/cli/client/client.go (GetEnvironment / UpdateEnvironmentWithRevision: `if tag != "" { header.Set(etagHeader, tag) }`)
   and the service contract: an update succeeds iff it carries no tag or the tag of the current revision.

   Definitions only (total, computable).  The second half instantiates the definitions with a simple tree and the
   tree-level meaning of `env set <path> <value>`, `env rm <path>` and of the editor scripts used by the
   correspondence check. *)
From Verif Require Import Base.Bytes.

Section Occ.
  Variable D : Type.                     (* environment definitions *)

  (* result of the local edit of a command on the definition it read *)
  Inductive eres := EUpd (d : D) | ENoWrite | EErr | EPanic.

  (* which tag a command puts on its update: the one it read, or none (the dangerous variant) *)
  Inductive policy := SendRead | SendEmpty.

  (* RMW: GET then PATCH (edit def_read);  Blind: a single unconditional PATCH (`env edit --file`, other writers) *)
  Inductive command := RMW (edit : D -> eres) (pol : policy) | Blind (d : D).

  Record store := mkStore { s_def : D; s_rev : N }.

  Inductive outcome := OOk | OConflict | ONoWrite | OErr | OPanic.

  Inductive phase := PIdle | PRead (d : D) (r : N) | PDone (o : outcome).

  (* what the backend sees *)
  Inductive event :=
  | EvGet (i : nat) (got : store)
  | EvPatch (i : nat) (t : option N) (ok : bool) (before : store) (body : D) (after : store).

  Record state := mkState {
    st_store : store;
    st_ph : list phase;          (* one per command *)
    st_log : list nat;           (* commands whose update was applied, in write order *)
    st_trace : list event        (* requests in the order the backend served them *)
  }.

  (* the backend's rule *)
  Definition accept (t : option N) (rev : N) : bool :=
    match t with None => true | Some r => r =? rev end.

  Definition sent_tag (pol : policy) (r : N) : option N :=
    match pol with SendRead => Some r | SendEmpty => None end.

  Fixpoint set_nth {A} (i : nat) (x : A) (l : list A) : list A :=
    match l, i with
    | [], _ => []
    | _ :: r, O => x :: r
    | y :: r, S i' => y :: set_nth i' x r
    end.

  Definition finish (st : state) (i : nat) (o : outcome) : state :=
    mkState (st_store st) (set_nth i (PDone o) (st_ph st)) (st_log st) (st_trace st).

  Definition write (st : state) (i : nat) (t : option N) (body : D) : state :=
    let s := st_store st in
    if accept t (s_rev s) then
      let s' := mkStore body (s_rev s + 1) in
      mkState s' (set_nth i (PDone OOk) (st_ph st)) (st_log st ++ [i])
              (st_trace st ++ [EvPatch i t true s body s'])
    else
      mkState s (set_nth i (PDone OConflict) (st_ph st)) (st_log st)
              (st_trace st ++ [EvPatch i t false s body s]).

  (* command [i] takes its next step *)
  Definition step (cmds : list command) (i : nat) (st : state) : state :=
    match nth_error cmds i, nth_error (st_ph st) i with
    | Some (RMW edit pol), Some PIdle =>
        let s := st_store st in
        mkState s (set_nth i (PRead (s_def s) (s_rev s)) (st_ph st)) (st_log st) (st_trace st ++ [EvGet i s])
    | Some (RMW edit pol), Some (PRead d r) =>
        match edit d with
        | EUpd d' => write st i (sent_tag pol r) d'
        | ENoWrite => finish st i ONoWrite
        | EErr => finish st i OErr
        | EPanic => finish st i OPanic
        end
    | Some (Blind d), Some PIdle => write st i None d
    | _, _ => st
    end.

  Definition init_state (cmds : list command) (init : store) : state :=
    mkState init (map (fun _ => PIdle) cmds) [] [].

  (* a schedule is a list of command indices: the k-th occurrence of [i] is the k-th step of command [i], so every
     list is a schedule that respects the per-command order, and every interleaving is such a list *)
  Definition run (cmds : list command) (sched : list nat) (st : state) : state :=
    fold_left (fun st i => step cmds i st) sched st.

  (* the edits of the commands in [log], applied one after the other, each to the then-current definition *)
  Definition apply_cmd (cmds : list command) (d : D) (i : nat) : D :=
    match nth_error cmds i with
    | Some (RMW edit _) => match edit d with EUpd d' => d' | _ => d end
    | Some (Blind d') => d'
    | None => d
    end.

  Definition replay (cmds : list command) (log : list nat) (d0 : D) : D := fold_left (apply_cmd cmds) log d0.

  (* the guarantee about one update as the backend saw it: rejected and nothing changed, or applied to the
     definition that was current at the time of the write *)
  Definition event_ok (cmds : list command) (e : event) : Prop :=
    match e with
    | EvGet _ _ => True
    | EvPatch i t ok before body after =>
        match nth_error cmds i with
        | Some (RMW edit _) =>
            (ok = false /\ after = before)
            \/ (ok = true /\ edit (s_def before) = EUpd body /\ after = mkStore body (s_rev before + 1))
        | Some (Blind d) => ok = true /\ body = d /\ after = mkStore d (s_rev before + 1)
        | None => False
        end
    end.

  Definition tagged (c : command) : Prop :=
    match c with RMW _ SendEmpty => False | _ => True end.

  (* the full statement of the property, relative to which commands are allowed *)
  Definition occ_statement (allowed : command -> Prop) : Prop :=
    forall cmds, Forall allowed cmds ->
    forall (init : store) (sched : list nat),
      let fin := run cmds sched (init_state cmds init) in
      Forall (event_ok cmds) (st_trace fin)
      /\ s_def (st_store fin) = replay cmds (st_log fin) (s_def init)
      /\ NoDup (st_log fin)
      /\ (forall i, In i (st_log fin) <-> nth_error (st_ph fin) i = Some (PDone OOk)).
End Occ.

Arguments EUpd {D}. Arguments ENoWrite {D}. Arguments EErr {D}. Arguments EPanic {D}.
Arguments RMW {D}. Arguments Blind {D}.
Arguments mkStore {D}. Arguments s_def {D}. Arguments s_rev {D}.
Arguments PIdle {D}. Arguments PRead {D}. Arguments PDone {D}.
Arguments EvGet {D}. Arguments EvPatch {D}.
Arguments mkState {D}. Arguments st_store {D}. Arguments st_ph {D}. Arguments st_log {D}. Arguments st_trace {D}.
Arguments finish {D}. Arguments write {D}. Arguments step {D}. Arguments init_state {D}. Arguments run {D}.
Arguments apply_cmd {D}. Arguments replay {D}. Arguments event_ok {D}. Arguments tagged {D}.
Arguments occ_statement D : clear implicits.

(* ------------------------------------------------------------------------------------------------------------- *)
(* Concrete definitions: YAML documents restricted to mappings with string keys and scalar leaves, as canonical
   trees (keys sorted, no duplicates). *)

Inductive tree := TNull | TLeaf (s : string) | TNode (kids : list (string * tree)).

Fixpoint alookup {A} (k : string) (l : list (string * A)) : option A :=
  match l with
  | [] => None
  | (k', v) :: r => if String.eqb k k' then Some v else alookup k r
  end.

(* insert / replace in a key-sorted association list *)
Fixpoint ainsert {A} (k : string) (v : A) (l : list (string * A)) : list (string * A) :=
  match l with
  | [] => [(k, v)]
  | (k', v') :: r =>
      match String.compare k k' with
      | Eq => (k, v) :: r
      | Lt => (k, v) :: (k', v') :: r
      | Gt => (k', v') :: ainsert k v r
      end
  end.

Fixpoint aremove {A} (k : string) (l : list (string * A)) : list (string * A) :=
  match l with
  | [] => []
  | (k', v') :: r => if String.eqb k k' then aremove k r else (k', v') :: aremove k r
  end.

(* encoding.YAMLSyntax.Set on string-key paths; [None] as the node is yaml's zero node (Kind 0), [None] as the
   result is the error "expected an array or an object" *)
Fixpoint tset (p : list string) (v : tree) (t : option tree) : option tree :=
  match p with
  | [] => Some v
  | k :: p' =>
      match t with
      | None => match tset p' v None with Some c => Some (TNode [(k, c)]) | None => None end
      | Some (TNode kids) =>
          match tset p' v (alookup k kids) with Some c => Some (TNode (ainsert k c kids)) | None => None end
      | Some _ => None
      end
  end.

Inductive dres := DOk (t : tree) | DErr | DPanic.

(* encoding.YAMLSyntax.Delete on string-key paths, as it is: an empty path and a missing intermediate key index
   out of range *)
Fixpoint tdel (p : list string) (t : tree) : dres :=
  match p with
  | [] => DPanic
  | k :: p' =>
      match t with
      | TNode kids =>
          match p' with
          | [] => DOk (TNode (aremove k kids))
          | _ :: _ =>
              match alookup k kids with
              | None => DPanic
              | Some c => match tdel p' c with DOk c' => DOk (TNode (ainsert k c' kids)) | r => r end
              end
          end
      | _ => DErr
      end
  end.

(* the empty document unmarshals to yaml's zero node *)
Definition root_of (doc : tree) : option tree := match doc with TNull => None | t => Some t end.

(* `esc env set <env> <path> <value>` with a path of string keys whose first key is not "imports" *)
Definition op_set (p : list string) (v : tree) (doc : tree) : eres tree :=
  match tset ("values" :: p) v (root_of doc) with Some d => EUpd d | None => EErr end.

(* `esc env rm <env> <path>` *)
Definition op_rm (p : list string) (doc : tree) : eres tree :=
  match doc with
  | TNode kids =>
      match alookup "values" kids with
      | None => ENoWrite
      | Some vals =>
          match tdel p vals with
          | DOk vals' => EUpd (TNode (ainsert "values" vals' kids))
          | DErr => EErr
          | DPanic => EPanic
          end
      end
  | _ => ENoWrite
  end.

(* interactive `esc env edit` where the person in the editor sets values.<k> to the string <v> *)
Definition op_edit (k v : string) (doc : tree) : eres tree :=
  let rkids := match doc with TNode kids => kids | _ => [] end in
  let vkids := match alookup "values" rkids with Some (TNode l) => l | _ => [] end in
  EUpd (TNode (ainsert "values" (TNode (ainsert k (TLeaf v) vkids)) rkids)).

(* interactive `esc env edit` where the person empties the file: "Aborting edit due to empty definition." *)
Definition op_abort (doc : tree) : eres tree := ENoWrite.

Inductive op :=
| OpSet (p : list string) (v : tree)
| OpRm (p : list string)
| OpEdit (k v : string)
| OpAbort
| OpFile (d : tree).

Definition edit_of (o : op) : tree -> eres tree :=
  match o with
  | OpSet p v => op_set p v
  | OpRm p => op_rm p
  | OpEdit k v => op_edit k v
  | OpAbort => op_abort
  | OpFile d => fun _ => EUpd d
  end.

(* the tag policy of a command according to the Go source (Src/SrcOcc.v): [sites] are the call sites of the client's
   Update* methods in the command, (inside the `--file` branch?, what is passed as tag: 0 = the tag returned by
   GetEnvironment, 1 = "", 2 = something else); [client_ok] says that the client returns the ETag header from
   GetEnvironment and sends the tag parameter of the update as that header *)
Definition policy_of_sites (client_ok : bool) (sites : list (bool * N)) : policy :=
  let inter := filter (fun s => negb (fst s)) sites in
  if client_ok && negb (match inter with [] => true | _ => false end) && forallb (fun s => snd s =? 0) inter
  then SendRead else SendEmpty.

(* the commands of the correspondence check; [ps pr pe] are the tag policies of set / rm / interactive edit *)
Definition command_of (ps pr pe : policy) (o : op) : command tree :=
  match o with
  | OpSet _ _ => RMW (edit_of o) ps
  | OpRm _ => RMW (edit_of o) pr
  | OpEdit _ _ | OpAbort => RMW (edit_of o) pe
  | OpFile d => Blind d
  end.
