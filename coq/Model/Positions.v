(* Model/Positions.v — syntax/encoding/yaml.go: newPositionIndex, positionIndex.pos, yamlEndPos, yamlNodeRange,
   YAMLSyntax.ScalarRange (and, trivially, eval/expr.go convertRange which copies the three numbers).

   Inputs are the document bytes and what gopkg.in/yaml.v3 says about a node: (line, column, kind, style, tag,
   value, children).  yaml.v3 counts columns in characters (code points), starting at 1.

   The places where today's source and a repaired source differ are parameters ([pos_params]) whose values
   are read from the Go source by srcfacts on every run (coq/Src/SrcPositions.v), so the model mirrors the code
   as it is:
     pp_lo, pp_hi_incl   the guard of pos:  line < pp_lo || line (>= | >) len(lines)
     pp_clamp            does the ASCII fast path stop at the end of the line (the non-ASCII path always does)
     pp_runes            unit in which the non-ASCII path advances the column: one per code point
                         (utf8.DecodeRune) or the display width of a grapheme cluster (uniseg.Step)
     pp_end_chars        yamlEndPos: end column = column + (character count | byte length) of the value
     pp_tag_chars        same for the tag of a TaggedStyle scalar
     pp_sr_runes         ScalarRange: column advance of a sub-range, code points or uniseg.StringWidth

   github.com/rivo/uniseg is an external collaborator ([uniseg]): what uniseg.Step says about a line (its grapheme
   clusters with their display widths) and what uniseg.StringWidth says about a string are INPUTS of the model, like
   yaml.v3's node positions.  The correspondence feeds the library's own answers for the lines and scalars of the
   case; the theorems quantify over every [uniseg] and state their domain explicitly ([w1_prefix]: the clusters
   before the position are single code points of width 1 — false for a TAB (width 0), for East-Asian wide
   characters and emoji (width 2), for combining sequences (several code points, one cluster)).  [uniseg_simple] is
   the library on ASCII plus single-code-point clusters, with a table of the wide ones; it is what the refutations
   are computed with (the correspondence replays the same documents against the real library).
   Executable definitions only. *)
From Verif Require Export Base.Bytes.
Local Open Scope Z_scope.

Record pos_params := {
  pp_lo : Z; pp_hi_incl : bool; pp_clamp : bool; pp_runes : bool;
  pp_end_chars : bool; pp_tag_chars : bool; pp_sr_runes : bool }.

Definition slenZ (s : string) : Z := Z.of_nat (String.length s).

(* ---------------- UTF-8 segmentation (utf8.DecodeRune on well-formed text) ---------------- *)
(* the specification of rune_size by the value of the byte *)
Definition rune_size_N (c : ascii) : nat :=
  let n := N_of_ascii c in
  if (n <? 194)%N then 1%nat          (* ASCII; a stray continuation byte or overlong lead is RuneError, size 1 *)
  else if (n <? 224)%N then 2%nat
  else if (n <? 240)%N then 3%nat
  else if (n <? 245)%N then 4%nat
  else 1%nat.

(* the same read off the bits (the oracle runs this on every byte of documents of 64 KiB and more);
   rune_size c = rune_size_N c for all 256 bytes: Proofs/PositionsBase.v rune_size_spec *)
Definition rune_size (c : ascii) : nat :=
  match c with
  | Ascii b0 b1 b2 b3 b4 b5 b6 b7 =>
      if negb b7 || negb b6 then 1%nat
      else if negb b5 then (if b4 || b3 || b2 || b1 then 2%nat else 1%nat)
      else if negb b4 then 3%nat
      else if negb b3 && (negb b2 || (negb b1 && negb b0)) then 4%nat
      else 1%nat
  end.

(* [cps_aux s k] = (the first bytes of [s] that still belong to a code point begun earlier ([k] of them are
   outstanding), the code points after that) *)
Fixpoint cps_aux (s : string) (k : nat) : string * list string :=
  match s with
  | EmptyString => (EmptyString, [])
  | String c r =>
      match k with
      | S k' => let (p, l) := cps_aux r k' in (String c p, l)
      | O => let (p, l) := cps_aux r (rune_size c - 1) in (EmptyString, String c p :: l)
      end
  end.

Definition chars_of (s : string) : list string := snd (cps_aux s 0).
Definition nchars (s : string) : Z := Z.of_nat (length (chars_of s)).

(* bytes of an unfinished code point at the end of [s] *)
Fixpoint pending (s : string) (k : nat) : nat :=
  match s with
  | EmptyString => k
  | String c r => match k with S k' => pending r k' | O => pending r (rune_size c - 1) end
  end.
(* [s] consists of whole code points *)
Definition complete (s : string) : bool := Nat.eqb (pending s 0) 0.

Fixpoint is_ascii_str (s : string) : bool :=
  match s with
  | EmptyString => true
  | String c r => (N_of_ascii c <? 128)%N && is_ascii_str r
  end.

Definition is_ctl (c : ascii) : bool := let n := N_of_ascii c in (n <? 32)%N || (n =? 127)%N.

Fixpoint concat_str (l : list string) : string :=
  match l with [] => EmptyString | x :: r => x +++ concat_str r end.

(* ---------------- rivo/uniseg: an external collaborator ---------------- *)
(* u_seg s   = the grapheme clusters of s with their widths, as uniseg.Step yields them from state -1
   u_width s = uniseg.StringWidth s *)
Record uniseg := { u_seg : string -> list (string * Z); u_width : string -> Z }.

Fixpoint sum_w (cls : list (string * Z)) : Z :=
  match cls with [] => 0 | (_, w) :: r => w + sum_w r end.

(* the library on ASCII and other single-code-point clusters: ASCII control characters have width 0, the code
   points listed in [wide] width 2, everything else width 1 *)
Definition cp_width (wide : list string) (cp : string) : Z :=
  match cp with
  | String c EmptyString => if is_ctl c then 0 else 1
  | _ => if existsb (String.eqb cp) wide then 2 else 1
  end.

Definition seg_simple (wide : list string) (s : string) : list (string * Z) :=
  map (fun cp => (cp, cp_width wide cp)) (chars_of s).

Definition uniseg_simple (wide : list string) : uniseg :=
  {| u_seg := seg_simple wide; u_width := fun s => sum_w (seg_simple wide s) |}.

(* the clusters the walk of pos consumes *)
Definition one_each (cs : list string) : list (string * Z) := map (fun cp => (cp, 1)) cs.

Definition clusters (p : pos_params) (u : uniseg) (l : string) : list (string * Z) :=
  if pp_runes p then one_each (chars_of l) else u_seg u l.

(* the explicit domain of the theorems: the first clusters are exactly the code points [cs], each of width 1 *)
Fixpoint w1_prefix (cls : list (string * Z)) (cs : list string) {struct cs} : bool :=
  match cs with
  | [] => true
  | c :: r => match cls with
              | (cl, w) :: cr => String.eqb cl c && (w =? 1) && w1_prefix cr r
              | [] => false
              end
  end.

(* ---------------- the line table: newPositionIndex ---------------- *)
Definition is_nl_N (c : ascii) : bool := (N_of_ascii c =? 10)%N.
(* = is_nl_N (Proofs/PositionsBase.v is_nl_spec), read off the bits *)
Definition is_nl (c : ascii) : bool :=
  match c with
  | Ascii false true false true false false false false => true
  | _ => false
  end.

(* bytes.Cut(yaml, "\n") repeated: (first line, the other lines) *)
Fixpoint cut_lines (s : string) : string * list string :=
  match s with
  | EmptyString => (EmptyString, [])
  | String c r => let (l, ls) := cut_lines r in
                  if is_nl c then (EmptyString, l :: ls) else (String c l, ls)
  end.

Definition lines_of (s : string) : list string := let (l, ls) := cut_lines s in l :: ls.

Record line_rec := { l_off : Z; l_ascii : bool; l_line : string }.

Fixpoint index_from (off : Z) (ls : list string) : list line_rec :=
  match ls with
  | [] => []
  | l :: r => {| l_off := off; l_ascii := is_ascii_str l; l_line := l |} :: index_from (off + slenZ l + 1) r
  end.

Definition new_position_index (text : string) : list line_rec := index_from 0 (lines_of text).

(* ---------------- positionIndex.pos ---------------- *)
Record hpos := { p_line : Z; p_col : Z; p_byte : Z }.

(* for len(rest) > 0 && c < column { cluster ...; b, c = b+len(cluster), c+width } *)
Fixpoint walk (cls : list (string * Z)) (b c column : Z) : Z :=
  match cls with
  | [] => b
  | (cl, w) :: r => if c <? column then walk r (b + slenZ cl) (c + w) column else b
  end.

(* None = run-time panic (index out of range) *)
Definition pos (p : pos_params) (u : uniseg) (idx : list line_rec) (line column : Z) : option hpos :=
  let n := Z.of_nat (length idx) in
  if (line <? pp_lo p) || (if pp_hi_incl p then n <? line else n <=? line)
  then Some {| p_line := line; p_col := column; p_byte := 0 |}
  else if line <? 1 then None
  else match nth_error idx (Z.to_nat (line - 1)) with
       | None => None
       | Some l =>
           if l_ascii l then
             let b := if pp_clamp p
                      then (if (1 <=? column) && (column - 1 <? slenZ (l_line l))
                            then l_off l + column - 1 else l_off l + slenZ (l_line l))
                      else l_off l + column - 1 in
             Some {| p_line := line; p_col := column; p_byte := b |}
           else
             Some {| p_line := line; p_col := column;
                     p_byte := walk (clusters p u (l_line l)) (l_off l) 1 column |}
       end.

(* ---------------- yaml nodes, yamlEndPos, yamlNodeRange ---------------- *)
(* kind: 1 document, 2 sequence, 4 mapping, 8 scalar, 16 alias;
   style: 0 plain, 1 tagged, 2 double-quoted, 4 single-quoted, 8 literal, 16 folded, 32 flow (bit set) *)
Inductive ynode :=
  YNode (kind style : N) (tag value : string) (line col : Z) (anchored : bool) (children : list ynode).

Definition yn_kind (n : ynode) : N := match n with YNode k _ _ _ _ _ _ _ => k end.
Definition yn_style (n : ynode) : N := match n with YNode _ s _ _ _ _ _ _ => s end.
Definition yn_tag (n : ynode) : string := match n with YNode _ _ t _ _ _ _ _ => t end.
Definition yn_value (n : ynode) : string := match n with YNode _ _ _ v _ _ _ _ => v end.
Definition yn_line (n : ynode) : Z := match n with YNode _ _ _ _ l _ _ _ => l end.
Definition yn_col (n : ynode) : Z := match n with YNode _ _ _ _ _ c _ _ => c end.
Definition yn_anchored (n : ynode) : bool := match n with YNode _ _ _ _ _ _ a _ => a end.
Definition yn_children (n : ynode) : list ynode := match n with YNode _ _ _ _ _ _ _ ch => ch end.

Definition is_collection (kind : N) : bool := ((kind =? 1) || (kind =? 2) || (kind =? 4))%N.

Definition str_len (chars : bool) (s : string) : Z := if chars then nchars s else slenZ s.

(* (line, column) handed to pos for the end of a scalar (or alias) *)
Definition scalar_end_lc (p : pos_params) (style : N) (tag value : string) (line col : Z) : Z * Z :=
  if (style =? 8)%N then
    let segs := lines_of value in
    (line + (Z.of_nat (length segs) - 1), col + str_len (pp_end_chars p) (last segs EmptyString))
  else if (style =? 1)%N then
    (line, col + str_len (pp_tag_chars p) tag + 1 + str_len (pp_end_chars p) value)
  else (line, col + str_len (pp_end_chars p) value).

(* (line, column) of the end of a node: that of its last descendant *)
Fixpoint end_lc (p : pos_params) (n : ynode) : Z * Z :=
  match n with
  | YNode kind style tag value line col _ ch =>
      if is_collection kind then
        (fix go (l : list ynode) : Z * Z :=
           match l with
           | [] => (line, col)
           | x :: r => match r with [] => end_lc p x | _ :: _ => go r end
           end) ch
      else scalar_end_lc p style tag value line col
  end.

Definition yaml_end_pos (p : pos_params) (u : uniseg) (idx : list line_rec) (n : ynode) : option hpos :=
  let (l, c) := end_lc p n in pos p u idx l c.

(* (the anchor of a node is not looked at: yaml.v3 reports an anchored node at its `&`, see the C19_anchored theorems) *)
Definition node_range (p : pos_params) (u : uniseg) (idx : list line_rec) (n : ynode) : option (hpos * hpos) :=
  match pos p u idx (yn_line n) (yn_col n), yaml_end_pos p u idx n with
  | Some b, Some e => Some (b, e)
  | _, _ => None
  end.

(* ---------------- YAMLSyntax.ScalarRange ---------------- *)
(* None = the Go function returns nil (exported as the zero range) *)
Definition scalar_range (p : pos_params) (u : uniseg) (n : ynode) (rng : hpos * hpos) (st en : nat)
  : option (hpos * hpos) :=
  let (b, e) := rng in
  if negb (yn_kind n =? 8)%N then None
  else if negb (p_line b =? p_line e) || (negb (yn_style n =? 0)%N && negb (yn_style n =? 32)%N) then None
  else
    let w k := if pp_sr_runes p then nchars (stake k (yn_value n)) else u_width u (stake k (yn_value n)) in
    Some ({| p_line := p_line b; p_col := p_col b + w st; p_byte := p_byte b + Z.of_nat st |},
          {| p_line := p_line b; p_col := p_col b + w en; p_byte := p_byte b + Z.of_nat en |}).

(* ======================================================================================================
   Specification side: what "the byte offset agrees with line and column" and "the text in that range"
   mean, computed from the text alone (used by the theorems and by the oracle on the implementation). *)

Fixpoint lines_len (ls : list string) : Z :=
  match ls with [] => 0 | l :: r => slenZ l + 1 + lines_len r end.

(* the byte offset of (line, col) if that position exists in the text: line within the text and at most one
   past the last character of the line *)
Definition true_byte (text : string) (line col : Z) : option Z :=
  let ls := lines_of text in
  if (1 <=? line) && (line <=? Z.of_nat (length ls)) && (1 <=? col) then
    match nth_error ls (Z.to_nat (line - 1)) with
    | Some l =>
        let cs := chars_of l in
        if col - 1 <=? Z.of_nat (length cs)
        then Some (lines_len (firstn (Z.to_nat (line - 1)) ls) + slenZ (concat_str (firstn (Z.to_nat (col - 1)) cs)))
        else None
    | None => None
    end
  else None.

(* the same by a single scan over the bytes, counting lines and characters: an independent second definition
   (proved equal to [true_byte] in Proofs/PositionsScan.v) *)
Fixpoint scan_pos (s : string) (k : nat) (ln cl b line col : Z) : option Z :=
  match s with
  | EmptyString => if (ln =? line) && (cl =? col) then Some b else None
  | String c r =>
      match k with
      | S k' => scan_pos r k' ln cl (b + 1) line col
      | O => if (ln =? line) && (cl =? col) then Some b
             else if is_nl c then scan_pos r 0 (ln + 1) 1 (b + 1) line col
             else scan_pos r (rune_size c - 1) ln (cl + 1) (b + 1) line col
      end
  end.

Definition substr (b e : Z) (text : string) : string := stake (Z.to_nat (e - b)) (sdrop (Z.to_nat b) text).

(* the line [line] of the text, if any *)
Definition line_at (text : string) (line : Z) : option string :=
  if 1 <=? line then nth_error (lines_of text) (Z.to_nat (line - 1)) else None.

(* the position has a line of the text but a column past its end *)
Definition past_eol (text : string) (line col : Z) : bool :=
  match line_at text line with
  | Some l => nchars l <? col - 1
  | None => false
  end.

(* on a non-ASCII line, the clusters uniseg reports before the column are not the col-1 code points with width 1
   each (a TAB, a wide character, a combining sequence): the walk of pos miscounts *)
Definition irregular_before (p : pos_params) (u : uniseg) (text : string) (line col : Z) : bool :=
  match line_at text line with
  | Some l => negb (pp_runes p) && negb (is_ascii_str l)
              && negb (w1_prefix (u_seg u l) (firstn (Z.to_nat (col - 1)) (chars_of l)))
  | None => false
  end.

(* ScalarRange's column advance for the first [k] bytes of [v] is not their number of code points *)
Definition sr_irregular (p : pos_params) (u : uniseg) (v : string) (k : nat) : bool :=
  negb (pp_sr_runes p) && negb (u_width u (stake k v) =? nchars (stake k v)).

(* the (line, column) the code computes for the end of a node does not exist in the text *)
Definition end_missing (p : pos_params) (text : string) (n : ynode) : bool :=
  match true_byte text (fst (end_lc p n)) (snd (end_lc p n)) with Some _ => false | None => true end.

(* the text at (line, col) is [value]: a plain single-line scalar located where yaml says *)
Definition located (text : string) (line col : Z) (value : string) : bool :=
  match true_byte text line col, line_at text line with
  | Some b, Some l =>
      negb (String.eqb value "") && complete value
      && String.eqb (substr b (b + slenZ value) text) value
      && (col - 1 + nchars value <=? nchars l)
  | _, _ => false
  end.

(* ======================================================================================================
   The same specification functions over a table of the lines with their byte offsets, computed once per document
   (the correspondence evaluates them for thousands of positions of documents of 64 KiB and more).  Proved equal to the
   definitions above in Proofs/PositionsScan.v (C19_fast_oracle_is_the_specification). *)
Fixpoint offs_from (off : Z) (ls : list string) : list (Z * string) :=
  match ls with
  | [] => []
  | l :: r => (off, l) :: offs_from (off + slenZ l + 1) r
  end.

Definition text_table (text : string) : list (Z * string) := offs_from 0 (lines_of text).

Definition tab_line (tab : list (Z * string)) (line : Z) : option (Z * string) :=
  if 1 <=? line then nth_error tab (Z.to_nat (line - 1)) else None.

Definition true_byte_tab (tab : list (Z * string)) (line col : Z) : option Z :=
  match tab_line tab line with
  | Some (off, l) =>
      let cs := chars_of l in
      if (1 <=? col) && (col - 1 <=? Z.of_nat (length cs))
      then Some (off + slenZ (concat_str (firstn (Z.to_nat (col - 1)) cs)))
      else None
  | None => None
  end.

Definition irregular_before_tab (p : pos_params) (u : uniseg) (tab : list (Z * string)) (line col : Z) : bool :=
  match tab_line tab line with
  | Some (_, l) => negb (pp_runes p) && negb (is_ascii_str l)
                   && negb (w1_prefix (u_seg u l) (firstn (Z.to_nat (col - 1)) (chars_of l)))
  | None => false
  end.

Definition located_tab (text : string) (tab : list (Z * string)) (line col : Z) (value : string) : bool :=
  match true_byte_tab tab line col, tab_line tab line with
  | Some b, Some (_, l) =>
      negb (String.eqb value "") && complete value
      && String.eqb (substr b (b + slenZ value) text) value
      && (col - 1 + nchars value <=? nchars l)
  | _, _ => false
  end.
