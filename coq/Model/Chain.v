(* Model/Chain.v — eval/value.go: values with lazy JSON-merge-patch base chains.
   A Go [*value] with its [base] pointers is a CHAIN of layers, top first.  Executable definitions only. *)
From Verif Require Export Base.Bytes.

(* ---------------- scalars, schemas (as far as the evaluator consults them) ---------------- *)
Inductive scalar := SNull | SBool (b : bool) | SNum (text : string) | SStr (s : string).

Inductive sch :=
| ScAlways | ScNever
| ScType (ty : string)                                   (* "null" | "boolean" | "number" | "string" *)
| ScArray (prefix : list sch) (items : option sch)         (* Type "array"; items None = nil *)
| ScObject (props : list (string * sch)) (addl : option sch) (* Type "object"; addl None = nil *)
| ScOneOf (alts : list sch).

(* ---------------- layers and chains ---------------- *)
Inductive layer :=
| LScalar (sec unk : bool) (sc : sch) (s : scalar)
| LArr (sec unk : bool) (sc : sch) (elems : list (list layer))
| LObj (sec unk : bool) (sc : sch) (props : list (string * list layer)).   (* key-sorted, duplicate-free *)

Notation chain := (list layer).

Definition l_sec (l : layer) : bool := match l with LScalar s _ _ _ | LArr s _ _ _ | LObj s _ _ _ => s end.
Definition l_unk (l : layer) : bool := match l with LScalar _ u _ _ | LArr _ u _ _ | LObj _ u _ _ => u end.
Definition l_sch (l : layer) : sch := match l with LScalar _ _ c _ | LArr _ _ c _ | LObj _ _ c _ => c end.

Definition set_sec (l : layer) : layer :=
  match l with
  | LScalar _ u c s => LScalar true u c s
  | LArr _ u c e => LArr true u c e
  | LObj _ u c p => LObj true u c p
  end.

Definition set_flags (sec unk : bool) (l : layer) : layer :=
  match l with
  | LScalar _ _ c s => LScalar sec unk c s
  | LArr _ _ c e => LArr sec unk c e
  | LObj _ _ c p => LObj sec unk c p
  end.

Definition unknown_layer (sec : bool) (c : sch) : layer := LScalar sec true c SNull.

(* nesting depth of a chain, over ALL layers and members (shadowed ones included): an upper bound of the depth of the
   merged view, i.e. of the fuel [export] needs (Proofs/RefSem2Depth.v: export_total_depth).  An object / array layer has
   depth >= 2 whatever its members (an empty member chain exports as an unknown scalar). *)
Fixpoint ldepth (l : layer) : nat :=
  match l with
  | LScalar _ _ _ _ => 1
  | LArr _ _ _ elems =>
      S ((fix go (es : list (list layer)) : nat :=
            match es with
            | [] => 0
            | c :: r => Nat.max (Nat.max 1 ((fix g2 (c : list layer) : nat :=
                                    match c with [] => 0 | l :: r' => Nat.max (ldepth l) (g2 r') end) c)) (go r)
            end) elems)
  | LObj _ _ _ props =>
      S ((fix go (ps : list (string * list layer)) : nat :=
            match ps with
            | [] => 0
            | kc :: r => Nat.max (Nat.max 1 ((fix g2 (c : list layer) : nat :=
                                    match c with [] => 0 | l :: r' => Nat.max (ldepth l) (g2 r') end) (snd kc))) (go r)
            end) props)
  end%nat.

Fixpoint cdepth (c : chain) : nat := match c with [] => O | l :: r => Nat.max (ldepth l) (cdepth r) end.

(* ---------------- association lists ---------------- *)
Fixpoint alookup {A} (k : string) (m : list (string * A)) : option A :=
  match m with
  | [] => None
  | (k', v) :: r => if String.eqb k k' then Some v else alookup k r
  end.

Fixpoint ainsert {A} (k : string) (v : A) (m : list (string * A)) : list (string * A) :=
  match m with
  | [] => [(k, v)]
  | (k', v') :: r =>
      if String.eqb k k' then (k, v) :: r
      else if String.ltb k k' then (k, v) :: (k', v') :: r
      else (k', v') :: ainsert k v r
  end.

Fixpoint sinsert (k : string) (l : list string) : list string :=
  match l with
  | [] => [k]
  | k' :: r => if String.eqb k k' then l else if String.ltb k k' then k :: l else k' :: sinsert k r
  end.

Definition sunion (a b : list string) : list string := fold_left (fun acc k => sinsert k acc) a b.
Definition ssort (a : list string) : list string := fold_left (fun acc k => sinsert k acc) a [].

(* ---------------- schema helpers: schema.go Property / Item / union ---------------- *)
Definition sch_is_never (s : sch) : bool := match s with ScNever => true | _ => false end.

Definition sch_union (l : list sch) : sch :=
  match filter (fun s => negb (sch_is_never s)) l with
  | [] => ScNever
  | [s] => s
  | l' => ScOneOf l'
  end.

Definition opt_sch (o : option sch) : list sch := match o with Some s => [s] | None => [] end.

Fixpoint sch_property (fuel : nat) (k : string) (s : sch) : sch :=
  match fuel with
  | O => ScNever
  | S f =>
    match s with
    | ScObject props addl =>
        match alookup k props with Some p => sch_union [p] | None => sch_union (opt_sch addl) end
    | ScOneOf alts => sch_union (map (sch_property f k) alts ++ [ScNever])
    | _ => ScNever
    end
  end.

Fixpoint sch_item (fuel : nat) (i : nat) (s : sch) : sch :=
  match fuel with
  | O => ScNever
  | S f =>
    match s with
    | ScArray prefix items =>
        match nth_error prefix i with Some p => sch_union [p] | None => sch_union (opt_sch items) end
    | ScOneOf alts => sch_union (map (sch_item f i) alts ++ [ScNever])
    | _ => ScNever
    end
  end.

(* nesting depth of a schema: the fuel that suffices for [sch_property] / [sch_item] (they descend through oneOf
   alternatives only), [merged_schema] (through object properties only) and Eval.sch_is_type (oneOf); proved in
   Proofs/HelperFuel.v (sch_*_fuel_stable): with this fuel the [O] branches are unreachable *)
Fixpoint sch_depth (s : sch) : nat :=
  match s with
  | ScArray prefix items =>
      S (Nat.max ((fix go (l : list sch) : nat := match l with [] => O | x :: r => Nat.max (sch_depth x) (go r) end) prefix)
                 (match items with Some i => sch_depth i | None => O end))
  | ScObject props addl =>
      S (Nat.max ((fix go (l : list (string * sch)) : nat :=
                     match l with [] => O | x :: r => Nat.max (sch_depth (snd x)) (go r) end) props)
                 (match addl with Some a => sch_depth a | None => O end))
  | ScOneOf alts =>
      S ((fix go (l : list sch) : nat := match l with [] => O | x :: r => Nat.max (sch_depth x) (go r) end) alts)
  | _ => 1%nat
  end.

(* value.go mergedSchema *)
Fixpoint merged_schema (fuel : nat) (base : option sch) (top : sch) : sch :=
  match fuel with
  | O => top
  | S f =>
    match base, top with
    | Some (ScObject bprops baddl), ScObject tprops taddl =>
        let merged :=
          fold_left (fun acc kt => let '(k, t) := kt in
                       match alookup k acc with
                       | Some b => ainsert k (merged_schema f (Some b) t) acc
                       | None => ainsert k t acc
                       end) tprops (fold_left (fun acc kb => ainsert (fst kb) (snd kb) acc) bprops []) in
        let addl := match baddl with
                    | Some b => match taddl with None => Some b | Some _ => Some ScAlways end
                    | None => taddl
                    end in
        ScObject merged addl
    | _, _ => top
    end
  end.

(* the schema a Go value carries after its merges: own schema merged over the base's *)
Fixpoint chain_sch (c : chain) : option sch :=
  match c with
  | [] => None
  | l :: rest => Some (merged_schema (sch_depth (l_sch l)) (chain_sch rest) (l_sch l))
  end.

Definition top_sch (c : chain) : sch := match chain_sch c with Some s => s | None => ScAlways end.

(* ---------------- value.go: isObject, keys, property ---------------- *)
Definition sch_objectish (s : sch) : bool :=
  match s with ScAlways => true | ScObject _ _ => true | _ => false end.

Definition is_object (c : chain) : bool :=
  match c with
  | [] => false
  | l :: _ => if l_unk l then sch_objectish (top_sch c) else match l with LObj _ _ _ _ => true | _ => false end
  end.

(* keys(): own keys united with the base's keys as long as the layers are (known or unknown) object reprs *)
Fixpoint keys (c : chain) : list string :=
  match c with
  | LObj _ _ _ props :: rest => sunion (keys rest) (map fst props)
  | _ => []
  end.

(* property(key) *)
Fixpoint property (k : string) (c : chain) : chain :=
  match c with
  | [] => []
  | LObj _ _ _ props :: rest =>
      match alookup k props with
      | Some child => child ++ property k rest
      | None => property k rest
      end
  | l :: rest =>
      if l_unk l then (let s := top_sch c in unknown_layer false (sch_property (sch_depth s) k s)) :: property k rest
      else []
  end.

(* ---------------- export ---------------- *)
Inductive xval :=
| XScalar (sec unk : bool) (s : scalar)
| XArr (sec unk : bool) (l : list xval)
| XObj (sec unk : bool) (m : list (string * xval)).

Fixpoint mapM {A B} (f : A -> option B) (l : list A) : option (list B) :=
  match l with
  | [] => Some []
  | x :: r => match f x, mapM f r with Some y, Some t => Some (y :: t) | _, _ => None end
  end.

(* None = out of fuel *)
Fixpoint export (fuel : nat) (c : chain) : option xval :=
  match fuel with
  | O => None
  | S f =>
    match c with
    | [] => Some (XScalar false true SNull)            (* nil value: never exported by Go; kept total *)
    | LScalar sec unk _ s :: _ => Some (XScalar sec unk s)
    | LArr sec unk _ elems :: _ =>
        match mapM (export f) elems with Some l => Some (XArr sec unk l) | None => None end
    | LObj sec unk _ _ :: _ =>
        match mapM (fun k => match export f (property k c) with Some v => Some (k, v) | None => None end) (keys c) with
        | Some m => Some (XObj sec unk m)
        | None => None
        end
    end
  end.

Fixpoint x_any (p : bool -> bool -> bool) (fuel : nat) (v : xval) : bool :=
  match fuel with
  | O => false
  | S f =>
    match v with
    | XScalar s u _ => p s u
    | XArr s u l => p s u || existsb (x_any p f) l
    | XObj s u m => p s u || existsb (fun kv => x_any p f (snd kv)) m
    end
  end.

Fixpoint x_depth (v : xval) : nat :=
  match v with
  | XScalar _ _ _ => 1%nat
  | XArr _ _ l => S (fold_left (fun a x => Nat.max a (x_depth x)) l O)
  | XObj _ _ m => S (fold_left (fun a kv => Nat.max a (x_depth (snd kv))) m O)
  end.

Definition x_has_unknown (v : xval) : bool := x_any (fun _ u => u) (S (x_depth v)) v.
Definition x_has_secret (v : xval) : bool := x_any (fun s _ => s) (S (x_depth v)) v.

(* unexport: a provider / JSON value becomes a single-layer chain *)
Fixpoint unexport (fuel : nat) (xsecret : bool) (v : xval) : chain :=
  match fuel with
  | O => []
  | S f =>
    match v with
    | XScalar s u sc =>
        [LScalar (s || xsecret) u
           (match sc with SNull => ScType "null" | SBool _ => ScType "boolean" | SNum _ => ScType "number" | SStr _ => ScType "string" end) sc]
    | XArr s u l =>
        (* a value inside a secret composite is secret *)
        let cs := map (unexport f (s || xsecret)) l in
        [LArr (s || xsecret) u (ScArray (map top_sch cs) (Some ScNever)) cs]
    | XObj s u m =>
        let cm := fold_left (fun acc kv => ainsert (fst kv) (unexport f (s || xsecret) (snd kv)) acc) m [] in
        [LObj (s || xsecret) u (ScObject (map (fun kc => (fst kc, top_sch (snd kc))) cm) None) cm]
    end
  end.

(* plain JSON view *)
Inductive json := JNull | JBool (b : bool) | JNum (text : string) | JStr (s : string)
                | JArr (l : list json) | JObj (m : list (string * json)).

Definition scalar_json (s : scalar) : json :=
  match s with SNull => JNull | SBool b => JBool b | SNum t => JNum t | SStr s => JStr s end.

(* Value.ToJSON(redact=false): unknown -> "[unknown]" *)
Fixpoint x_to_json (fuel : nat) (v : xval) : json :=
  match fuel with
  | O => JNull
  | S f =>
    match v with
    | XScalar _ u s => if u then JStr "[unknown]" else scalar_json s
    | XArr _ u l => if u then JStr "[unknown]" else JArr (map (x_to_json f) l)
    | XObj _ u m => if u then JStr "[unknown]" else JObj (map (fun kv => (fst kv, x_to_json f (snd kv))) m)
    end
  end.
