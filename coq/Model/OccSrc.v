(* Model/OccSrc.v — the tag policies of the three read-modify-write commands of the CLI, computed from the facts
   srcfacts read from the Go source on this run (Src/SrcOcc.v).  Definitions only. *)
From Verif Require Src.SrcClient Model.Client.
From Verif Require Import Base.Bytes Model.Occ Src.SrcOcc.

(* the client returns the ETag response header as the tag of GetEnvironment, and sends the tag parameter of an
   update as the ETag request header (the header the service reads the expected revision from) *)
Definition client_ok : bool :=
  String.eqb occ_etag_header "ETag" && occ_get_returns_etag && occ_update_sends_tag
  && occ_update_with_project_forwards_tag.

Definition pol_set : policy := policy_of_sites client_ok occ_set_sites.
Definition pol_rm : policy := policy_of_sites client_ok occ_rm_sites.
Definition pol_edit : policy := policy_of_sites client_ok occ_edit_sites.

(* does the client send an update (PATCH) again when its reply was lost?  retry.go as read for C20 (Src/SrcClient.v,
   evaluated by Model/Client.v: the policy of UpdateEnvironmentWithRevision - the default one unless its call options
   name another - looked up in the shouldRetry table for the verb of that operation), provided shouldRetry and
   doWithRetry have the shape that makes that table the whole truth (Src/SrcOcc.v: occ_should_retry_exact) *)
Definition update_replayed : bool :=
  negb occ_should_retry_exact
  || match Client.find_op "UpdateEnvironmentWithRevision" SrcClient.client_ops with
     | Some f => match Client.should_retry (Client.policy_of f) (SrcClient.of_verb f) with
                 | Some false => false
                 | _ => true
                 end
     | None => true
     end.

(* the commands `esc env set`, `esc env rm <path>`, interactive `esc env edit`, `esc env edit --file` as the source has them *)
Definition cli_command (o : op) : command tree := command_of pol_set pol_rm pol_edit update_replayed o.
