(* Model/RedactorCollect.v — which strings `esc run` hands to the output filter (cmd/esc/cli/env_run.go RunE,
   cmd/esc/cli/prepare.go, environment.go GetEnvironmentVariables/GetTemporaryFiles, value.go ToString), and the
   whole command: open the environment, project variables and files, interpolate the arguments, run the command
   with its output going through the filter.  Definitions only. *)
From Verif Require Import Base.Bytes Model.Redactor.
From Coq Require Import Arith.
Local Open Scope nat_scope.

(* esc.Value as the CLI receives it from the service: a JSON-like tree, every node carrying its Secret flag *)
Inductive evalue :=
| VNull (sec : bool)
| VBool (sec b : bool)
| VNum (sec : bool) (text : bytes)
| VStr (sec : bool) (s : bytes)
| VArr (sec : bool) (l : list evalue)
| VObj (sec : bool) (l : list (bytes * evalue)).      (* keys are distinct *)

Definition is_secret (v : evalue) : bool :=
  match v with
  | VNull s | VBool s _ | VNum s _ | VStr s _ | VArr s _ | VObj s _ => s
  end.

(* ---- byte-wise order of Go strings (sort.Strings) ---- *)
Fixpoint bytes_ltb (a b : bytes) : bool :=
  match a, b with
  | [], [] => false
  | [], _ :: _ => true
  | _ :: _, [] => false
  | x :: a', y :: b' =>
      let nx := N_of_ascii x in let ny := N_of_ascii y in
      if N.ltb nx ny then true else if N.ltb ny nx then false else bytes_ltb a' b'
  end.

Fixpoint insert_key {A} (kv : bytes * A) (l : list (bytes * A)) : list (bytes * A) :=
  match l with
  | [] => [kv]
  | x :: r => if bytes_ltb (fst kv) (fst x) then kv :: l else x :: insert_key kv r
  end.

Fixpoint sort_keys {A} (l : list (bytes * A)) : list (bytes * A) :=
  match l with [] => [] | kv :: r => insert_key kv (sort_keys r) end.

Fixpoint lookup_key {A} (k : bytes) (l : list (bytes * A)) : option A :=
  match l with
  | [] => None
  | (k', v) :: r => if bytes_eqb k k' then Some v else lookup_key k r
  end.

Fixpoint join (sep : bytes) (l : list bytes) : bytes :=
  match l with
  | [] => []
  | [x] => x
  | x :: r => x ++ sep ++ join sep r
  end.

(* ---- Value.ToString(false) ----
   strconv.Quote is modelled on 7-bit input (every byte below 128): the double quote and the backslash get a backslash,
   \a \b \f \n \r \t \v, the other control bytes and DEL become \xHH (lower-case hex), everything else stays.  On bytes
   >= 128 Go decodes UTF-8 and consults unicode.IsPrint (tables): not modelled.  [quotable] says whether every string
   that passes through Quote while a tree is rendered is 7-bit, i.e. whether [to_string] is exact for the tree.
   Scalars are never quoted: their string form is exact for ALL byte strings. *)
Definition dquote : ascii := ascii_of_N 34.
Definition bslash : ascii := ascii_of_N 92.
Definition ascii7 (s : bytes) : bool := forallb (fun c => N.ltb (N_of_ascii c) 128) s.

Fixpoint quote_body (s : bytes) : bytes :=
  match s with
  | [] => []
  | c :: r =>
      let n := N_of_ascii c in
      let rest := quote_body r in
      let esc (x : string) := bslash :: chars x ++ rest in
      if N.eqb n 34 then bslash :: dquote :: rest
      else if N.eqb n 92 then bslash :: bslash :: rest
      else if N.eqb n 7 then esc "a"
      else if N.eqb n 8 then esc "b"
      else if N.eqb n 12 then esc "f"
      else if N.eqb n 10 then esc "n"
      else if N.eqb n 13 then esc "r"
      else if N.eqb n 9 then esc "t"
      else if N.eqb n 11 then esc "v"
      else if N.ltb n 32 || N.eqb n 127
      then bslash :: ascii_of_N 120 :: hexdigit (N.div n 16) :: hexdigit (N.modulo n 16) :: rest
      else c :: rest
  end.

Definition quote (s : bytes) : bytes := dquote :: quote_body s ++ [dquote].

(* the class of the first version of this model (Quote only adds the surrounding quotes); kept for the distribution *)
Definition simple_byte (c : ascii) : bool :=
  let n := N_of_ascii c in N.leb 32 n && N.leb n 126 && negb (N.eqb n 34) && negb (N.eqb n 92).
Definition simple (s : bytes) : bool := forallb simple_byte s.

Fixpoint to_string (v : evalue) : bytes :=
  match v with
  | VNull _ => []
  | VBool _ b => chars (if b then "true" else "false")
  | VNum _ t => t
  | VStr _ s => s
  | VArr _ l => join (chars ",") (map (fun x => quote (to_string x)) l)
  | VObj _ l =>
      join (chars ",")
           (map (fun kv => quote (fst kv) ++ chars "=" ++ quote (snd kv))
                (sort_keys (map (fun kv => match kv with (k, x) => (k, to_string x) end) l)))
  end.

(* every string that passes through Quote when [v] is rendered is 7-bit (then so is the result of Quote) *)
Fixpoint quotable (v : evalue) : bool :=
  match v with
  | VArr _ l => forallb (fun x => quotable x && ascii7 (to_string x)) l
  | VObj _ l => forallb (fun kv => match kv with (k, x) => ascii7 k && quotable x && ascii7 (to_string x) end) l
  | _ => true
  end.

(* ---- getEnvValue: follow a property path ---- *)
Inductive pelem := PKey (k : bytes) | PIdx (i : nat).

Fixpoint get_path (v : evalue) (path : list pelem) : option evalue :=
  match path with
  | [] => Some v
  | e :: rest =>
      match v, e with
      | VArr _ l, PIdx i => match nth_error l i with Some x => get_path x rest | None => None end
      | VObj _ l, PKey k => match lookup_key k l with Some x => get_path x rest | None => None end
      | _, _ => None
      end
  end.

(* ---- GetEnvironmentVariables / GetTemporaryFiles: the scalar members of a top-level object, sorted by key,
        each with its Secret flag and its string form ---- *)
Definition scalar_text (v : evalue) : option (bool * bytes) :=
  match v with
  | VNull s | VBool s _ | VNum s _ | VStr s _ => Some (s, to_string v)
  | _ => None
  end.

Fixpoint scalars (l : list (bytes * evalue)) : list (bytes * (bool * bytes)) :=
  match l with
  | [] => []
  | (k, v) :: r => match scalar_text v with Some t => (k, t) :: scalars r | None => scalars r end
  end.

Definition projection (root : evalue) (name : bytes) : list (bytes * (bool * bytes)) :=
  match root with
  | VObj _ props => match lookup_key name props with Some (VObj _ l) => sort_keys (scalars l) | _ => [] end
  | _ => []
  end.

Definition projection_secrets (root : evalue) (name : bytes) : list bytes :=
  map (fun e => snd (snd e)) (filter (fun e => fst (snd e)) (projection root name)).

(* ---- the secrets of an interpolated value ----
   before the repair: the value's own string form if the value itself is flagged;
   after (appendSecrets): the string form of the value and of every value nested in it that is flagged *)
Definition own_secret (v : evalue) : list bytes := if is_secret v then [to_string v] else [].

Fixpoint all_secrets (v : evalue) : list bytes :=
  own_secret v ++
  match v with
  | VArr _ l => flat_map all_secrets l
  | VObj _ l => flat_map (fun kv => match kv with (_, x) => all_secrets x end) l
  | _ => []
  end.

(* ---- argument interpolation: an argument is a sequence of literal text and ${path} references ---- *)
Inductive part := PText (t : bytes) | PRef (path : list pelem).

Definition part_text (root : evalue) (p : part) : bytes :=
  match p with
  | PText t => t
  | PRef path => match get_path root path with Some v => to_string v | None => [] end
  end.

Definition part_secrets (deep : bool) (root : evalue) (p : part) : list bytes :=
  match p with
  | PText _ => []
  | PRef path => match get_path root path with
                 | Some v => if deep then all_secrets v else own_secret v
                 | None => []
                 end
  end.

Definition arg_text (root : evalue) (a : list part) : bytes := concat (map (part_text root) a).

Definition cmd_args (root : evalue) (args : list (list part)) : list bytes := map (arg_text root) args.

(* secrets as RunE collects them: variables, files (PrepareEnvironment), then the interpolated arguments *)
Definition cmd_secrets (deep : bool) (root : evalue) (args : list (list part)) : list bytes :=
  projection_secrets root (chars "environmentVariables")
  ++ projection_secrets root (chars "files")
  ++ flat_map (fun a => flat_map (part_secrets deep root) a) args.

(* the scripted command of the correspondence: it prints its arguments separated by spaces, a newline, then a script *)
Definition cmd_stream (args_out : list bytes) (script : bytes) : bytes :=
  join (chars " ") args_out ++ [nl] ++ script.

(* what reaches esc's own stdout (however the command chunks its writes: C13_chunking_irrelevant) *)
Definition cmd_out (P : rparams) (deep : bool) (root : evalue) (args : list (list part)) (script : bytes) : bytes :=
  run P (cmd_secrets deep root args) [cmd_stream (cmd_args root args) script].

(* ---- how the command ends.  RunE puts the two redactors in front of esc's stdout and stderr, runs the command and
        closes both redactors when it returns (deferred), whatever exec.Run reports: exit status 0, a non-zero exit
        status / any other error after the command has written its output, or a failure to start it at all (nothing
        written).  What esc forwards is therefore the redaction of everything the command wrote to each stream, and esc
        itself fails exactly when running the command failed. ---- *)
Inductive child_end := ChildExit0 | ChildFails | ChildNoStart.

Definition child_wrote (e : child_end) (stream : bytes) : bytes :=
  match e with ChildNoStart => [] | _ => stream end.

Definition child_failed (e : child_end) : bool := match e with ChildExit0 => false | _ => true end.

(* the scripted command of the correspondence writes [cmd_stream args script] to one stream and [script2] to the other:
   (forwarded on the first stream, forwarded on the second stream, esc reports an error) *)
Definition cmd_run (P : rparams) (deep : bool) (root : evalue) (args : list (list part)) (e : child_end)
    (script script2 : bytes) : bytes * bytes * bool :=
  let secrets := cmd_secrets deep root args in
  (run P secrets [child_wrote e (cmd_stream (cmd_args root args) script)],
   run P secrets [child_wrote e script2],
   child_failed e).

(* ---- the same command, seen as the Write/Close state machine it is: the child makes ANY sequence of Write calls on
        each stream ([ch1], [ch2]; the two redactors are independent, so the interleaving of the two sequences does not
        matter), then RunE returns.  The redactors are closed by deferred calls, i.e. on every path; [close_always] is
        that fact as read from the source (false: Close is reached only when exec.Run reported no error - the shape of
        the seeded defect C13-d).  Per stream: (bytes forwarded, bytes still in the line buffer when RunE has returned). ---- *)
Definition stream_forwarded (ph : bytes) (pats : list bytes) (closed : bool) (chunks : list bytes) : bytes * bytes :=
  let (o, l) := write_all ph pats [] chunks in
  if closed then let (o', l') := close ph pats l in (o ++ o', l') else (o, l).

Definition closes (close_always : bool) (e : child_end) : bool := close_always || negb (child_failed e).

Definition child_chunks (e : child_end) (chunks : list bytes) : list bytes :=
  match e with ChildNoStart => [] | _ => chunks end.

Definition cmd_run_sm (P : rparams) (deep close_always : bool) (root : evalue) (args : list (list part)) (e : child_end)
    (ch1 ch2 : list bytes) : (bytes * bytes) * (bytes * bytes) * bool :=
  let pats := new_replacer P (cmd_secrets deep root args) in
  (stream_forwarded (rp_placeholder P) pats (closes close_always e) (child_chunks e ch1),
   stream_forwarded (rp_placeholder P) pats (closes close_always e) (child_chunks e ch2),
   child_failed e).

(* ---- specification vocabulary: [n] is [v] or a value nested in [v] ---- *)
Inductive subvalue (n : evalue) : evalue -> Prop :=
| sv_refl : subvalue n n
| sv_arr : forall sec l x, In x l -> subvalue n x -> subvalue n (VArr sec l)
| sv_obj : forall sec l k x, In (k, x) l -> subvalue n x -> subvalue n (VObj sec l).
