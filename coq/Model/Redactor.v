(* Model/Redactor.v — the output filter of `esc run` (cmd/esc/cli/env_run.go): newReplacer, replacer.redact,
   redactor.Write / redactor.Close, and the Aho-Corasick library calls they rely on, modelled by their match
   semantics (github.com/petar-dambovaliev/aho-corasick, MatchKind StandardMatch).
   Definitions only (total, executable); lemmas live in Proofs/Redactor*.v.

   Byte strings are [list ascii] here (the proofs are list proofs); positions and lengths inside one line are [nat]. *)
From Verif Require Import Base.Bytes.
From Coq Require Import Arith.
Local Open Scope nat_scope.

Notation bytes := (list ascii).

Definition nl : ascii := ascii_of_N 10.

Definition is_nl (c : ascii) : bool := Ascii.eqb c nl.

Fixpoint is_prefix (p s : bytes) : bool :=
  match p, s with
  | [], _ => true
  | a :: p', b :: s' => Ascii.eqb a b && is_prefix p' s'
  | _ :: _, [] => false
  end.

Fixpoint bytes_eqb (a b : bytes) : bool :=
  match a, b with
  | [], [] => true
  | x :: a', y :: b' => Ascii.eqb x y && bytes_eqb a' b'
  | _, _ => false
  end.

(* does [p] occur in [s] as a contiguous substring? *)
Fixpoint contains (p s : bytes) : bool :=
  is_prefix p s || match s with [] => false | _ :: r => contains p r end.

(* the same as a proposition *)
Definition occurs (p s : bytes) : Prop := exists a b, s = a ++ p ++ b.

(* parameters read from the Go source by srcfacts: `len(s) >= 3` in newReplacer, the "[secret]" placeholder *)
Record rparams := { rp_min_len : nat; rp_placeholder : bytes }.

(* ============================================================================================
   newReplacer: keep the secrets of at least rp_min_len bytes, in order (duplicates kept)
   ============================================================================================ *)
Definition new_replacer (P : rparams) (secrets : list bytes) : list bytes :=
  filter (fun s => rp_min_len P <=? length s) secrets.

(* ============================================================================================
   The library, by its match semantics.  A match is (start, length); patterns are non-empty
   (esc never builds the automaton with a pattern shorter than rp_min_len; empty patterns are ignored here).
   ============================================================================================ *)
Record amatch := { m_start : nat; m_len : nat }.

Definition m_end (m : amatch) : nat := m_start m + m_len m.

(* pattern [p] occupies text[e-|p| .. e) *)
Definition ends_at (p t : bytes) (e : nat) : bool :=
  negb (length p =? 0) && (length p <=? e) && is_prefix p (skipn (e - length p) t).

(* insertion of a match into a list ordered by decreasing length, after the entries of the same length
   (the automaton lists a state's own pattern(s) first, in pattern order, then those of its suffix states) *)
Fixpoint insert_by_len (m : amatch) (l : list amatch) : list amatch :=
  match l with
  | [] => [m]
  | x :: r => if m_len x <? m_len m then m :: l else x :: insert_by_len m r
  end.

(* all patterns ending at [e] whose start is at or after [pos], longest first *)
Fixpoint matches_ending (pats : list bytes) (t : bytes) (pos e : nat) : list amatch :=
  match pats with
  | [] => []
  | p :: r =>
      let rest := matches_ending r t pos e in
      if ends_at p t e && (pos + length p <=? e)
      then insert_by_len {| m_start := e - length p; m_len := length p |} rest
      else rest
  end.

(* AhoCorasick.IterOverlapping: every occurrence of every pattern, by increasing end, longest first *)
Fixpoint occs_from (pats : list bytes) (t : bytes) (e k : nat) : list amatch :=
  match k with
  | O => []
  | S k' => matches_ending pats t 0 e ++ occs_from pats t (S e) k'
  end.

Definition lib_overlapping (pats : list bytes) (t : bytes) : list amatch := occs_from pats t 1 (length t).

(* findIter.Next from position [pos]: the automaton is restarted at [pos] and stops at the first match state, i.e. at
   the earliest end of an occurrence that starts at or after [pos]; it reports the first (longest) pattern of that
   state.  [k] counts the end positions still to be tried. *)
Fixpoint scan_ends (pats : list bytes) (t : bytes) (pos e k : nat) : option amatch :=
  match k with
  | O => None
  | S k' =>
      match matches_ending pats t pos e with
      | m :: _ => Some m
      | [] => scan_ends pats t pos (S e) k'
      end
  end.

Definition find_at (pats : list bytes) (t : bytes) (pos : nat) : option amatch :=
  scan_ends pats t pos (S pos) (length t - pos).

(* AhoCorasick.FindAll: iterate find_at, the next search starts one byte after the START of the last match.
   A text of n bytes has at most n matches (their starts increase strictly), so the counter S n is never exhausted. *)
Fixpoint find_all_from (pats : list bytes) (t : bytes) (pos k : nat) : list amatch :=
  match k with
  | O => []
  | S k' =>
      match find_at pats t pos with
      | None => []
      | Some m => m :: find_all_from pats t (S (m_start m)) k'
      end
  end.

Definition lib_find_all (pats : list bytes) (t : bytes) : list amatch :=
  find_all_from pats t 0 (S (length t)).

Inductive result := Out (b : bytes) | Panic.

(* Replacer.ReplaceAllFunc with a callback that always answers (ph, true):
     start := 0; for each match { out += t[start:match.Start()]; out += ph; start = match.Start()+match.len }
     out += t[start:]
   the slice expression t[start:match.Start()] panics when start > match.Start(). *)
Fixpoint replace_loop (ph t : bytes) (ms : list amatch) (start : nat) : result :=
  match ms with
  | [] => Out (skipn start t)
  | m :: r =>
      if m_start m <? start then Panic
      else match replace_loop ph t r (m_end m) with
           | Out o => Out (firstn (m_start m - start) (skipn start t) ++ ph ++ o)
           | Panic => Panic
           end
  end.

Definition lib_replace_all (ph : bytes) (pats : list bytes) (t : bytes) : result :=
  replace_loop ph t (lib_find_all pats t) 0.

(* ============================================================================================
   replacer.redact (esc's own replacement loop over IterOverlapping)
     covered[i] = byte i lies inside some occurrence;  joined[i] = bytes i-1 and i lie inside the same occurrence;
     byte i is forwarded if not covered; the placeholder is written where a covered run starts
     (i == 0 || !covered[i-1] || !joined[i]).
   ============================================================================================ *)
Definition covers (i : nat) (m : amatch) : bool := (m_start m <=? i) && (i <? m_end m).
Definition joins (i : nat) (m : amatch) : bool := (m_start m <? i) && (i <? m_end m).

(* the two boolean arrays, as the marking loops over the reported matches fill them *)
Fixpoint mark_from (ms : list amatch) (i k : nat) : list (bool * bool) :=
  match k with
  | O => []
  | S k' => (existsb (covers i) ms, existsb (joins i) ms) :: mark_from ms (S i) k'
  end.

Definition marks (pats : list bytes) (t : bytes) : list (bool * bool) :=
  mark_from (lib_overlapping pats t) 0 (length t).

(* the output loop *)
Fixpoint emit (ph : bytes) (prev : bool) (t : bytes) (fl : list (bool * bool)) : bytes :=
  match t, fl with
  | c :: t', (cov, jn) :: fl' =>
      (if cov then (if prev && jn then [] else ph) else [c]) ++ emit ph cov t' fl'
  | _, _ => []
  end.

(* redact exactly as coded: collect the matches, mark, emit *)
Definition redact_marks (ph : bytes) (pats : list bytes) (t : bytes) : bytes := emit ph false t (marks pats t).

(* The same two arrays computed in one left-to-right pass (this is the definition the proofs use; Proofs/RedactorMarks.v
   shows it equal to [marks]): [longest pats s] is the length of the longest pattern that is a prefix of the rest of the
   text, [rem] the number of bytes from here on that are still inside an occurrence that started earlier. *)
Fixpoint longest (pats : list bytes) (s : bytes) : nat :=
  match pats with
  | [] => 0
  | p :: r => if is_prefix p s then Nat.max (length p) (longest r s) else longest r s
  end.

Fixpoint flags (pats : list bytes) (rem : nat) (s : bytes) : list (bool * bool) :=
  match s with
  | [] => []
  | _ :: t =>
      let r := Nat.max rem (longest pats s) in
      (0 <? r, 0 <? rem) :: flags pats (pred r) t
  end.

Definition redact (ph : bytes) (pats : list bytes) (t : bytes) : bytes := emit ph false t (flags pats 0 t).

(* the code before the repair: redact = ReplaceAllFunc of the library *)
Definition redact_unrepaired (ph : bytes) (pats : list bytes) (t : bytes) : result := lib_replace_all ph pats t.

(* ============================================================================================
   redactor.Write / redactor.Close.  State: the line buffer (bytes received since the last newline).
   The underlying writer is assumed not to fail (bytes.Buffer in the correspondence, a pipe/terminal in esc).
     Write(b): loop { i := IndexByte(b,'\n'); if i < 0 { line += b; return }
                      line += b[:i+1]; w.Write(redact(line)); line = ""; b = b[i+1:] }
   written here as one pass over b that moves bytes into the line buffer and flushes at each newline.
   ============================================================================================ *)
Fixpoint write (ph : bytes) (pats : list bytes) (line b : bytes) : bytes * bytes :=
  match b with
  | [] => ([], line)
  | c :: t =>
      if is_nl c
      then let (o, l) := write ph pats [] t in (redact ph pats (line ++ [c]) ++ o, l)
      else write ph pats (line ++ [c]) t
  end.

(* Close: if the buffer is non-empty, redact and forward it; the buffer is reset *)
Definition close (ph : bytes) (pats : list bytes) (line : bytes) : bytes * bytes :=
  match line with
  | [] => ([], [])
  | _ => (redact ph pats line, [])
  end.

(* a sequence of Write calls followed by Close: (everything that reached the underlying writer, final buffer) *)
Fixpoint run_chunks (ph : bytes) (pats : list bytes) (line : bytes) (chunks : list bytes) : bytes * bytes :=
  match chunks with
  | [] => close ph pats line
  | b :: r =>
      let (o, l) := write ph pats line b in
      let (o', l') := run_chunks ph pats l r in (o ++ o', l')
  end.

Definition run (P : rparams) (secrets : list bytes) (chunks : list bytes) : bytes :=
  fst (run_chunks (rp_placeholder P) (new_replacer P secrets) [] chunks).

(* ---- the same state machine over the unrepaired replacement (for the record of the defect) ---- *)
Fixpoint write_unrepaired (ph : bytes) (pats : list bytes) (line b : bytes) : result * bytes :=
  match b with
  | [] => (Out [], line)
  | c :: t =>
      if is_nl c
      then match redact_unrepaired ph pats (line ++ [c]) with
           | Panic => (Panic, line ++ [c])
           | Out x => match write_unrepaired ph pats [] t with
                      | (Out o, l) => (Out (x ++ o), l)
                      | (Panic, l) => (Panic, l)
                      end
           end
      else write_unrepaired ph pats (line ++ [c]) t
  end.

Fixpoint run_chunks_unrepaired (ph : bytes) (pats : list bytes) (line : bytes) (chunks : list bytes) : result :=
  match chunks with
  | [] => match line with [] => Out [] | _ => redact_unrepaired ph pats line end
  | b :: r =>
      match write_unrepaired ph pats line b with
      | (Panic, _) => Panic
      | (Out o, l) => match run_chunks_unrepaired ph pats l r with Out o' => Out (o ++ o') | Panic => Panic end
      end
  end.

Definition run_unrepaired (P : rparams) (secrets : list bytes) (chunks : list bytes) : result :=
  run_chunks_unrepaired (rp_placeholder P) (new_replacer P secrets) [] chunks.

(* ============================================================================================
   Specification vocabulary
   ============================================================================================ *)
(* canonical decomposition of a stream into complete lines (each ending in its newline) and an unterminated rest *)
Fixpoint lines_acc (cur s : bytes) : list bytes * bytes :=
  match s with
  | [] => ([], cur)
  | c :: t =>
      if is_nl c
      then let (ls, r) := lines_acc [] t in ((cur ++ [c]) :: ls, r)
      else lines_acc (cur ++ [c]) t
  end.

Definition split_lines (s : bytes) : list bytes * bytes := lines_acc [] s.

(* covered/joined flags of a whole stream: those of its lines, one after the other *)
Definition stream_flags (pats : list bytes) (s : bytes) : list (bool * bool) :=
  let (ls, r) := split_lines s in concat (map (flags pats 0) ls) ++ flags pats 0 r.

(* a secret the line-buffered filter can see at all: no newline except possibly as its last byte *)
Definition has_inner_newline (p : bytes) : bool := existsb is_nl (removelast p).

(* a secret whose occurrences in the output cannot be made up of placeholder text: it contains neither the first
   nor the last byte of the placeholder and is not a piece of the placeholder *)
Definition mem_byte (c : ascii) (s : bytes) : bool := existsb (Ascii.eqb c) s.

Definition indep (ph p : bytes) : bool :=
  match ph with
  | [] => false
  | h :: _ => negb (mem_byte h p) && negb (mem_byte (last ph h) p) && negb (contains p ph)
  end.

(* ============================================================================================
   Which secrets CAN be confused with placeholder text (exact form; [indep] above is the older, coarser
   sufficient condition and is kept only to show that the new class is contained in the old one).
   The output is made of bytes forwarded literally and of whole copies of the placeholder, so an occurrence of [p]
   in the output that is not a literal occurrence has to share a byte with a copy of the placeholder; that is possible
   only if  p lies inside the placeholder,  the placeholder lies inside p,  a non-empty end of p is a beginning of the
   placeholder,  or  a non-empty end of the placeholder is a beginning of p.
   ============================================================================================ *)
(* some non-empty suffix of [a] is a prefix of [b] *)
Fixpoint overlap (a b : bytes) : bool :=
  match a with
  | [] => false
  | _ :: a' => is_prefix a b || overlap a' b
  end.

Definition ph_clash (ph p : bytes) : bool :=
  contains p ph || contains ph p || overlap p ph || overlap ph p.

(* no proper non-empty prefix of the placeholder is also a suffix of it: its occurrences in a text never overlap *)
Definition border_free (ph : bytes) : bool :=
  match ph with [] => false | _ :: t => negb (overlap t ph) end.

(* ============================================================================================
   Write calls without the final Close (what has been forwarded, what is still buffered)
   ============================================================================================ *)
Fixpoint write_all (ph : bytes) (pats : list bytes) (line : bytes) (chunks : list bytes) : bytes * bytes :=
  match chunks with
  | [] => ([], line)
  | b :: r =>
      let (o, l) := write ph pats line b in
      let (o', l') := write_all ph pats l r in (o ++ o', l')
  end.

(* ============================================================================================
   A linear-time twin of [run] for the correspondence on long lines ([write] and [lines_acc] append to the END of the
   line buffer, which is quadratic in the line length): the line buffer is kept reversed.
   Proofs/RedactorFast.v: run_fast = run, for all inputs.
   ============================================================================================ *)
Fixpoint lines_rev (cur_rev s : bytes) : list bytes * bytes :=
  match s with
  | [] => ([], rev_append cur_rev [])
  | c :: t =>
      if is_nl c
      then let (ls, r) := lines_rev [] t in (rev_append cur_rev [c] :: ls, r)
      else lines_rev (c :: cur_rev) t
  end.

Definition run_fast (P : rparams) (secrets : list bytes) (chunks : list bytes) : bytes :=
  let pats := new_replacer P secrets in
  let (ls, r) := lines_rev [] (concat chunks) in
  concat (map (redact (rp_placeholder P) pats) ls) ++ redact (rp_placeholder P) pats r.
