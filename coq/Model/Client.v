(* Model/Client.v — cmd/esc/cli/client/client.go + retry.go (+ the pulumi httputil/retry loop and the parts of
   net/url and net/http.Transport that decide what reaches the wire).  Executable definitions only.

   operation (a row of Src.SrcClient.client_ops, regenerated from the Go source on every run)
     -> request  : method, path (fmt.Sprintf template instantiation, resolveEnvironmentPath, suffixes),
                   query (go-querystring + url.Values.Encode), cleanPath, url.Parse/RequestURI,
                   Authorization and etagHeader request headers, string leaves of the JSON body
     -> attempts : doWithRetry / httputil.DoWithRetryOpts / retry.Until against a scripted server
     -> result   : httpCall status handling, decodeError, the per-method diagnostics rule. *)
From Verif Require Export Base.Bytes Src.SrcClient.

(* ------------------------------------------------------------------------------------------------ *)
(* characters and small string functions *)
Definition c_slash : ascii := "/"%char.
Definition c_pct : ascii := "%"%char.
Definition c_qm : ascii := "?"%char.
Definition c_hash : ascii := "#"%char.

Definition is_alnum (c : ascii) : bool :=
  let n := N_of_ascii c in
  ((48 <=? n) && (n <=? 57)) || ((65 <=? n) && (n <=? 90)) || ((97 <=? n) && (n <=? 122)).

Definition is_hex (c : ascii) : bool :=
  let n := N_of_ascii c in
  ((48 <=? n) && (n <=? 57)) || ((65 <=? n) && (n <=? 70)) || ((97 <=? n) && (n <=? 102)).

Definition is_digit (c : ascii) : bool :=
  let n := N_of_ascii c in (48 <=? n) && (n <=? 57).

Fixpoint mem_char (c : ascii) (s : string) : bool :=
  match s with EmptyString => false | String x r => Ascii.eqb c x || mem_char c r end.

Fixpoint all_chars (p : ascii -> bool) (s : string) : bool :=
  match s with EmptyString => true | String x r => p x && all_chars p r end.

Fixpoint last_char (s : string) : option ascii :=
  match s with
  | EmptyString => None
  | String x r => match last_char r with Some l => Some l | None => Some x end
  end.

Fixpoint join (sep : string) (l : list string) : string :=
  match l with
  | [] => ""
  | [x] => x
  | x :: r => x +++ sep +++ join sep r
  end.

(* strings.Split(s, c) for a one-character separator: never the empty list *)
Fixpoint split_on (c : ascii) (s : string) : list string :=
  match s with
  | EmptyString => [""]
  | String x r =>
      if Ascii.eqb x c then "" :: split_on c r
      else match split_on c r with
           | h :: t => String x h :: t
           | [] => [String x ""]
           end
  end.

(* strings.Cut(s, c): (before, after, found) *)
Fixpoint cut_on (c : ascii) (s : string) : string * string * bool :=
  match s with
  | EmptyString => ("", "", false)
  | String x r =>
      if Ascii.eqb x c then ("", r, true)
      else let '(b, a, f) := cut_on c r in (String x b, a, f)
  end.

Definition upper_hex (n : N) : ascii := ascii_of_N (if n <? 10 then 48 + n else 55 + n).

Definition pct_encode (c : ascii) (rest : string) : string :=
  let n := N_of_ascii c in String c_pct (String (upper_hex (n / 16)) (String (upper_hex (n mod 16)) rest)).

(* decimal printing (strconv.Itoa) *)
Fixpoint N_dec_fuel (fuel : nat) (n : N) (acc : string) : string :=
  match fuel with
  | O => acc
  | S f => let acc' := String (ascii_of_N (48 + n mod 10)) acc in
           if n / 10 =? 0 then acc' else N_dec_fuel f (n / 10) acc'
  end.
Definition N_dec (n : N) : string := N_dec_fuel (S (N.to_nat (N.log2 n))) n "".
Definition Z_dec (z : Z) : string :=
  if (z <? 0)%Z then String "-"%char (N_dec (Z.to_N (Z.opp z))) else N_dec (Z.to_N z).

(* time.Duration.String() for whole seconds *)
Definition duration_string (secs : Z) : string :=
  let neg := (secs <? 0)%Z in
  let n := Z.to_N (Z.abs secs) in
  let h := n / 3600 in let m := (n / 60) mod 60 in let s := n mod 60 in
  let body :=
    if n =? 0 then "0s"
    else if n <? 60 then N_dec s +++ "s"
    else if n <? 3600 then N_dec m +++ "m" +++ N_dec s +++ "s"
    else N_dec h +++ "h" +++ N_dec m +++ "m" +++ N_dec s +++ "s" in
  if neg then String "-"%char body else body.

(* ------------------------------------------------------------------------------------------------ *)
(* fmt.Sprintf for the verbs the client uses on string arguments: %v and %s substitute the next argument,
   %% is a percent sign.  A missing argument prints as Go does; other verbs are kept verbatim (none occurs:
   side condition [op_shape_ok]). *)
Fixpoint sprintf (t : string) (args : list string) : string :=
  match t with
  | EmptyString => ""
  | String c r =>
      if Ascii.eqb c c_pct then
        match r with
        | String v r' =>
            if Ascii.eqb v "v"%char || Ascii.eqb v "s"%char then
              match args with
              | a :: args' => a +++ sprintf r' args'
              | [] => "%!" +++ String v ("(MISSING)" +++ sprintf r' [])
              end
            else if Ascii.eqb v c_pct then String c_pct (sprintf r' args)
            else String c (String v (sprintf r' args))
        | EmptyString => "%!(NOVERB)"
        end
      else String c (sprintf r args)
  end.

(* segment view of a template: "/lit/%v/lit" *)
Inductive seg := SLit (s : string) | SHole (verb : ascii).

Definition seg_of (s : string) : option seg :=
  match s with
  | String p (String v EmptyString) =>
      if Ascii.eqb p c_pct then
        if Ascii.eqb v "v"%char || Ascii.eqb v "s"%char then Some (SHole v) else None
      else if mem_char c_pct s then None else Some (SLit s)
  | _ => if mem_char c_pct s then None else Some (SLit s)
  end.

Fixpoint map_opt_seg (l : list string) : option (list seg) :=
  match l with
  | [] => Some []
  | x :: r => match seg_of x, map_opt_seg r with Some s, Some t => Some (s :: t) | _, _ => None end
  end.

(* a rooted template: "/" seg "/" seg ... ; "" is the empty template *)
Definition parse_template (t : string) : option (list seg) :=
  match t with
  | EmptyString => Some []
  | String c r => if Ascii.eqb c c_slash then map_opt_seg (split_on c_slash r) else None
  end.

Definition seg_text (s : seg) : string :=
  match s with SLit l => l | SHole v => String c_pct (String v "") end.

Fixpoint render (l : list string) : string :=
  match l with [] => "" | x :: r => String c_slash (x +++ render r) end.

Definition render_tpl (l : list seg) : string := render (map seg_text l).

Fixpoint fill (l : list seg) (args : list string) : list string :=
  match l with
  | [] => []
  | SLit s :: r => s :: fill r args
  | SHole _ :: r => match args with a :: args' => a :: fill r args' | [] => "%!v(MISSING)" :: fill r [] end
  end.

Fixpoint holes (l : list seg) : nat :=
  match l with [] => 0%nat | SLit _ :: r => holes r | SHole _ :: r => S (holes r) end.

(* ------------------------------------------------------------------------------------------------ *)
(* path construction *)
Definition hole_value (a : list string) (h : hole_src) : string :=
  match h with HParam i => nth i a "" | HConst s => s end.

Definition hole_values (f : op_fact) (a : list string) : list string := map (hole_value a) (of_holes f).

(* GetRevisionNumber: an empty version means the tag "latest" (hand-modelled control flow) *)
Definition effective_args (f : op_fact) (a : list string) : list string :=
  if String.eqb (of_name f) "GetRevisionNumber" then
    match a with
    | o :: p :: e :: v :: r => o :: p :: e :: (if String.eqb v "" then "latest" else v) :: r
    | _ => a
    end
  else a.

Definition base_path (f : op_fact) (vals : list string) : string :=
  if of_resolve f then
    match vals with
    | [o; p; e; v] =>
        if String.eqb v "" then sprintf resolve_template_noversion [o; p; e]
        else sprintf resolve_template_version [o; p; e; v]
    | _ => ""
    end
  else sprintf (of_template f) vals.

Definition op_path (f : op_fact) (a : list string) (flag : bool) : string :=
  base_path f (hole_values f a) +++ of_suffix f +++ (if flag then of_flag_suffix f else "").

(* ------------------------------------------------------------------------------------------------ *)
(* query string: go-querystring Values (struct order, omitempty) then url.Values.Encode (sorted by key) *)
Definition query_unreserved (c : ascii) : bool :=
  is_alnum c || mem_char c "-_.~".

Fixpoint query_escape (s : string) : string :=
  match s with
  | EmptyString => ""
  | String c r =>
      if query_unreserved c then String c (query_escape r)
      else if Ascii.eqb c " "%char then String "+"%char (query_escape r)
      else pct_encode c (query_escape r)
  end.

Fixpoint insert_kv (kv : string * string) (l : list (string * string)) : list (string * string) :=
  match l with
  | [] => [kv]
  | x :: r => if String.leb (fst kv) (fst x) then kv :: l else x :: insert_kv kv r
  end.

Definition sort_kv (l : list (string * string)) : list (string * string) :=
  fold_right insert_kv [] l.

Fixpoint query_pairs (keys : list (string * bool)) (vals : list string) : list (string * string) :=
  match keys, vals with
  | (k, omit) :: ks, v :: vs =>
      if omit && String.eqb v "" then query_pairs ks vs else (k, v) :: query_pairs ks vs
  | _, _ => []
  end.

Definition query_string (keys : list (string * bool)) (vals : list string) : string :=
  match sort_kv (query_pairs keys vals) with
  | [] => ""
  | l => String c_qm (join "&" (map (fun kv => query_escape (fst kv) +++ "=" +++ query_escape (snd kv)) l))
  end.

Definition opt_int (x : option Z) : string := match x with Some z => Z_dec z | None => "" end.
Definition bool_of (x : option Z) : bool := match x with Some z => negb (z =? 0)%Z | None => false end.
Definition bool_string (b : bool) : string := if b then "true" else "false".
Definition nth_s (i : nat) (a : list string) : string := nth i a "".
Definition nth_n (i : nat) (n : list (option Z)) : option Z := nth i n None.

(* the values of the query object, in struct-field order; [a] = string parameters of the method followed by the
   string fields of option structs, [n] = the numeric/boolean/pointer arguments (hand-modelled per method) *)
Definition query_values (f : op_fact) (a : list string) (n : list (option Z)) : list string :=
  let nm := of_name f in
  if String.eqb nm "ListEnvironments" then [nth_s 1 a; nth_s 0 a]
  else if String.eqb nm "OpenEnvironment" || String.eqb nm "OpenYAMLEnvironment" then
    [duration_string (match nth_n 0 n with Some z => z | None => 0%Z end)]
  else if String.eqb nm "CheckYAMLEnvironment" then [bool_string (bool_of (nth_n 0 n))]
  else if String.eqb nm "GetOpenProperty" then [nth_s 4 a]
  else if String.eqb nm "GetAnonymousOpenProperty" then [nth_s 2 a]
  else if String.eqb nm "ListEnvironmentTags" || String.eqb nm "ListEnvironmentRevisionTags" then
    [nth_s 3 a; opt_int (nth_n 0 n)]
  else if String.eqb nm "GetEnvironmentRevision" then
    [Z_dec ((match nth_n 0 n with Some z => z | None => 0%Z end) + 1)%Z; "1"]
  else if String.eqb nm "ListEnvironmentRevisions" then [opt_int (nth_n 0 n); opt_int (nth_n 1 n)]
  else [].

(* ------------------------------------------------------------------------------------------------ *)
(* cleanPath: path.Clean of a rooted path plus the trailing-slash rule *)
Fixpoint clean_segs (l : list string) (stack : list string) : list string :=
  match l with
  | [] => rev stack
  | s :: r =>
      if String.eqb s "" || String.eqb s "." then clean_segs r stack
      else if String.eqb s ".." then clean_segs r (tl stack)
      else clean_segs r (s :: stack)
  end.

Definition path_clean_rooted (p : string) : string :=
  match clean_segs (split_on c_slash p) [] with
  | [] => "/"
  | l => render l
  end.

Definition clean_path (p : string) : string :=
  match p with
  | EmptyString => "/"
  | String c _ =>
      let p' := if Ascii.eqb c c_slash then p else String c_slash p in
      let np := path_clean_rooted p' in
      match last_char p' with
      | Some l => if Ascii.eqb l c_slash && negb (String.eqb np "/") then np +++ "/" else np
      | None => np
      end
  end.

(* ------------------------------------------------------------------------------------------------ *)
(* net/url: Parse of "http://host" ++ target, then URL.RequestURI() — what http.NewRequest + Transport put on
   the request line.  None = http.NewRequest fails. *)
Definition is_ctl (c : ascii) : bool := let n := N_of_ascii c in (n <? 32) || (n =? 127).

(* shouldEscape(c, encodePath) *)
Definition should_escape_path (c : ascii) : bool :=
  negb (is_alnum c || mem_char c "-_.~$&+,/:;=@").

(* validEncoded(s, encodePath) *)
Definition valid_encoded_char (c : ascii) : bool :=
  mem_char c "!$&'()*+,;=:@[]%" || negb (should_escape_path c).

Fixpoint unescape (s : string) : option string :=
  match s with
  | EmptyString => Some ""
  | String c r =>
      if Ascii.eqb c c_pct then
        match r with
        | String a (String b r') =>
            if is_hex a && is_hex b then
              match unescape r' with
              | Some t => Some (String (ascii_of_N (16 * hexval a + hexval b)) t)
              | None => None
              end
            else None
        | _ => None
        end
      else match unescape r with Some t => Some (String c t) | None => None end
  end.

Fixpoint escape_path (s : string) : string :=
  match s with
  | EmptyString => ""
  | String c r => if should_escape_path c then pct_encode c (escape_path r) else String c (escape_path r)
  end.

Definition escaped_path (p : string) : option string :=
  match unescape p with
  | None => None
  | Some d =>
      let e := escape_path d in
      if String.eqb p e || all_chars valid_encoded_char p then Some p else Some e
  end.

Definition wire_target (t : string) : option string :=
  let '(u, frag, _) := cut_on c_hash t in
  if negb (all_chars (fun c => negb (is_ctl c)) u) then None
  else match unescape frag with
  | None => None
  | Some _ =>
      let '(p, q, hasq) := cut_on c_qm u in
      match escaped_path p with
      | None => None
      | Some ep => Some (ep +++ (if hasq then String c_qm q else ""))
      end
  end.

(* ------------------------------------------------------------------------------------------------ *)
(* requests *)
Record request := mk_req {
  rq_method : string; rq_target : string; rq_auth : string; rq_etag : string; rq_ifmatch : string;
  rq_body : list (string * string) }.

Definition ascii_lower (c : ascii) : ascii :=
  let n := N_of_ascii c in if (65 <=? n) && (n <=? 90) then ascii_of_N (n + 32) else c.
Fixpoint str_lower (s : string) : string :=
  match s with EmptyString => "" | String c r => String (ascii_lower c) (str_lower r) end.
Definition header_is (name h : string) : bool := String.eqb (str_lower name) (str_lower h).

Definition auth_value (token : string) : string :=
  if String.eqb token "" then "" else sprintf auth_format [token].

Definition tag_value (f : op_fact) (a : list string) : string :=
  match of_tag_param f with Some i => nth_s i a | None => "" end.

(* leaves of the JSON request body, sorted by dotted key (hand-modelled per method): the string leaves, and the
   number / boolean leaves (decimal, "true") that name a revision or select a behaviour.  Pointer and omitempty
   fields are absent when nil / zero. *)
Definition opt_leaf (k : string) (x : option Z) : list (string * string) :=
  match x with Some z => [(k, Z_dec z)] | None => [] end.

Definition body_fields (f : op_fact) (a : list string) (n : list (option Z)) : list (string * string) :=
  let nm := of_name f in
  if String.eqb nm "CreateEnvironment" then [("name", nth_s 1 a); ("project", default_project)]
  else if String.eqb nm "CreateEnvironmentWithProject" then [("name", nth_s 2 a); ("project", nth_s 1 a)]
  else if String.eqb nm "CloneEnvironment" then
    ("name", nth_s 4 a) :: (if bool_of (nth_n 0 n) then [("preserveHistory", "true")] else [])
    ++ (if String.eqb (nth_s 3 a) "" then [] else [("project", nth_s 3 a)])
  else if String.eqb nm "CreateEnvironmentTag" then [("name", nth_s 3 a); ("value", nth_s 4 a)]
  else if String.eqb nm "UpdateEnvironmentTag" then
    [("currentTag.name", ""); ("currentTag.value", nth_s 4 a); ("newTag.name", nth_s 5 a); ("newTag.value", nth_s 6 a)]
  else if String.eqb nm "RetractEnvironmentRevision" then
    (if String.eqb (nth_s 4 a) "" then [] else [("reason", nth_s 4 a)]) ++ opt_leaf "replacement" (nth_n 0 n)
  else if String.eqb nm "CreateEnvironmentRevisionTag" then ("name", nth_s 3 a) :: opt_leaf "revision" (nth_n 0 n)
  else if String.eqb nm "UpdateEnvironmentRevisionTag" then opt_leaf "revision" (nth_n 0 n)
  else [].

(* the string parameters and the numeric arguments a body carries (proof view: [body_fields] determines them) *)
Definition body_params (f : op_fact) : list nat :=
  let nm := of_name f in
  if String.eqb nm "CreateEnvironment" then [1%nat]
  else if String.eqb nm "CreateEnvironmentWithProject" then [1; 2]%nat
  else if String.eqb nm "CloneEnvironment" then [3; 4]%nat
  else if String.eqb nm "CreateEnvironmentTag" then [3; 4]%nat
  else if String.eqb nm "UpdateEnvironmentTag" then [4; 5; 6]%nat
  else if String.eqb nm "RetractEnvironmentRevision" then [4%nat]
  else if String.eqb nm "CreateEnvironmentRevisionTag" then [3%nat]
  else [].

(* what the body says about the first numeric argument: absent, or its decimal / boolean rendering *)
Definition body_num (f : op_fact) (n : list (option Z)) : option string :=
  let nm := of_name f in
  if String.eqb nm "CloneEnvironment" then (if bool_of (nth_n 0 n) then Some "true" else None)
  else if String.eqb nm "RetractEnvironmentRevision" || String.eqb nm "CreateEnvironmentRevisionTag"
          || String.eqb nm "UpdateEnvironmentRevisionTag" then
    match nth_n 0 n with Some z => Some (Z_dec z) | None => None end
  else None.

Definition flag_of (f : op_fact) (n : list (option Z)) : bool :=
  if String.eqb (of_flag_suffix f) "" then false else bool_of (nth_n 0 n).

(* path and query as restCallWithOptions hands them to httpCall *)
Definition raw_target (f : op_fact) (a : list string) (n : list (option Z)) : string :=
  op_path f (effective_args f a) (flag_of f n) +++ query_string (of_query f) (query_values f a n).

(* the string handed to http.NewRequest after the API URL *)
Definition request_target (f : op_fact) (a : list string) (n : list (option Z)) : string :=
  clean_path (raw_target f a n).

(* [reject_unclean_path] (extracted; false in the original source): httpCall refuses a path that cleanPath would
   change instead of sending the cleaned one *)
Definition build_request (f : op_fact) (token : string) (a : list string) (n : list (option Z)) : option request :=
  if reject_unclean_path && negb (String.eqb (request_target f a n) (raw_target f a n)) then None
  else
  match wire_target (request_target f a n) with
  | None => None
  | Some t =>
      let tag := tag_value f a in
      Some (mk_req (of_verb f) t (auth_value token)
                   (if header_is etag_header "ETag" then tag else "")
                   (if header_is etag_header "If-Match" then tag else "")
                   (body_fields f a n))
  end.

(* ------------------------------------------------------------------------------------------------ *)
(* scripted server and the retry state machine *)
Inductive rbody := BEmpty | BOk | BText | BJson (code : option N) (ndiag : nat).
Inductive reply := RpReset | RpResp (status : N) (b : rbody) (etag : string) (rev : option N).

Definition is_5xx (r : reply) : bool :=
  match r with RpResp s _ _ _ => (500 <=? s) && (s <=? 599) | RpReset => false end.

(* what makes httputil's Accept ask for another try *)
Definition failing (r : reply) : bool := match r with RpReset => true | _ => is_5xx r end.

(* the loop closes a 5xx body unread: net/http keeps the connection only if that body was empty *)
Definition leaves_reusable (r : reply) : bool :=
  match r with RpResp _ BEmpty _ _ => true | _ => false end.

(* net/http.Transport: a request that dies on a REUSED connection before any response byte is replayed once on
   a fresh connection if it is replayable (GET/HEAD/OPTIONS/TRACE with a rewindable body) *)
Definition replayable (verb : string) : bool :=
  String.eqb verb "GET" || String.eqb verb "HEAD" || String.eqb verb "OPTIONS" || String.eqb verb "TRACE".

(* one client.Do: the reply it returns and the index of the next server-side request *)
Definition do_once (replay reused : bool) (env : nat -> reply) (srv : nat) : reply * nat :=
  match env srv with
  | RpReset => if reused && replay then (env (S srv), S (S srv)) else (RpReset, S srv)
  | r => (r, S srv)
  end.

Inductive loop_out := LDone (r : reply) (attempts srv : nat) | LOutOfFuel.

(* retry.Until + the Accept closure of httputil.doWithRetry: try counts from 0; give up when
   try >= maxRetryCount - 1 *)
Fixpoint retry_loop (fuel max try srv : nat) (replay reused : bool) (env : nat -> reply) : loop_out :=
  match fuel with
  | O => LOutOfFuel
  | S fuel' =>
      let '(r, srv') := do_once replay reused env srv in
      if negb (failing r) then LDone r (S try) srv'
      else if (max - 1 <=? try)%nat then LDone r (S try) srv'
      else retry_loop fuel' max (S try) srv' replay (leaves_reusable r) env
  end.

Fixpoint lookup_rule (p : string) (t : list (string * retry_rule)) : option retry_rule :=
  match t with
  | [] => None
  | (k, r) :: rest => if String.eqb k p then Some r else lookup_rule p rest
  end.

(* retryPolicy.shouldRetry; None = the default branch (contract.Failf panics) *)
Definition should_retry (policy verb : string) : option bool :=
  match lookup_rule policy should_retry_table with
  | Some RNever => Some false
  | Some RAlways => Some true
  | Some (RMethodIs m) => Some (String.eqb verb m)
  | None => None
  end.

Definition policy_of (f : op_fact) : string :=
  if String.eqb (of_policy f) "" then default_policy else of_policy f.

Definition max_tries : nat := N.to_nat max_retry_count.

(* doWithRetry *)
Definition do_with_retry (policy verb : string) (env : nat -> reply) : option loop_out :=
  match should_retry policy verb with
  | None => None
  | Some true => Some (retry_loop (S max_tries) max_tries 0 0 (replayable verb) false env)
  | Some false => let '(r, srv') := do_once (replayable verb) false env 0%nat in Some (LDone r 1 srv')
  end.

(* ------------------------------------------------------------------------------------------------ *)
(* results *)
Inductive result :=
| ROk (vals : list string)
| RDiags (n : nat)
| RErr (cls : string) (code : N)
| RPanic
| RUnmodelled.      (* reply shapes the correspondence never produces (see Corr/C20.v) *)

Definition code_or_zero (c : option N) : N := match c with Some n => n | None => 0 end.

(* decodeError followed by the caller's diagnostics rule (identical in the four methods that install an
   ErrorResponse): body code 400 with a non-empty diagnostics list is not a failure *)
Definition decode_error (err_resp : bool) (status : N) (b : rbody) : result :=
  match b with
  | BJson c n =>
      if err_resp then
        if (code_or_zero c =? 400) && negb (Nat.eqb n 0) then RDiags n else RErr "enverr" (code_or_zero c)
      else RErr "http" (code_or_zero c)
  | BEmpty | BText => RErr "http" status
  | BOk => RUnmodelled
  end.

Definition rev_string (rev : option N) : option string :=
  match rev with Some r => Some (N_dec r) | None => None end.

(* the success path: how each method consumes the response *)
Definition decode_ok (f : op_fact) (b : rbody) (etag : string) (rev : option N) : result :=
  let nm := of_name f in
  if String.eqb (of_resp f) "none" then ROk []
  else if String.eqb (of_resp f) "raw" then
    if String.eqb nm "EnvironmentExists" then ROk ["true"]
    else match rev with
         | None => RErr "parse" 0
         | Some r =>
             if String.eqb nm "GetEnvironment" then ROk [etag; N_dec r]
             else if String.eqb nm "UpdateEnvironmentWithRevision" then ROk [N_dec r]
             else ROk []
         end
  else match b with
       | BOk => ROk []
       | BEmpty | BText => RErr "unmarshal" 0
       | BJson _ _ => RUnmodelled
       end.

(* httpCall after doWithRetry *)
Definition http_result (f : op_fact) (token : string) (r : reply) : result :=
  match r with
  | RpReset => RErr "transport" 0
  | RpResp s b etag rev =>
      if (s =? 401) && String.eqb token "" then RErr "login" 0
      else if s =? 429 then RErr "ratelimit" 0
      else if (400 <=? s) && (s <=? 599) then decode_error (of_err_resp f) s b
      else decode_ok f b etag rev
  end.

Record call_obs := mk_obs { co_requests : list request; co_attempts : nat; co_result : result }.

Definition env_of (script : list reply) (final : reply) : nat -> reply := fun i => nth i script final.

(* GetRevisionNumber answers a version that starts with a digit locally (strconv.ParseInt base 10, 64 bit) *)
Definition local_revision (f : op_fact) (a : list string) : option result :=
  if String.eqb (of_name f) "GetRevisionNumber" then
    match nth_s 3 a with
    | String c r as v =>
        if is_digit c then
          if all_chars is_digit v then
            let n := fold_left (fun acc d => acc * 10 + (N_of_ascii d - 48)) (chars v) 0 in
            if (n <? 9223372036854775808) && (N.of_nat (String.length v) <? 40)
            then Some (ROk [N_dec n]) else Some (RErr "invalid" 0)
          else Some (RErr "invalid" 0)
        else None
    | EmptyString => None
    end
  else None.

Definition run_call_env (f : op_fact) (token : string) (a : list string) (n : list (option Z))
    (env : nat -> reply) : call_obs :=
  match local_revision f a with
  | Some r => mk_obs [] 0 r
  | None =>
      match build_request f token a n with
      | None => mk_obs [] 0 (RErr "badreq" 0)
      | Some rq =>
          match do_with_retry (policy_of f) (of_verb f) env with
          | None => mk_obs [] 0 RPanic
          | Some LOutOfFuel => mk_obs [] 0 RUnmodelled
          | Some (LDone r att srv) => mk_obs (repeat rq srv) att (http_result f token r)
          end
      end
  end.

Definition run_call (f : op_fact) (token : string) (a : list string) (n : list (option Z))
    (script : list reply) (final : reply) : call_obs :=
  run_call_env f token a n (env_of script final).

(* a sequence of operations on ONE client instance: httpCall builds every request from the method's own arguments
   and the immutable fields of the client (URL, token, user agent); nothing a request sets is kept.  (The only
   mutable state of the client, the cached account of GetPulumiAccountDetails, is not in the model: the model describes
   the first call of that method.) *)
Record op_call := mk_call { oc_fact : op_fact; oc_args : list string; oc_nums : list (option Z); oc_env : nat -> reply }.

Definition run_op (token : string) (c : op_call) : call_obs :=
  run_call_env (oc_fact c) token (oc_args c) (oc_nums c) (oc_env c).

Definition run_sequence (token : string) (l : list op_call) : list call_obs := map (run_op token) l.

Fixpoint find_op (name : string) (l : list op_fact) : option op_fact :=
  match l with
  | [] => None
  | f :: r => if String.eqb (of_name f) name then Some f else find_op name r
  end.

(* ------------------------------------------------------------------------------------------------ *)
(* validity of names (hypothesis of the addressing theorems) and side conditions on the extracted table *)
Definition name_char_ok (c : ascii) : bool := negb (should_escape_path c) && negb (Ascii.eqb c c_slash).

Definition valid_name (s : string) : bool :=
  negb (String.eqb s "") && negb (String.eqb s ".") && negb (String.eqb s "..") && all_chars name_char_ok s.

Definition seg_ok (s : seg) : bool :=
  match s with SLit l => valid_name l | SHole v => Ascii.eqb v "v"%char || Ascii.eqb v "s"%char end.

Definition tpl_segs (t : string) : list seg :=
  match parse_template t with Some segs => segs | None => [] end.

Definition tpl_ok (t : string) (nholes : nat) : bool :=
  match parse_template t with
  | Some segs => String.eqb (render_tpl segs) t && forallb seg_ok segs && Nat.eqb (holes segs) nholes
                 && negb (Nat.eqb (length segs) 0)
  | None => false
  end.

(* a suffix is "" or one more literal segment *)
Definition suffix_segs (s : string) : list string :=
  match parse_template s with Some [SLit l] => [l] | _ => [] end.

Definition suffix_ok (s : string) : bool :=
  String.eqb (render (suffix_segs s)) s && forallb valid_name (suffix_segs s).

Definition hole_in_range (f : op_fact) (h : hole_src) : bool :=
  match h with HParam i => Nat.ltb i (length (of_params f)) | HConst _ => true end.

Definition op_shape_ok (f : op_fact) : bool :=
  forallb (hole_in_range f) (of_holes f)
  && suffix_ok (of_suffix f) && suffix_ok (of_flag_suffix f)
  && (String.eqb (of_suffix f) "" || String.eqb (of_flag_suffix f) "")
  && if of_resolve f then Nat.eqb (length (of_holes f)) 4 && String.eqb (of_template f) ""
     else tpl_ok (of_template f) (length (of_holes f)).

Definition resolve_ok : bool :=
  tpl_ok resolve_template_noversion 3 && tpl_ok resolve_template_version 4
  && Nat.leb (length (tpl_segs resolve_template_noversion) + 2) (length (tpl_segs resolve_template_version)).

(* the hypothesis of the addressing theorems on the values substituted into the path: valid names; the version
   slot of resolveEnvironmentPath may be empty (= no version) *)
Definition vals_ok (f : op_fact) (vals : list string) : bool :=
  if of_resolve f then
    match vals with
    | [o; p; e; v] => valid_name o && valid_name p && valid_name e && (String.eqb v "" || valid_name v)
    | _ => false
    end
  else forallb valid_name vals.

Definition names_ok (f : op_fact) (a : list string) : bool := vals_ok f (hole_values f (effective_args f a)).

(* the segments of the path (proof view of [op_path]) *)
Definition base_segs (f : op_fact) (vals : list string) : list string :=
  if of_resolve f then
    match vals with
    | [o; p; e; v] =>
        if String.eqb v "" then fill (tpl_segs resolve_template_noversion) [o; p; e]
        else fill (tpl_segs resolve_template_version) [o; p; e; v]
    | _ => []
    end
  else fill (tpl_segs (of_template f)) vals.

Definition op_segs (f : op_fact) (vals : list string) (flag : bool) : list string :=
  base_segs f vals ++ suffix_segs (of_suffix f) ++ (if flag then suffix_segs (of_flag_suffix f) else []).

(* side conditions on the retry table: every operation that is not a GET runs under a policy that never retries
   it; every policy named in the table is known *)
Definition retry_ok (f : op_fact) : bool :=
  match should_retry (policy_of f) (of_verb f) with
  | Some b => Bool.eqb b (String.eqb (of_verb f) "GET")
  | None => false
  end.

Definition headers_ok : bool :=
  String.eqb auth_format "token %s" && header_is auth_header "Authorization"
  && (header_is etag_header "ETag" || header_is etag_header "If-Match").

(* ------------------------------------------------------------------------------------------------ *)
(* the cross-operation view of a path: every segment tagged as a literal ROUTE WORD of the template or as a NAME
   substituted into it.  Two requests address the same resource iff their tagged segment lists agree. *)
Inductive tseg := TLit (s : string) | TName (s : string).

Definition tseg_text (t : tseg) : string := match t with TLit s => s | TName s => s end.

Fixpoint tfill (l : list seg) (args : list string) : list tseg :=
  match l with
  | [] => []
  | SLit s :: r => TLit s :: tfill r args
  | SHole _ :: r => match args with a :: args' => TName a :: tfill r args' | [] => TName "%!v(MISSING)" :: tfill r [] end
  end.

Fixpoint lits (l : list seg) : list string :=
  match l with [] => [] | SLit s :: r => s :: lits r | SHole _ :: r => lits r end.

(* the template an operation instantiates for given hole values (resolveEnvironmentPath picks one of two), then
   its suffixes *)
Definition base_pattern (f : op_fact) (vals : list string) : list seg :=
  if of_resolve f then
    match vals with
    | [o; p; e; v] => if String.eqb v "" then tpl_segs resolve_template_noversion else tpl_segs resolve_template_version
    | _ => []
    end
  else tpl_segs (of_template f).

Definition base_args (f : op_fact) (vals : list string) : list string :=
  if of_resolve f then
    match vals with
    | [o; p; e; v] => if String.eqb v "" then [o; p; e] else vals
    | _ => []
    end
  else vals.

Definition op_pattern (f : op_fact) (vals : list string) (flag : bool) : list seg :=
  base_pattern f vals ++ map SLit (suffix_segs (of_suffix f))
  ++ (if flag then map SLit (suffix_segs (of_flag_suffix f)) else []).

Definition op_route (f : op_fact) (a : list string) (n : list (option Z)) : list tseg :=
  let vals := hole_values f (effective_args f a) in
  tfill (op_pattern f vals (flag_of f n)) (base_args f vals).

(* the reserved path words: every literal segment of every template and suffix of the operation table *)
Definition op_words (f : op_fact) : list string :=
  lits (tpl_segs (of_template f)) ++ suffix_segs (of_suffix f) ++ suffix_segs (of_flag_suffix f).

Definition route_words : list string :=
  lits (tpl_segs resolve_template_noversion) ++ lits (tpl_segs resolve_template_version)
  ++ flat_map op_words client_ops.

Definition is_route_word (s : string) : bool := existsb (String.eqb s) route_words.

(* the decidable class of the known finding C20-route-words: a name or version that is itself a route word *)
Definition reserved_names (f : op_fact) (a : list string) : bool :=
  existsb is_route_word (hole_values f (effective_args f a)).
