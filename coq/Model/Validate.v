(* Model/Validate.v — two validators over (root schema, JSON value):

   [vimpl]  a mirror of eval/eval_validate.go AS CODED (validateElement, validate{AnyOf,OneOf,Const,Enum,Type,Number,
            String,Array,Object}, equalsConst) for concrete values, returning
               (accepted?, was at least one error diagnostic emitted into the validator's own diagnostics?)
            and [gate_impl], the mirror of evaluateTypedExpr + the condition in evaluateBuiltinOpen:
               (is the provider's Open reached?, does evaluation report an error diagnostic?)
   [vspec]  JSON Schema 2020-12 semantics of the same vocabulary, written keyword by keyword from the standard
            (Core §10 applicators, Validation §6 assertions), independently of the Go code.

   Both recurse on fuel ONLY (a $ref may point back into the schema, Go follows pointers) and return [None] when the
   fuel is exhausted or a $ref does not resolve (not compiled).

   What is data in the source is a parameter ([vparams], read by srcfacts into Src/SrcValidate.v):
     how minLength/maxLength measure a string (bytes: len(v); characters: utf8.RuneCountInString(v)),
     whether the `false` schema branch of validateElement reports, whether evaluateTypedExpr reports a rejection
     that came without any diagnostic.
   Collaborator: the regular-expression matcher (Go regexp / ECMA-262 in the standard) is a parameter [re] used by both
   sides: re pattern text = true iff text contains a match. *)
From Verif Require Export Model.Schema.

Record vparams := mkVP {
  p_minlen_chars : bool;     (* minLength counts characters (false: bytes) *)
  p_maxlen_chars : bool;     (* maxLength counts characters (false: bytes) *)
  p_never_reports : bool;    (* validateElement: `if accept.Never` emits an error *)
  p_gate_fallback : bool     (* evaluateTypedExpr: !ok && no error so far && value concrete => emits an error *)
}.

Notation "'do' x <- e ; k" := (match e with Some x => k | None => None end)
  (at level 200, x pattern, e at level 100, k at level 200, right associativity).

Fixpoint mapM {A B} (g : A -> option B) (l : list A) : option (list B) :=
  match l with
  | [] => Some []
  | a :: r => do b <- g a; do t <- mapM g r; Some (b :: t)
  end.

(* ====================================================================================================== *)
(* Implementation mirror                                                                                  *)
(* ====================================================================================================== *)

(* result of a validate* method: (return value, did it call errorf) *)
Notation R := (bool * bool)%type.
Definition r_ok : R := (true, false).
Definition r_err : R := (false, true).                       (* errorf(...); return false *)
Definition r_and (a b : R) : R := (fst a && fst b, snd a || snd b).
Definition r_check (c : bool) : R := if c then r_ok else r_err.   (* if !c { errorf; ok = false } *)

(* big.ParseFloat(text, 10, 0, ToNearestEven): precision 0 means a 64-bit mantissa.  On an integer: *)
Definition bf64 (z : Z) : Z :=
  let a := Z.abs z in
  let bits := (Z.log2 a + 1)%Z in
  if (bits <=? 64)%Z then z
  else
    let sh := (bits - 64)%Z in
    let q := Z.shiftr a sh in
    let r := (a - Z.shiftl q sh)%Z in
    let half := Z.shiftl 1 (sh - 1) in
    let q' := if (r <? half)%Z then q
              else if (half <? r)%Z then (q + 1)%Z
              else if Z.even q then q else (q + 1)%Z in
    (Z.sgn z * Z.shiftl q' sh)%Z.

(* equalsConst(v, c): switch on the dynamic type of the constant *)
Fixpoint equals_const (v c : json) : bool :=
  match c with
  | JNull => match v with JNull => true | _ => false end
  | JBool b => match v with JBool b' => Bool.eqb b' b | _ => false end
  | JNum z f => match v with JNum z' f' => (z' =? z)%Z && (f' =? f) | _ => false end   (* json.Number == : text *)
  | JStr s => match v with JStr s' => String.eqb s' s | _ => false end
  | JArr cs =>
      match v with
      | JArr vs =>
          (* len(a) != len(c) => false; then element-wise *)
          (fix go (cs : list json) (vs : list json) {struct cs} : bool :=
             match cs, vs with
             | [], [] => true
             | c' :: cs', v' :: vs' => equals_const v' c' && go cs' vs'
             | _, _ => false
             end) cs vs
      | _ => false
      end
  | JObj cm =>
      match v with
      | JObj vm =>
          (* len(m) != len(c) => false; for k, c := range c { v, ok := m[k]; !ok || !equalsConst(v, c) => false } *)
          (length vm =? length cm)%nat
          && forallb (fun kc => match kc with
                                | (k, c') => match lookup k vm with Some v' => equals_const v' c' | None => false end
                                end) cm
      | _ => false
      end
  end.

(* accept.Const == nil  — `const: null` decodes to a nil interface and is indistinguishable from "no const" *)
Definition impl_const (k : keywords) : option json :=
  match k_const k with Some JNull => None | c => c end.

Definition impl_validateConst (k : keywords) (v : json) : R :=
  match impl_const k with
  | None => r_ok
  | Some c => r_check (equals_const v c)
  end.

Definition impl_validateEnum (k : keywords) (v : json) : R :=
  match k_enum k with
  | [] => r_ok
  | es => r_check (existsb (equals_const v) es)
  end.

(* validateNumber: every failing clause reports *)
Definition impl_validateNumber (k : keywords) (z : Z) : R :=
  let n := bf64 z in
  r_and (match k_multipleOf k with Some m => r_check ((n mod bf64 m =? 0)%Z) | None => r_ok end)
  (r_and (match k_minimum k with Some m => r_check (negb (n <? bf64 m)%Z) | None => r_ok end)
  (r_and (match k_exclusiveMinimum k with Some m => r_check (negb (n <=? bf64 m)%Z) | None => r_ok end)
  (r_and (match k_maximum k with Some m => r_check (negb (bf64 m <? n)%Z) | None => r_ok end)
         (match k_exclusiveMaximum k with Some m => r_check (negb (bf64 m <=? n)%Z) | None => r_ok end)))).

Definition impl_strlen (chars : bool) (s : string) : N := if chars then utf8_chars s else slen s.

Definition impl_validateString (P : vparams) (re : string -> string -> bool) (k : keywords) (s : string) : R :=
  r_and (match k_minLength k with Some m => r_check (negb (impl_strlen (p_minlen_chars P) s <? m)) | None => r_ok end)
  (r_and (match k_maxLength k with Some m => r_check (negb (m <? impl_strlen (p_maxlen_chars P) s)) | None => r_ok end)
         (match k_pattern k with Some p => r_check (re p s) | None => r_ok end)).

(* validateAnyOf: all subschemas are tried, each with a fresh validator whose diagnostics are dropped on success *)
Definition impl_anyOf (g : schema -> option R) (l : list schema) : option R :=
  match l with
  | [] => Some r_ok
  | _ => do rs <- mapM g l; Some (if existsb fst rs then r_ok else r_err)
  end.

(* validateOneOf: returns as soon as a second subschema matches *)
Fixpoint impl_oneOf_loop (g : schema -> option R) (l : list schema) (matched : bool) : option R :=
  match l with
  | [] => Some (if matched then r_ok else r_err)
  | t :: r =>
      do x <- g t;
      if fst x then (if matched then Some r_err else impl_oneOf_loop g r true)
      else impl_oneOf_loop g r matched
  end.

Definition impl_oneOf (g : schema -> option R) (l : list schema) : option R :=
  match l with [] => Some r_ok | _ => impl_oneOf_loop g l false end.

(* validateValue(v, s) with s possibly the nil pointer (isAny(nil)) *)
Definition impl_opt (g : schema -> json -> option R) (o : option schema) (v : json) : option R :=
  match o with None => Some r_ok | Some t => g t v end.

(* the element loop of validateArray *)
Fixpoint impl_arr_loop (g : schema -> json -> option R) (pre : list schema) (items : option schema)
         (vs : list json) : option R :=
  match vs with
  | [] => Some r_ok
  | v :: vs' =>
      match pre with
      | p :: pre' => do a <- g p v; do b <- impl_arr_loop g pre' items vs'; Some (r_and a b)
      | [] => do a <- impl_opt g items v; do b <- impl_arr_loop g [] items vs'; Some (r_and a b)
      end
  end.

(* the key loop of validateObject *)
Fixpoint impl_obj_loop (g : schema -> json -> option R) (props : list (string * schema)) (addl : option schema)
         (m : list (string * json)) : option R :=
  match m with
  | [] => Some r_ok
  | (k, v) :: m' =>
      do a <- match lookup k props with Some p => g p v | None => impl_opt g addl v end;
      do b <- impl_obj_loop g props addl m';
      Some (r_and a b)
  end.

(* the `missing` list of validateObject *)
Definition impl_missing (k : keywords) (ks : list string) : list string :=
  filter (fun r => negb (mem r ks)) (k_required k)
  ++ flat_map (fun d => match d with
                        | (key, req) => if mem key ks then filter (fun r => negb (mem r ks)) req else []
                        end) (k_dependentRequired k).

(* validateType: checkType, then the type-specific clauses; [g] validates a child against a subschema *)
Definition impl_validateType (P : vparams) (re : string -> string -> bool) (g : schema -> json -> option R)
           (pre : list schema) (items addl : option schema) (props : list (string * schema)) (k : keywords)
           (v : json) : option R :=
  if match k_type k with Some t => jtype_eqb (type_of v) t | None => true end          (* checkType *)
  then match v with
       | JNull | JBool _ => Some r_ok
       | JNum z _ => Some (impl_validateNumber k z)
       | JStr str => Some (impl_validateString P re k str)
       | JArr vs =>
           do lp <- impl_arr_loop g pre items vs;
           Some (r_and (match k_minItems k with Some m => r_check (negb (len vs <? m)) | None => r_ok end)
                (r_and (match k_maxItems k with Some m => r_check (negb (m <? len vs)) | None => r_ok end)
                       lp))
       | JObj m =>
           do lp <- impl_obj_loop g props addl m;
           Some (r_and (match k_minProperties k with Some n => r_check (negb (len m <? n)) | None => r_ok end)
                (r_and (match k_maxProperties k with Some n => r_check (negb (n <? len m)) | None => r_ok end)
                (r_and lp
                       (r_check (match impl_missing k (keys m) with [] => true | _ => false end)))))
       end
  else Some r_err.                                                                     (* typeError *)

Section Impl.
  Variable P : vparams.
  Variable re : string -> string -> bool.
  Variable D : defs.

  (* validateElement for a concrete value *)
  Fixpoint vimpl (fuel : nat) (s : schema) (v : json) : option R :=
    match fuel with
    | O => None
    | S f =>
      match s with
      | SAlways => Some r_ok                                           (* e.isAny(accept) *)
      | SNever => Some (false, p_never_reports P)                      (* accept.Never *)
      | SNode ref anyOf oneOf pre items addl props k =>
          do rok <- match ref with                                     (* accept.GetRef() == nil || ... *)
                    | None => Some r_ok
                    | Some name => match lookup name D with Some t => vimpl f t v | None => None end
                    end;
          do aok <- impl_anyOf (fun t => vimpl f t v) anyOf;
          do ook <- impl_oneOf (fun t => vimpl f t v) oneOf;
          let cok := impl_validateConst k v in
          let eok := impl_validateEnum k v in
          do tok <- impl_validateType P re (vimpl f) pre items addl props k v;
          Some (r_and rok (r_and aok (r_and ook (r_and cok (r_and eok tok)))))
      end
    end.

  (* evaluateTypedExpr + evaluateBuiltinOpen for concrete inputs:
       ok := vv.validateValue(...); [fix: if !ok && !vv.diags.HasErrors() && !v.containsUnknowns() { vv.errorf }]
       Open is called iff ok.   Result: (Open reached, error diagnostic reported) *)
  Definition gate_impl (fuel : nat) (s : schema) (v : json) : option R :=
    do r <- vimpl fuel s v;
    Some (fst r, snd r || (negb (fst r) && negb (snd r) && p_gate_fallback P)).
End Impl.

(* ====================================================================================================== *)
(* Specification: JSON Schema 2020-12                                                                     *)
(* ====================================================================================================== *)

(* Core §4.2.2 instance equality: same type and null / equal booleans / equal strings / mathematically equal
   numbers / arrays of equal length with equal items at every index / objects where each property of one has exactly
   one property with an equal key in the other, and that property's value is equal *)
Fixpoint json_eqb (a b : json) : bool :=
  match a with
  | JNull => match b with JNull => true | _ => false end
  | JBool x => match b with JBool y => Bool.eqb x y | _ => false end
  | JNum x _ => match b with JNum y _ => (x =? y)%Z | _ => false end
  | JStr x => match b with JStr y => String.eqb x y | _ => false end
  | JArr xs =>
      match b with
      | JArr ys =>
          (fix go (xs : list json) (ys : list json) {struct xs} : bool :=
             match xs, ys with
             | [], [] => true
             | x :: xs', y :: ys' => json_eqb x y && go xs' ys'
             | _, _ => false
             end) xs ys
      | _ => false
      end
  | JObj xm =>
      match b with
      | JObj ym =>
          forallb (fun kx => match kx with
                             | (k, x) => match lookup k ym with Some y => json_eqb x y | None => false end
                             end) xm
          && forallb (fun k => mem k (keys xm)) (keys ym)
      | _ => false
      end
  end.

Fixpoint all_distinct (l : list json) : bool :=
  match l with [] => true | x :: r => negb (existsb (json_eqb x) r) && all_distinct r end.

Fixpoint count_true (l : list bool) : N :=
  match l with [] => 0 | b :: r => (if b then 1 else 0) + count_true r end.

(* Validation §6: the assertion keywords.  Each applies to one instance type and ignores the others. *)
Definition spec_type (k : keywords) (v : json) : bool :=
  match k_type k with Some t => jtype_eqb t (type_of v) | None => true end.
Definition spec_enum (k : keywords) (v : json) : bool :=
  match k_enum k with [] => true | es => existsb (fun e => json_eqb v e) es end.
Definition spec_const (k : keywords) (v : json) : bool :=
  match k_const k with Some c => json_eqb v c | None => true end.

Definition spec_numeric (k : keywords) (v : json) : bool :=
  match v with
  | JNum z _ =>
      match k_multipleOf k with Some m => (z mod m =? 0)%Z | None => true end      (* z / m is an integer *)
      && match k_maximum k with Some m => (z <=? m)%Z | None => true end
      && match k_exclusiveMaximum k with Some m => (z <? m)%Z | None => true end
      && match k_minimum k with Some m => (m <=? z)%Z | None => true end
      && match k_exclusiveMinimum k with Some m => (m <? z)%Z | None => true end
  | _ => true
  end.

Definition spec_string (re : string -> string -> bool) (k : keywords) (v : json) : bool :=
  match v with
  | JStr s =>
      match k_maxLength k with Some m => utf8_chars s <=? m | None => true end      (* length in characters *)
      && match k_minLength k with Some m => m <=? utf8_chars s | None => true end
      && match k_pattern k with Some p => re p s | None => true end
  | _ => true
  end.

Definition spec_array (k : keywords) (v : json) : bool :=
  match v with
  | JArr l =>
      match k_maxItems k with Some m => len l <=? m | None => true end
      && match k_minItems k with Some m => m <=? len l | None => true end
      && (if k_uniqueItems k then all_distinct l else true)
  | _ => true
  end.

Definition spec_object (k : keywords) (v : json) : bool :=
  match v with
  | JObj m =>
      match k_maxProperties k with Some n => len m <=? n | None => true end
      && match k_minProperties k with Some n => n <=? len m | None => true end
      && forallb (fun r => mem r (keys m)) (k_required k)
      && forallb (fun d => match d with
                           | (key, req) => if mem key (keys m) then forallb (fun r => mem r (keys m)) req else true
                           end) (k_dependentRequired k)
  | _ => true
  end.

Definition spec_assertions (re : string -> string -> bool) (k : keywords) (v : json) : bool :=
  spec_type k v && spec_enum k v && spec_const k v && spec_numeric k v && spec_string re k v
  && spec_array k v && spec_object k v.

(* Core §10: applicators, over a validity function [g] for subschemas *)
Definition allM (bs : option (list bool)) : option bool := do l <- bs; Some (forallb (fun b => b) l).

(* prefixItems: item i against schema i, for as long as both exist *)
Fixpoint spec_prefixItems (g : schema -> json -> option bool) (pre : list schema) (vs : list json) : option bool :=
  match pre, vs with
  | p :: pre', v :: vs' => do a <- g p v; do b <- spec_prefixItems g pre' vs'; Some (a && b)
  | _, _ => Some true
  end.

(* prefixItems / items (Core §10.3.1): items applies to the elements after the prefix *)
Definition spec_app_prefixItems (g : schema -> json -> option bool) (pre : list schema) (v : json) : option bool :=
  match v with JArr vs => spec_prefixItems g pre vs | _ => Some true end.

Definition spec_app_items (g : schema -> json -> option bool) (pre : list schema) (items : option schema) (v : json)
  : option bool :=
  match v, items with
  | JArr vs, Some t => allM (mapM (g t) (skipn (length pre) vs))
  | _, _ => Some true
  end.

(* properties / additionalProperties (Core §10.3.2): each member whose name is declared validates against the
   declared schema; each member whose name is NOT declared validates against additionalProperties *)
Definition spec_app_properties (g : schema -> json -> option bool) (props : list (string * schema)) (v : json)
  : option bool :=
  match v with
  | JObj m => allM (mapM (fun kv => match kv with
                                    | (key, x) => match lookup key props with Some p => g p x | None => Some true end
                                    end) m)
  | _ => Some true
  end.

Definition spec_app_additionalProperties (g : schema -> json -> option bool) (props : list (string * schema))
           (addl : option schema) (v : json) : option bool :=
  match v, addl with
  | JObj m, Some t => allM (mapM (fun kv => match kv with
                                            | (key, x) => if mem key (keys props) then Some true else g t x
                                            end) m)
  | _, _ => Some true
  end.

Section Spec.
  Variable re : string -> string -> bool.
  Variable D : defs.

  Fixpoint vspec (fuel : nat) (s : schema) (v : json) : option bool :=
    match fuel with
    | O => None
    | S f =>
      match s with
      | SAlways => Some true
      | SNever => Some false
      | SNode ref anyOf oneOf pre items addl props k =>
          (* $ref: the referenced schema *)
          do b_ref <- match ref with
                      | None => Some true
                      | Some name => match lookup name D with Some t => vspec f t v | None => None end
                      end;
          (* anyOf: at least one;  oneOf: exactly one *)
          do any <- mapM (fun t => vspec f t v) anyOf;
          do one <- mapM (fun t => vspec f t v) oneOf;
          (* array applicators *)
          do b_pre <- spec_app_prefixItems (vspec f) pre v;
          do b_items <- spec_app_items (vspec f) pre items v;
          (* object applicators *)
          do b_props <- spec_app_properties (vspec f) props v;
          do b_addl <- spec_app_additionalProperties (vspec f) props addl v;
          Some (b_ref
                && match anyOf with [] => true | _ => existsb (fun b => b) any end
                && match oneOf with [] => true | _ => count_true one =? 1 end
                && b_pre && b_items && b_props && b_addl
                && spec_assertions re k v)
      end
    end.
End Spec.

(* the property's specification of the gate, on an observation (opened, diag) of ANY implementation:
   valid inputs reach the provider; invalid ones do not and are reported *)
Definition gate_spec_ok (valid opened diag : bool) : bool :=
  if valid then opened else negb opened && diag.
