(* Corr/C18.v — case type and predicates evaluated by the correspondence check of C18.
   A case carries a Go value of one of the API types as dumped (by reflection, independently of encoding/json)
   from the real object, the JSON tree json.Marshal produced for it, the dump of what json.Unmarshal made of
   that JSON, and the JSON of marshalling that again; or a hand-written JSON tree and what json.Unmarshal made
   of it. *)
From Verif Require Import Base.Bytes Base.Wire Model.ApiJson Src.SrcApiJson.
Open Scope string_scope.

Definition fuel : nat := 400.
Notation tb := src_tables.
Notation top := (DPlain false).

(* SEvalB64: an evaluated program that applies fn::fromBase64 - the only way an evaluation result can hold a string that is
   not valid UTF-8 (recorded finding C18-non-utf8); in a result of any other program such a string is a new failure *)
Inductive source := SDirect | SEval | SEvalB64.

(* [again]: decoding the same document once more INTO the object just decoded left it unchanged;
   [into_orig]: decoding the document of the original into a copy of the original left it unchanged
   (both computed by the harness on its reflection dumps; decoding into a value that is not fresh) *)
Inductive case :=
| CRound (src : source) (t : gty) (orig : gval) (j1 : option json) (rt : option gval) (j2 : option json)
         (again into_orig : bool)
| CRaw (t : gty) (jin : json) (rt : option gval) (j2 : option json) (again : bool)
| CCrash (src : option source) (t : gty) (orig : gval).
    (* json.Marshal / json.Unmarshal panicked, killed the process or did not return; src = None: a raw document *)

Definition agree_json (m : res json) (o : option json) : bool :=
  match m, o with
  | Ok j, Some j' => json_eqb j j'
  | Err, None => true
  | _, _ => false
  end.

(* float64 values are compared by kind only: float parsing/formatting is not modelled *)
Definition agree_gval (m : res gval) (o : option gval) : bool :=
  match m, o with
  | Ok v, Some v' => gval_eqb true v v'
  | Err, None => true
  | _, _ => false
  end.

(* re-marshalling what the implementation decoded (skipped when it contains a float64) *)
Definition agree_remarshal (t : gty) (rt : option gval) (j2 : option json) : bool :=
  match rt with
  | Some v => if has_float v then true else agree_json (marshal tb fuel t v) j2
  | None => match j2 with None => true | Some _ => false end
  end.

Definition mismatch (c : case) : bool :=
  match c with
  | CCrash _ _ _ => true            (* the model never crashes *)
  | CRound _ t orig j1 rt j2 _ _ =>
      negb (agree_json (marshal tb fuel t orig) j1
            && match j1 with
               | Some j => agree_gval (unmarshal tb fuel top t j) rt
               | None => match rt with None => true | Some _ => false end
               end
            && agree_remarshal t rt j2)
  | CRaw t jin rt j2 _ =>
      negb (agree_gval (unmarshal tb fuel top t jin) rt && agree_remarshal t rt j2)
  end.

(* The domain of the specification must not depend on whether srcfacts recognised today's custom methods:
   typing is checked against the tables with the custom kinds the API is designed to have. *)
Definition norm_sd (sd : sdef) : sdef :=
  if String.eqb (sd_name sd) "Value" then mkSdef (sd_name sd) (sd_fields sd) CustNone CustValue
  else if String.eqb (sd_name sd) "Schema" then mkSdef (sd_name sd) (sd_fields sd) CustSchema CustSchema
  else mkSdef (sd_name sd) (sd_fields sd) CustNone CustNone.

Definition typed (t : gty) (v : gval) : bool := wellformed (map norm_sd tb) fuel top t v.

(* direct trees: every json.Number text is a JSON number, and numbers sit only where today's decoders keep them *)
Definition valid_numbers (t : gty) (v : gval) : bool :=
  negb (kf_nonfinite tb fuel top t v) && negb (kf_any_number tb fuel top t v).

Definition opt_json_eqb (a b : option json) : bool :=
  match a, b with Some x, Some y => json_eqb x y | None, None => true | _, _ => false end.

(* What "equal" means for a value read back: the same Go value, except that a non-nil EMPTY slice/map in an omitempty
   field where nil and empty mean the same (Model/ApiJson.v: every such field but [lossy_fields]) may come back nil.
   [nilify_h] is that normalisation of the ORIGINAL (specification level; the five lossy fields are left alone, so
   losing `[]` / `{}` of an Expr stays a failure). *)
Fixpoint nilify_h_fields (nm : string) (nil_of : gty -> gval -> gval) (fs : list field) (vs : list gval) : list gval :=
  match fs, vs with
  | f :: fs', v :: vs' =>
      (if f_skip f then v
       else if f_omit f && nonnil_empty v && negb (lossy_field nm (f_go f)) then GNil
       else nil_of (f_ty f) v) :: nilify_h_fields nm nil_of fs' vs'
  | _, _ => vs
  end.

Fixpoint nilify_h (n : nat) (t : gty) (v : gval) {struct n} : gval :=
  match n with
  | O => v
  | S n' =>
      match t, v with
      | TAny, GIface t' v' => GIface t' (nilify_h n' t' v')
      | TPtr t', GPtr v' => GPtr (nilify_h n' t' v')
      | TSlice t', GSlice l => GSlice (map (nilify_h n' t') l)
      | TMap t', GMap l => GMap (map (fun kv => (fst kv, nilify_h n' t' (snd kv))) l)
      | TNamed nm, GStruct vs =>
          match lookup_sd tb nm with
          | Some sd => GStruct (nilify_h_fields nm (nilify_h n') (sd_fields sd) vs)
          | None => v
          end
      | _, _ => v
      end
  end.

Definition in_domain (src : source) (t : gty) (orig : gval) : bool :=
  match src with SEval | SEvalB64 => true | SDirect => typed t orig && valid_numbers t orig end.

(* the specification, on the implementation's observations only: the value is serialisable, comes back equal
   (nil vs empty where it matters, json.Number vs float64, exact number text, exact bytes), serialises to the same
   JSON again, and decoding into a value that is not fresh (the object just decoded; a copy of the original) changes
   nothing.  A crash / panic / hang of the JSON layer is a failure.
   Domain: every evaluation result; every well-formed directly built tree with valid number text. *)
Definition spec_fail (c : case) : bool :=
  match c with
  | CRound src t orig j1 rt j2 again into_orig =>
      in_domain src t orig
      && negb (match j1, rt with
               | Some _, Some v => gval_eqb false (nilify_h fuel t orig) v && opt_json_eqb j1 j2 && again && into_orig
               | _, _ => false
               end)
  | CRaw _ _ rt _ again => match rt with Some _ => negb again | None => false end
  | CCrash (Some src) t orig => in_domain src t orig
  | CCrash None _ _ => true
  end.

(* Only the findings still recorded in known-findings.txt are excused, and (DESIGN §6 rule 2) only where the model -
   which reproduces both findings - predicts exactly what the implementation wrote, read back and wrote again:
     C18-empty-omitted, narrowed to [kf_empty_lossy]: a non-nil empty slice/map in one of the five omitempty fields
       whose being nil is information (Expr.List/Object/Interpolate/Symbol, Interpolation.Value);
     C18-non-utf8.
   The classes kf_nonfinite and kf_any_number were repaired in esc: an evaluation result inside them is a NEW
   violation.  Directly built trees with invalid number text or with a number the decoder cannot keep are outside
   the domain ("valid number text"), see [in_domain]. *)
Definition known (c : case) : bool :=
  match c with
  | CRound src t orig _ _ _ _ _ =>
      (kf_empty_lossy tb fuel top t orig
       || (kf_non_utf8 tb fuel top t orig && match src with SEval => false | _ => true end)) && negb (mismatch c)
  | _ => false
  end.

Definition spec_fail_new (c : case) : bool := spec_fail c && negb (known c).
Definition spec_fail_known (c : case) : bool := spec_fail c && known c.

Definition nontrivial (c : case) : bool :=
  match c with
  | CRound _ _ orig _ _ _ _ _ => match orig with GNil => false | _ => true end
  | _ => true
  end.

(* ---- wire format ---- *)
(* text atoms: 'abc (literal, for space/paren-free ASCII) or x616263 (hex) *)
Definition atom_text (x : sexp) : option string :=
  match x with
  | Atom (String "'"%char r) => Some r
  | Atom (String "x"%char r) => Some (hx r)
  | _ => None
  end.

Section ListDec.
Context {A : Type} (f : sexp -> option A).
Fixpoint dec_list (l : list sexp) : option (list A) :=
  match l with
  | [] => Some []
  | x :: r => match f x, dec_list r with Some y, Some t => Some (y :: t) | _, _ => None end
  end.
Fixpoint dec_pairs (l : list sexp) : option (list (string * A)) :=
  match l with
  | [] => Some []
  | SList [k; x] :: r =>
      match atom_text k, f x, dec_pairs r with
      | Some k', Some y, Some t => Some ((k', y) :: t)
      | _, _, _ => None
      end
  | _ => None
  end.
End ListDec.

Fixpoint dec_ty (x : sexp) : option gty :=
  match x with
  | Atom "bool" => Some TBool
  | Atom "int" => Some TInt
  | Atom "str" => Some TStr
  | Atom "num" => Some TNum
  | Atom "fl" => Some TFloat
  | Atom "any" => Some TAny
  | SList [Atom "ptr"; t] => option_map TPtr (dec_ty t)
  | SList [Atom "slice"; t] => option_map TSlice (dec_ty t)
  | SList [Atom "map"; t] => option_map TMap (dec_ty t)
  | SList [Atom "named"; n] => option_map TNamed (atom_text n)
  | _ => None
  end.

Fixpoint dec_json (x : sexp) : option json :=
  match x with
  | Atom "null" => Some JNull
  | Atom "t" => Some (JBool true)
  | Atom "f" => Some (JBool false)
  | SList [Atom "n"; s] => option_map JNum (atom_text s)
  | SList [Atom "s"; s] => option_map JStr (atom_text s)
  | SList (Atom "a" :: l) => option_map JArr (dec_list dec_json l)
  | SList (Atom "o" :: l) => option_map JObj (dec_pairs dec_json l)
  | _ => None
  end.

Fixpoint dec_gval (x : sexp) : option gval :=
  match x with
  | Atom "nil" => Some GNil
  | Atom "t" => Some (GBool true)
  | Atom "f" => Some (GBool false)
  | SList [Atom "i"; z] => option_map GInt (atom_Z z)
  | SList [Atom "s"; s] => option_map GStr (atom_text s)
  | SList [Atom "n"; s] => option_map GNum (atom_text s)
  | SList [Atom "fl"; s] => option_map GFloat (atom_text s)
  | SList [Atom "p"; v] => option_map GPtr (dec_gval v)
  | SList (Atom "l" :: l) => option_map GSlice (dec_list dec_gval l)
  | SList (Atom "m" :: l) => option_map GMap (dec_pairs dec_gval l)
  | SList (Atom "st" :: l) => option_map GStruct (dec_list dec_gval l)
  | SList [Atom "a"; t; v] =>
      match dec_ty t, dec_gval v with Some t', Some v' => Some (GIface t' v') | _, _ => None end
  | _ => None
  end.

(* (ok X) | err *)
Definition dec_opt {A} (f : sexp -> option A) (x : sexp) : option (option A) :=
  match x with
  | SList [Atom "ok"; y] => match f y with Some a => Some (Some a) | None => None end
  | Atom "err" => Some None
  | _ => None
  end.

Definition dec_src (x : sexp) : option source :=
  match x with Atom "direct" => Some SDirect | Atom "eval" => Some SEval | Atom "evalb64" => Some SEvalB64 | _ => None end.

Definition decode (x : sexp) : option case :=
  match x with
  | SList [Atom "round"; s; t; o; j1; rt; j2; ag; io] =>
      match dec_src s, dec_ty t, dec_gval o with
      | Some s', Some t', Some o' =>
          match dec_opt dec_json j1, dec_opt dec_gval rt, dec_opt dec_json j2, atom_bool ag, atom_bool io with
          | Some a, Some b, Some c, Some g, Some i => Some (CRound s' t' o' a b c g i)
          | _, _, _, _, _ => None
          end
      | _, _, _ => None
      end
  | SList [Atom "raw"; t; jin; rt; j2; ag] =>
      match dec_ty t, dec_json jin, dec_opt dec_gval rt, dec_opt dec_json j2, atom_bool ag with
      | Some t', Some j, Some b, Some c, Some g => Some (CRaw t' j b c g)
      | _, _, _, _, _ => None
      end
  | SList [Atom "crash"; s; t; o] =>
      match dec_src s, dec_ty t, dec_gval o with
      | Some s', Some t', Some o' => Some (CCrash (Some s') t' o')
      | _, _, _ => None
      end
  | SList [Atom "crash"; Atom "raw"; t] =>
      match dec_ty t with Some t' => Some (CCrash None t' GNil) | None => None end
  | _ => None
  end.

Definition verdict (c : case) : N :=
  verdict_bits (mismatch c) (spec_fail_new c) (spec_fail_known c) (nontrivial c).

(* Lines of this check reach 100 kB: the reader of Base/Wire.v reverses its token list with the quadratic
   [List.rev]; the same reader with [rev_append] is used here. *)
Fixpoint tokenize_acc (s : string) (cur : string) (acc : list token) : list token :=
  let flush acc := match cur with EmptyString => acc | _ => TAtom (rev_string cur) :: acc end in
  match s with
  | EmptyString => rev_append (flush acc) []
  | String c r =>
      if Ascii.eqb c "("%char then tokenize_acc r EmptyString (TOpen :: flush acc)
      else if Ascii.eqb c ")"%char then tokenize_acc r EmptyString (TClose :: flush acc)
      else if Ascii.eqb c " "%char then tokenize_acc r EmptyString (flush acc)
      else tokenize_acc r (String c cur) acc
  end.

Fixpoint read_tokens_acc (ts : list token) (stack : list (list sexp)) : option sexp :=
  match ts with
  | [] => match stack with [[x]] => Some x | _ => None end
  | TOpen :: r => read_tokens_acc r ([] :: stack)
  | TClose :: r =>
      match stack with
      | items :: next :: rest => read_tokens_acc r ((SList (rev_append items []) :: next) :: rest)
      | _ => None
      end
  | TAtom a :: r =>
      match stack with
      | items :: rest => read_tokens_acc r ((Atom a :: items) :: rest)
      | [] => None
      end
  end.

Definition parse_line (s : string) : option sexp := read_tokens_acc (tokenize_acc s EmptyString []) [[]].

Definition run_line (line : string) : string :=
  match parse_line line with
  | Some x => match decode x with Some c => show_verdict (verdict c) | None => "16" end
  | None => "16"
  end.
