(* Corr/C02Parse.v — Model/Parse.v against ast.ParseEnvironment / eval.LoadYAMLBytes (Go handler PARSE).
   One case = one YAML document.  The implementation reports the syntax tree its own decoder produced (the model's
   input), the AST its parser built from it, the number of diagnostics, and what LoadYAMLBytes returned; for generated
   canonical programs the case also carries the AST the text was rendered from ([want]).
   Dispatched to by Corr/C02.v (lines starting with the atom "parse"). *)
From Verif Require Import Base.Bytes Base.Wire Model.Chain Model.Eval Model.Interp Model.Parse Corr.EvalWire.
From Verif Require Import Proofs.InterpProofs Proofs.ParseProofs.     (* only for the boolean classes canonical / canonical_env *)

(* ---------------- what the handler observed ---------------- *)
Record pobs := {
  po_syn : option stree;                      (* None: the decoder returned no node *)
  po_desc : option string;                    (* EnvironmentDecl.Description *)
  po_imports : list (option string * bool);   (* ImportDecl.Environment (None = nil), merge flag as evaluateImport reads it *)
  po_values : list (string * expr);           (* nil keys / providers printed with the model's approximations *)
  po_ndiags : N;                              (* ParseEnvironment *)
  po_outside : bool;                          (* some nil key / nil provider in the parse (Args() included) *)
  po_load_nil : bool;                         (* LoadYAMLBytes returned no declaration *)
  po_load_ndiags : N;                         (* its diagnostics minus the decoder's *)
  po_load_same : option bool                  (* its declaration prints like ParseEnvironment's *)
}.

Inductive presult :=
| PCrash                                      (* panic / fatal crash / hang *)
| PDecodeErr (load_nil : bool)                (* the YAML decoder reported errors: nothing for the model to do *)
| PParsed (o : pobs).

Record pcase := { pc_res : presult; pc_want : option envdef }.

(* ---------------- decidable equalities ---------------- *)
Definition p_acc_eqb (a b : accessor) : bool :=
  match a, b with
  | AName x, AName y | AKey x, AKey y => String.eqb x y
  | AIdx i, AIdx j => Z.eqb i j
  | _, _ => false
  end.

Fixpoint p_list_eqb {A} (f : A -> A -> bool) (l l' : list A) : bool :=
  match l, l' with
  | [], [] => true
  | x :: r, y :: r' => f x y && p_list_eqb f r r'
  | _, _ => false
  end.

Definition p_part_eqb (a b : string * option path) : bool :=
  String.eqb (fst a) (fst b)
  && match snd a, snd b with
     | None, None => true
     | Some p, Some q => p_list_eqb p_acc_eqb p q
     | _, _ => false
     end.

Fixpoint expr_eqb (a b : expr) : bool :=
  match a, b with
  | ENull, ENull => true
  | EBool x, EBool y => Bool.eqb x y
  | ENum x, ENum y => String.eqb x y
  | EStr x, EStr y => String.eqb x y
  | EInterp p, EInterp q => p_list_eqb p_part_eqb p q
  | ESym p, ESym q => p_list_eqb p_acc_eqb p q
  | EArr l, EArr m =>
      (fix go (l m : list expr) : bool :=
         match l, m with
         | [], [] => true
         | x :: l', y :: m' => expr_eqb x y && go l' m'
         | _, _ => false
         end) l m
  | EObj l, EObj m =>
      (fix go (l m : list (string * expr)) : bool :=
         match l, m with
         | [], [] => true
         | kx :: l', ky :: m' => String.eqb (fst kx) (fst ky) && expr_eqb (snd kx) (snd ky) && go l' m'
         | _, _ => false
         end) l m
  | EJoin a1 a2, EJoin b1 b2 => expr_eqb a1 b1 && expr_eqb a2 b2
  | EToJSON x, EToJSON y => expr_eqb x y
  | EFromJSON x, EFromJSON y => expr_eqb x y
  | EToString x, EToString y => expr_eqb x y
  | EToB64 x, EToB64 y => expr_eqb x y
  | EFromB64 x, EFromB64 y => expr_eqb x y
  | ESecretPlain x, ESecretPlain y => String.eqb x y
  | ESecretCipher x, ESecretCipher y => String.eqb x y
  | EOpen p x, EOpen q y => String.eqb p q && expr_eqb x y
  | EMissing, EMissing => true
  | _, _ => false
  end.

Fixpoint stree_eqb (a b : stree) : bool :=
  match a, b with
  | TNull, TNull => true
  | TBool x, TBool y => Bool.eqb x y
  | TNum x, TNum y => String.eqb x y
  | TStr x, TStr y => String.eqb x y
  | TArr l, TArr m =>
      (fix go (l m : list stree) : bool :=
         match l, m with
         | [], [] => true
         | x :: l', y :: m' => stree_eqb x y && go l' m'
         | _, _ => false
         end) l m
  | TObj l, TObj m =>
      (fix go (l m : list (string * stree)) : bool :=
         match l, m with
         | [], [] => true
         | kx :: l', ky :: m' => String.eqb (fst kx) (fst ky) && stree_eqb (snd kx) (snd ky) && go l' m'
         | _, _ => false
         end) l m
  | _, _ => false
  end.

Definition import_eqb (a b : string * bool) : bool := String.eqb (fst a) (fst b) && Bool.eqb (snd a) (snd b).
Definition value_eqb (a b : string * expr) : bool := String.eqb (fst a) (fst b) && expr_eqb (snd a) (snd b).

Definition envdef_eqb (a b : envdef) : bool :=
  p_list_eqb import_eqb (ed_imports a) (ed_imports b) && p_list_eqb value_eqb (ed_values a) (ed_values b).

Definition opt_str_eqb (a b : option string) : bool :=
  match a, b with
  | None, None => true
  | Some x, Some y => String.eqb x y
  | _, _ => false
  end.

(* ---------------- the implementation's declaration as the evaluator reads it ---------------- *)
(* evaluateImport skips an entry without environment name *)
Definition obs_def (o : pobs) : envdef :=
  {| ed_imports := flat_map (fun im : option string * bool =>
                               match fst im with Some n => [(n, snd im)] | None => [] end) (po_imports o);
     ed_values := po_values o |}.

(* ---------------- impl vs model ---------------- *)
(* no node at all is "not an object" for parseRecord *)
Definition model_top (syn : option stree) : top_st :=
  match syn with Some t => parse_top t | None => parse_top TNull end.

Definition pmismatch (c : pcase) : bool :=
  match pc_res c with
  | PCrash => true                                     (* the model has no panic value: the parser is total *)
  | PDecodeErr _ => false
  | PParsed o =>
      let st := model_top (po_syn o) in
      negb (opt_str_eqb (ts_desc st) (po_desc o))
      || negb (envdef_eqb {| ed_imports := ts_imports st; ed_values := ts_values st |} (obs_def o))
      || negb (ts_diags st =? po_ndiags o)
      || negb (Bool.eqb (ts_out st) (po_outside o))
      || match pc_want c with
         | Some w =>
             (* the generated AST is in the class of the round-trip theorem, and the Coq rendering is the tree the
                implementation decoded from the Python rendering *)
             negb (canonical_env w)
             || match po_syn o with Some t => negb (stree_eqb (render_env w) t) | None => true end
         | None => false
         end
  end.

(* ---------------- the specification, on the implementation's observation alone ---------------- *)
(* LoadYAMLBytes = decode, then ParseEnvironment; a declaration is returned iff there is no (error) diagnostic *)
Definition load_consistent (o : pobs) : bool :=
  Bool.eqb (po_load_nil o) (negb (po_ndiags o =? 0))
  && (po_load_ndiags o =? po_ndiags o)
  && (if po_load_nil o then true else match po_load_same o with Some true => true | _ => false end).

(* round-trip direction: a canonical AST rendered as YAML is parsed back to exactly that AST, without diagnostics *)
Definition pspec_fail (c : pcase) : bool :=
  match pc_res c with
  | PCrash => true
  | PDecodeErr load_nil => negb load_nil || match pc_want c with Some _ => true | None => false end
  | PParsed o =>
      negb (load_consistent o)
      || match pc_want c with
         | Some w => negb (envdef_eqb w (obs_def o)) || negb (po_ndiags o =? 0) || po_outside o
         | None => false
         end
  end.

Definition pnontrivial (c : pcase) : bool :=
  match pc_res c with PParsed _ => true | _ => false end.

(* ---------------- wire ---------------- *)
Fixpoint dec_stree (fuel : nat) (x : sexp) : option stree :=
  match fuel with
  | O => None
  | S f =>
    match x with
    | Atom "null" => Some TNull
    | SList [Atom "b"; b] => option_map TBool (atom_bool b)
    | SList [Atom "n"; t] => option_map TNum (atom_str t)
    | SList [Atom "s"; s] => option_map TStr (atom_str s)
    | SList (Atom "arr" :: es) => option_map TArr (map_opt (dec_stree f) es)
    | SList (Atom "obj" :: kvs) =>
        option_map TObj (map_opt (fun kv => match kv with
                                           | SList [k; v] => match atom_str k, dec_stree f v with
                                                             | Some k, Some v => Some (k, v) | _, _ => None end
                                           | _ => None end) kvs)
    | _ => None
    end
  end.

(* the AST dump: EvalWire's expression syntax plus (nokey <text as written> e) for an entry without key and
   (open none e) for an fn::open without provider, read with the approximations of Model/Parse.v *)
Fixpoint dec_aexpr (fuel : nat) (x : sexp) : option expr :=
  match fuel with
  | O => None
  | S f =>
    match x with
    | Atom "null" => Some ENull
    | Atom "missing" => Some EMissing
    | SList [Atom "b"; b] => option_map EBool (atom_bool b)
    | SList [Atom "n"; t] => option_map ENum (atom_str t)
    | SList [Atom "s"; s] => option_map EStr (atom_str s)
    | SList (Atom "interp" :: ps) => option_map EInterp (map_opt dec_part ps)
    | SList [Atom "sym"; p] => option_map ESym (dec_path p)
    | SList (Atom "arr" :: es) => option_map EArr (map_opt (dec_aexpr f) es)
    | SList (Atom "obj" :: kvs) =>
        option_map EObj (map_opt (fun kv => match kv with
                                           | SList [Atom "nokey"; k; e] | SList [k; e] =>
                                               match atom_str k, dec_aexpr f e with
                                               | Some k, Some e => Some (k, e) | _, _ => None end
                                           | _ => None end) kvs)
    | SList [Atom "join"; d; vs] =>
        match dec_aexpr f d, dec_aexpr f vs with Some d, Some vs => Some (EJoin d vs) | _, _ => None end
    | SList [Atom "tojson"; e] => option_map EToJSON (dec_aexpr f e)
    | SList [Atom "fromjson"; e] => option_map EFromJSON (dec_aexpr f e)
    | SList [Atom "tostring"; e] => option_map EToString (dec_aexpr f e)
    | SList [Atom "tob64"; e] => option_map EToB64 (dec_aexpr f e)
    | SList [Atom "fromb64"; e] => option_map EFromB64 (dec_aexpr f e)
    | SList [Atom "secret"; s] => option_map ESecretPlain (atom_str s)
    | SList [Atom "cipher"; s] => option_map ESecretCipher (atom_str s)
    | SList [Atom "open"; Atom "none"; e] => option_map (EOpen EmptyString) (dec_aexpr f e)
    | SList [Atom "open"; p; e] =>
        match atom_str p, dec_aexpr f e with Some p, Some e => Some (EOpen p e) | _, _ => None end
    | _ => None
    end
  end.

Definition dec_opt_str (x : sexp) : option (option string) :=
  match x with
  | Atom "none" => Some None
  | SList [Atom "s"; s] => option_map Some (atom_str s)
  | _ => None
  end.

Definition dec_import (x : sexp) : option (option string * bool) :=
  match x with
  | SList [Atom "none"; m] => option_map (fun m => (None, m)) (atom_bool m)
  | SList [n; m] => match atom_str n, atom_bool m with Some n, Some m => Some (Some n, m) | _, _ => None end
  | _ => None
  end.

Definition dec_value (x : sexp) : option (string * expr) :=
  match x with
  | SList [k; e] => match atom_str k, dec_aexpr wire_fuel e with Some k, Some e => Some (k, e) | _, _ => None end
  | _ => None
  end.

Definition dec_opt_bool (x : sexp) : option (option bool) :=
  match x with
  | Atom "none" => Some None
  | b => option_map Some (atom_bool b)
  end.

Definition dec_syn (x : sexp) : option (option stree) :=
  match x with
  | Atom "nil" => Some None
  | t => option_map Some (dec_stree wire_fuel t)
  end.

Definition dec_result (x : sexp) : option presult :=
  match x with
  | Atom "crash" => Some PCrash
  | SList [Atom "derr"; ln] => option_map PDecodeErr (atom_bool ln)
  | SList [Atom "ok"; syn; SList [Atom "env"; desc; SList imps; SList vals]; nd; out; ln; lnd; same] =>
      match dec_syn syn, dec_opt_str desc, map_opt dec_import imps, map_opt dec_value vals with
      | Some syn, Some desc, Some imps, Some vals =>
          match atom_N nd, atom_bool out, atom_bool ln, atom_N lnd, dec_opt_bool same with
          | Some nd, Some out, Some ln, Some lnd, Some same =>
              Some (PParsed {| po_syn := syn; po_desc := desc; po_imports := imps; po_values := vals; po_ndiags := nd;
                               po_outside := out; po_load_nil := ln; po_load_ndiags := lnd; po_load_same := same |})
          | _, _, _, _, _ => None
          end
      | _, _, _, _ => None
      end
  | _ => None
  end.

(* (parse <result> <want>) *)
Definition decode (x : sexp) : option pcase :=
  match x with
  | SList [Atom "parse"; r; want] =>
      match dec_result r with
      | Some r =>
          match want with
          | Atom "none" => Some {| pc_res := r; pc_want := None |}
          | w => option_map (fun d => {| pc_res := r; pc_want := Some d |}) (dec_envdef w)
          end
      | None => None
      end
  | _ => None
  end.

Definition verdict (c : pcase) : N := verdict_bits (pmismatch c) (pspec_fail c) false (pnontrivial c).

(* stand-alone runner (Corr/C02.v dispatches to [decode] / [verdict] itself) *)
Definition run_line : string -> string := run_with decode verdict.
