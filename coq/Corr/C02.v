(* Corr/C02.v — references and built-ins denote the reference semantics. *)
From Verif Require Import Base.Bytes Base.Wire Model.Chain Model.GoText Model.Eval Model.Interp Corr.EvalWire Corr.C01.
From Verif Require Corr.C02Parse.      (* the parser cases: YAML syntax tree -> AST (Model/Parse.v vs ast.ParseEnvironment) *)

(* claims the generator attaches to a program: what the property demands of the result *)
Inductive claim :=
| ClPath (k : string) (p : path)       (* root[k] = value at path p of the final root value *)
| ClSame (k1 k2 : string)              (* root[k1] = root[k2] (round trips) *)
| ClToStr (k1 k2 : string)             (* root[k1] = string form of the final value root[k2] *)
| ClConst (k : string) (s : string)    (* root[k] is the string s (the documented function of literal arguments) *)
| ClLit (k : string) (e : expr).       (* root[k] is the value of the literal e (an import's own value under imports.<name>) *)

Record case := {
  c_name : string; c_def : envdef; c_world : world; c_obs : iobs;
  c_obs2 : iobs;                        (* same program, keys rendered in another order *)
  c_claims : list claim
}.

Fixpoint jaccess (p : path) (j : json) : option json :=
  match p with
  | [] => Some j
  | a :: r =>
      match a, j with
      | AName k, JObj m | AKey k, JObj m => match alookup k m with Some v => jaccess r v | None => None end
      | AIdx i, JArr l => if (i <? 0)%Z then None else match nth_error l (Z.to_nat i) with Some v => jaccess r v | None => None end
      | _, _ => None
      end
  end.

(* string form of a JSON value as fn::toString / interpolation define it (strconv.Quote on 7-bit text) *)
Fixpoint jstring (fuel : nat) (j : json) : string :=
  match fuel with
  | O => ""
  | S f =>
    match j with
    | JNull => ""
    | JBool true => "true"
    | JBool false => "false"
    | JNum t => t
    | JStr s => s
    | JArr l => sjoin "," (map (fun x => go_quote (jstring f x)) l)
    | JObj m => sjoin "," (map (fun kv => go_quote (fst kv) +++ "=" +++ go_quote (jstring f (snd kv))) m)
    end
  end.

Definition obs_eqb (a b : iobs) : bool :=
  match a, b with
  | IObs (Some x) e _, IObs (Some y) e' _ => xeq x y && Bool.eqb e e'
  | IObs None e _, IObs None e' _ => Bool.eqb e e'
  | ILoadErr, ILoadErr => true
  | _, _ => false
  end.

Definition claim_fails (root : json) (c : claim) : bool :=
  match c with
  | ClPath k p =>
      match jaccess [AKey k] root, jaccess p root with
      | Some a, Some b => negb (jeq a b)
      | _, _ => true
      end
  | ClSame k1 k2 =>
      match jaccess [AKey k1] root, jaccess [AKey k2] root with
      | Some a, Some b => negb (jeq a b)
      | _, _ => true
      end
  | ClToStr k1 k2 =>
      match jaccess [AKey k1] root, jaccess [AKey k2] root with
      | Some a, Some b => negb (jeq a (JStr (jstring (S (jdepth b)) b)))
      | _, _ => true
      end
  | ClConst k s =>
      match jaccess [AKey k] root with
      | Some a => negb (jeq a (JStr s))
      | None => true
      end
  | ClLit k e =>
      match jaccess [AKey k] root, lit_json wire_fuel e with
      | Some a, Some b => negb (jeq a b)
      | _, _ => true
      end
  end.

(* claims are only meaningful for evaluations without diagnostics *)
Definition failing_claims (c : case) : list claim :=
  match c_obs c with
  | IObs (Some v) false _ => filter (claim_fails (xj v)) (c_claims c)
  | _ => []
  end.

(* known finding C02-tostring: the string form of an object that has an object base omits the inherited keys.
   Class: a ToStr claim about key k such that at least two layers of the flattened chain (own literal layer first)
   hold an object at some path under k. *)
Fixpoint lit_json_lax (fuel : nat) (e : expr) : json :=
  match fuel with
  | O => JNull
  | S f =>
    match e with
    | EBool b => JBool b
    | ENum t => JNum t
    | EStr s => JStr s
    | EArr l => JArr (map (lit_json_lax f) l)
    | EObj kvs => JObj (fold_left (fun acc kv => ainsert (fst kv) (lit_json_lax f (snd kv)) acc) kvs [])
    | _ => JNull
    end
  end.

Definition layers_of (c : case) : list json :=
  lit_json_lax wire_fuel (EObj (ed_values (c_def c)))
  :: concat (rev (map (fun im : string * bool =>
                         if snd im then match alookup (fst im) (w_envs (c_world c)) with
                                        | Some (LoadOk d') => flat model_fuel (c_world c) d'
                                        | _ => []
                                        end
                         else []) (ed_imports (c_def c)))).

Definition tostr_known (c : case) (k : string) : bool :=
  let ls := layers_of c in
  let paths := filter (fun p => match p with k' :: _ => String.eqb k k' | [] => false end)
                      (concat (map (jpaths wire_fuel) ls)) in
  existsb (fun p => Nat.leb 2 (length (filter (fun l => match jget p l with Some v => is_jobj v | None => false end) ls))) paths.

Definition claim_known (c : case) (cl : claim) : bool :=
  match cl with ClToStr _ k2 => tostr_known c k2 | _ => false end.

Definition mismatch (c : case) : bool :=
  match compare_run (c_world c) (c_name c) (c_def c) (c_obs c) with CmpDiff => true | _ => false end.

Definition order_fail (c : case) : bool := negb (obs_eqb (c_obs c) (c_obs2 c)).

(* a failure counts as the RECORDED finding only when the model - which reproduces that finding - predicts exactly what the
   implementation did on this case; any further deviation makes it a new failure with this input as the replay *)
Definition spec_fail_new (c : case) : bool :=
  order_fail c || existsb (fun cl => negb (claim_known c cl && negb (mismatch c))) (failing_claims c).
Definition spec_fail_known (c : case) : bool :=
  negb (mismatch c) && existsb (claim_known c) (failing_claims c).
Definition nontrivial (c : case) : bool :=
  match c_obs c with IObs (Some _) false _ => negb (Nat.eqb (length (c_claims c)) 0) | _ => false end.

Definition dec_claim (x : sexp) : option claim :=
  match x with
  | SList [Atom "path"; k; p] => match atom_str k, dec_path p with Some k, Some p => Some (ClPath k p) | _, _ => None end
  | SList [Atom "same"; a; b] => match atom_str a, atom_str b with Some a, Some b => Some (ClSame a b) | _, _ => None end
  | SList [Atom "lit"; a; e] => match atom_str a, dec_expr wire_fuel e with Some a, Some e => Some (ClLit a e) | _, _ => None end
  | SList [Atom "const"; a; b] => match atom_str a, atom_str b with Some a, Some b => Some (ClConst a b) | _, _ => None end
  | SList [Atom "tostr"; a; b] => match atom_str a, atom_str b with Some a, Some b => Some (ClToStr a b) | _, _ => None end
  | _ => None
  end.

(* ---------------- the interpolation / property-path parser (Model/Interp.v vs ast.Interpolate) ---------------- *)
Record icase := {
  i_text : string;                                  (* the scalar as written *)
  i_parts : list (string * option path);            (* what ast.Interpolate returned *)
  i_ndiags : N;
  i_strings : list string;                          (* PropertyAccess.String() of every access, in order *)
  i_want : option (list (string * option path))     (* round-trip direction: the parts this text was rendered from *)
}.

Definition acc_eqb (a b : accessor) : bool :=
  match a, b with
  | AName x, AName y | AKey x, AKey y => String.eqb x y
  | AIdx i, AIdx j => Z.eqb i j
  | _, _ => false
  end.

Fixpoint list_eqb {A} (f : A -> A -> bool) (l l' : list A) : bool :=
  match l, l' with
  | [], [] => true
  | x :: r, y :: r' => f x y && list_eqb f r r'
  | _, _ => false
  end.

Definition part_eqb (a b : string * option path) : bool :=
  String.eqb (fst a) (fst b)
  && match snd a, snd b with
     | None, None => true
     | Some p, Some q => list_eqb acc_eqb p q
     | _, _ => false
     end.

Definition imismatch (c : icase) : bool :=
  let '(ps, n) := parse_interp (i_text c) in
  negb (list_eqb part_eqb ps (i_parts c)) || negb (n =? i_ndiags c)
  || negb (list_eqb String.eqb
             (concat (map (fun p => match snd p with Some q => [print_path q] | None => [] end) (i_parts c)))
             (i_strings c))
  || match i_want c with Some w => negb (String.eqb (print_interp w) (i_text c)) | None => false end.

(* the documented behaviour, on the implementation alone: a rendering of printable parts ($$ for a literal $) is read back
   as exactly those parts, without diagnostics *)
Definition ispec_fail (c : icase) : bool :=
  match i_want c with
  | Some w => negb (list_eqb part_eqb w (i_parts c)) || negb (i_ndiags c =? 0)
  | None => false
  end.

Inductive anycase := CProg (c : case) | CInterp (c : icase) | CParse (c : C02Parse.pcase).

Definition decode_prog (x : sexp) : option case :=

  match x with
  | SList [Atom "c02"; n; d; w; o; o2; SList cls] =>
      match atom_str n, dec_envdef d, dec_world w with
      | Some n, Some d, Some w =>
          match dec_obs o, dec_obs o2, map_opt dec_claim cls with
          | Some o, Some o2, Some cls =>
              Some {| c_name := n; c_def := d; c_world := w; c_obs := o; c_obs2 := o2; c_claims := cls |}
          | _, _, _ => None
          end
      | _, _, _ => None
      end
  | _ => None
  end.

Definition dec_parts (x : sexp) : option (list (string * option path)) := slist_of dec_part x.

Definition decode (x : sexp) : option anycase :=
  match x with
  | SList [Atom "interp"; t; ps; n; SList strs; want] =>
      match atom_str t, dec_parts ps, atom_N n, map_opt atom_str strs with
      | Some t, Some ps, Some n, Some strs =>
          match want with
          | Atom "none" => Some (CInterp {| i_text := t; i_parts := ps; i_ndiags := n; i_strings := strs; i_want := None |})
          | w => match dec_parts w with
                 | Some w => Some (CInterp {| i_text := t; i_parts := ps; i_ndiags := n; i_strings := strs; i_want := Some w |})
                 | None => None
                 end
          end
      | _, _, _, _ => None
      end
  | SList (Atom "parse" :: _) => option_map CParse (C02Parse.decode x)
  | _ => option_map CProg (decode_prog x)
  end.

Definition verdict (c : anycase) : N :=
  match c with
  | CProg c => verdict_bits (mismatch c) (spec_fail_new c) (spec_fail_known c) (nontrivial c)
  | CInterp c => verdict_bits (imismatch c) (ispec_fail c) false true
  | CParse c => C02Parse.verdict c
  end.

Definition run_line : string -> string := run_with decode verdict.
