(* Corr/C11.v — case type and predicates evaluated by the correspondence shards of C11. *)
From Verif Require Import Base.Bytes Model.Envelope Src.SrcEnvelope.

Definition params : env_params :=
  {| ep_magic := envelope_magic; ep_version := envelope_version; ep_min_len := envelope_min_len |}.

(* the envelope format the property talks about (magic "escx", version 1), used to build corruptions *)
Definition ref_params (magic : string) (version : N) : env_params :=
  {| ep_magic := magic; ep_version := version; ep_min_len := 12 |}.

Definition envelope_bin (p : env_params) (ct : string) : string :=
  let body := ep_magic p +++ be32 (ep_version p) +++ ct in body +++ be32 (crc32 body).

Fixpoint sxor (a b : string) : string :=
  match a, b with
  | String x a', String y b' => String (ascii_of_N (N.lxor (N_of_ascii x) (N_of_ascii y))) (sxor a' b')
  | _, _ => a
  end.

Definition dec_eqb (a b : dec_result) : bool :=
  match a, b with
  | DOk x, DOk y => String.eqb x y
  | DErrBase64, DErrBase64 | DErrShort, DErrShort | DErrHeader, DErrHeader
  | DErrChecksum, DErrChecksum | DErrVersion, DErrVersion | DPanic, DPanic => true
  | _, _ => false
  end.

Definition is_ok (d : dec_result) : bool := match d with DOk _ => true | _ => false end.

(* set bits of a mask in CRC transmission order: bit j of byte i is position 8*i + j *)
Fixpoint bit_positions (i : N) (l : list N) : list N :=
  match l with
  | [] => []
  | b :: r => map (fun j => 8 * i + j) (filter (fun j => N.testbit b j) [0;1;2;3;4;5;6;7])
              ++ bit_positions (i + 1) r
  end.

Definition mask_positions (m : string) : list N := bit_positions 0 (bytes_of m).

Definition span (ps : list N) : N :=
  match ps with [] => 0 | p :: _ => last ps p - p + 1 end.

Inductive case :=
| CRound (ct impl_repr : string) (impl_dec : dec_result)
| CDec (repr : string) (impl : dec_result)
| CMask (ct mask repr : string) (impl : dec_result)
| CTrunc (ct : string) (n : nat) (repr : string) (impl : dec_result)
| CForge (magic : string) (version : N) (ct repr : string) (impl : dec_result)
(* corruption of the base64 TEXT: [repr] = text of the envelope of [ct] xor [tmask], byte by byte *)
| CText (ct tmask repr : string) (impl : dec_result)
(* the wrap side through the public API: [impl_repr] is the text eval.EncryptSecrets wrote for the ciphertext [ct] *)
| CWrap (ct impl_repr : string) (impl_dec : dec_result).

Definition std := ref_params (hx "65736378") 1.

Definition mismatch (c : case) : bool :=
  match c with
  | CRound ct r d => negb (String.eqb r (encode_ct params ct)) || negb (dec_eqb d (decode_ct params r))
  | CDec r d => negb (dec_eqb d (decode_ct params r))
  | CMask ct m r d => negb (String.eqb r (b64_encode (sxor (envelope_bin std ct) m)))
                      || negb (dec_eqb d (decode_ct params r))
  | CTrunc ct n r d => negb (String.eqb r (b64_encode (stake n (envelope_bin std ct))))
                      || negb (dec_eqb d (decode_ct params r))
  | CForge mg v ct r d => negb (String.eqb r (encode_ct (ref_params mg v) ct))
                      || negb (dec_eqb d (decode_ct params r))
  | CText ct tm r d => negb (String.eqb r (sxor (encode_ct std ct) tm)) || negb (dec_eqb d (decode_ct params r))
  | CWrap ct r d => negb (String.eqb r (encode_ct params ct)) || negb (dec_eqb d (decode_ct params r))
  end.

(* ---- the text level ---- *)
Definition nonzero_bytes (m : string) : nat := length (filter (fun b => negb (b =? 0)) (bytes_of m)).

Fixpoint first_nonzero (m r : string) : option ascii :=
  match m, r with
  | String x m', String y r' => if N_of_ascii x =? 0 then first_nonzero m' r' else Some y
  | _, _ => None
  end.

Definition in_alphabet (c : ascii) : bool := match b64val c with Some _ => true | None => false end.

(* what the theorems guarantee at text level (C11_text_one_char_replaced, C11_text_char_outside_alphabet): exactly ONE
   character of the text replaced, the new and the old character not being the padding '=' *)
Definition text_guaranteed (ct tm r : string) : bool :=
  Nat.eqb (nonzero_bytes tm) 1
  && match first_nonzero tm r, first_nonzero tm (encode_ct std ct) with
     | Some new, Some old => negb (Ascii.eqb new pad) && negb (Ascii.eqb old pad)
     | _, _ => false
     end.

(* the property's "altered by up to three flipped bits", read on the text *)
Definition text_le3 (tm : string) : bool :=
  let n := N.of_nat (length (mask_positions tm)) in (0 <? n) && (n <=? 3).

(* known finding C11-text-flips: up to three flipped bits of the TEXT that touch several characters or make or break
   a padding character can be accepted with another payload *)
Definition text_known (ct tm r : string) : bool := text_le3 tm && negb (text_guaranteed ct tm r).

(* corruption classes the property guarantees to be rejected *)
Definition guaranteed_mask (ct m : string) : bool :=
  let ps := mask_positions m in
  let n := N.of_nat (length ps) in
  (0 <? n) && (((n <=? 3) && (8 * slen (envelope_bin std ct) <=? 91639)) || (span ps <=? 32)).

(* known finding C11-boundary: a burst (of more than 3 flipped bits) that straddles the boundary between the
   checksummed bytes and the big-endian trailer *)
Definition boundary_burst (ct m : string) : bool :=
  let ps := mask_positions m in
  let cut := 8 * (8 + slen ct) in
  (3 <? N.of_nat (length ps)) && (span ps <=? 32)
  && existsb (fun p => p <? cut) ps && existsb (fun p => cut <=? p) ps.

Definition spec_fail (c : case) : bool :=
  match c with
  | CRound ct r d => negb (dec_eqb d (DOk ct))
  | CDec _ _ => false
  | CMask ct m _ d => guaranteed_mask ct m && is_ok d
  | CTrunc ct n _ d => Nat.ltb n 12 && is_ok d
  | CForge mg v ct _ d => (negb (String.eqb mg (hx "65736378")) || negb (v =? 1)) && is_ok d
  (* an altered text must never yield ANOTHER payload (the same payload is the same binary envelope: only bits the
     decoder ignores changed); one replaced character outside the alphabet must be rejected outright *)
  | CText ct tm r d =>
      ((text_guaranteed ct tm r || text_le3 tm) && is_ok d && negb (dec_eqb d (DOk ct)))
      || (text_guaranteed ct tm r
          && match first_nonzero tm r with Some new => negb (in_alphabet new) | None => false end && is_ok d)
  | CWrap ct r d => negb (dec_eqb d (DOk ct))
  end.

Definition known (c : case) : bool :=
  match c with
  | CMask ct m _ _ => boundary_burst ct m
  | CText ct tm r _ => text_known ct tm r
  | _ => false
  end.

(* a failure counts as the RECORDED finding only when the model - which reproduces that finding - predicts exactly what the
   implementation did on this case; any further deviation makes it a new failure with this input as the replay *)
Definition spec_fail_new (c : case) : bool := spec_fail c && negb (known c && negb (mismatch c)).
Definition spec_fail_known (c : case) : bool := spec_fail c && known c && negb (mismatch c).

Definition nontrivial (c : case) : bool :=
  match c with
  | CRound ct _ _ => true
  | CDec r _ => negb (String.eqb r "")
  | CMask _ m _ _ => negb (N.of_nat (length (mask_positions m)) =? 0)
  | CTrunc _ _ _ _ => true
  | CForge _ _ _ _ _ => true
  | CText _ tm _ _ => negb (N.of_nat (length (mask_positions tm)) =? 0)
  | CWrap _ _ _ => true
  end.

(* ---- wire format ---- *)
From Verif Require Import Base.Wire.

Definition decode_dec (x : sexp) : option dec_result :=
  match x with
  | SList [Atom "ok"; s] => match atom_str s with Some ct => Some (DOk ct) | None => None end
  | Atom "base64" => Some DErrBase64
  | Atom "short" => Some DErrShort
  | Atom "header" => Some DErrHeader
  | Atom "checksum" => Some DErrChecksum
  | Atom "version" => Some DErrVersion
  | Atom "panic" => Some DPanic
  | _ => None
  end.

Definition decode (x : sexp) : option case :=
  match x with
  | SList [Atom "round"; ct; r; d] =>
      match atom_str ct, atom_str r, decode_dec d with
      | Some ct, Some r, Some d => Some (CRound ct r d) | _, _, _ => None end
  | SList [Atom "dec"; r; d] =>
      match atom_str r, decode_dec d with Some r, Some d => Some (CDec r d) | _, _ => None end
  | SList [Atom "mask"; ct; m; r; d] =>
      match atom_str ct, atom_str m, atom_str r, decode_dec d with
      | Some ct, Some m, Some r, Some d => Some (CMask ct m r d) | _, _, _, _ => None end
  | SList [Atom "trunc"; ct; n; r; d] =>
      match atom_str ct, atom_nat n, atom_str r, decode_dec d with
      | Some ct, Some n, Some r, Some d => Some (CTrunc ct n r d) | _, _, _, _ => None end
  | SList [Atom "forge"; mg; v; ct; r; d] =>
      match atom_str mg, atom_N v, atom_str ct with
      | Some mg, Some v, Some ct =>
          match atom_str r, decode_dec d with Some r, Some d => Some (CForge mg v ct r d) | _, _ => None end
      | _, _, _ => None end
  | SList [Atom "text"; ct; m; r; d] =>
      match atom_str ct, atom_str m, atom_str r, decode_dec d with
      | Some ct, Some m, Some r, Some d => Some (CText ct m r d) | _, _, _, _ => None end
  | SList [Atom "wrap"; ct; r; d] =>
      match atom_str ct, atom_str r, decode_dec d with
      | Some ct, Some r, Some d => Some (CWrap ct r d) | _, _, _ => None end
  | _ => None
  end.

Definition verdict (c : case) : N :=
  verdict_bits (mismatch c) (spec_fail_new c) (spec_fail_known c) (nontrivial c).

(* The same text taken through the other routes by which an envelope is unwrapped, as observed by the harness:
   - retained: the payload returned by the decoder is unchanged after two further, unrelated decodes;
   - doc / doc2: eval.DecryptSecrets over a document that carries the text [occ] times (doc2: once, under a key spelled
     with YAML escapes) with a recording decrypter: the class of the returned error, the number of payloads the
     decrypter received for the text, whether each was exactly the decoder's payload;
   - eval: the evaluator's fn::secret on the same document: the number of error diagnostics, and the same two
     observations of the decrypter;
   - back (wrap cases): DecryptSecrets over the document EncryptSecrets wrote hands the decrypter the chosen ciphertext.
   The clause "rejected as invalid ciphertext and never handed to the decrypter" is judged HERE, on these observations:
   a text the decoder rejects MUST produce the error that wraps "invalid ciphertext: <the decoder's error>" (document)
   / exactly one diagnostic per occurrence (evaluation) and reach the decrypter never; a text it accepts must produce
   no error / no diagnostic and reach the decrypter once per occurrence with exactly the decoder's payload.
   [PSkip]: the text cannot be the value of a YAML scalar (not UTF-8) / the document did not load; counted in the
   evidence. *)
Inductive doc_err := ENone | EInvalid (kind : dec_result) | EOther.

Inductive pobs := PSkip | PObs (err : doc_err) (ndiag n : nat) (same : bool).

Record wcase := { w_core : case; w_retained : bool; w_occ : nat; w_doc : pobs; w_doc2 : pobs; w_eval : pobs;
                  w_back : bool }.

Definition impl_of (c : case) : dec_result :=
  match c with
  | CRound _ _ d | CDec _ d | CMask _ _ _ d | CTrunc _ _ _ d | CForge _ _ _ _ d | CText _ _ _ d | CWrap _ _ d => d
  end.

Definition err_eqb (a b : dec_result) : bool :=
  match a, b with DOk _, DOk _ => true | _, _ => dec_eqb a b end.

(* DecryptSecrets: [occ] occurrences *)
Definition doc_fail (d : dec_result) (occ : nat) (o : pobs) : bool :=
  match o with
  | PSkip => false
  | PObs err _ n same =>
      if is_ok d then negb (match err with ENone => true | _ => false end && Nat.eqb n occ && same)
      else negb (match err with EInvalid k => err_eqb k d && negb (is_ok k) | _ => false end && Nat.eqb n 0)
  end.

(* evaluation: one diagnostic per rejected occurrence, none otherwise *)
Definition eval_fail (d : dec_result) (occ : nat) (o : pobs) : bool :=
  match o with
  | PSkip => false
  | PObs _ nd n same =>
      if is_ok d then negb (Nat.eqb nd 0 && Nat.eqb n occ && same)
      else negb (Nat.eqb nd occ && Nat.eqb n 0)
  end.

Definition path_fail (w : wcase) : bool :=
  let d := impl_of (w_core w) in
  negb (w_retained w) || doc_fail d (w_occ w) (w_doc w) || doc_fail d 1 (w_doc2 w) || eval_fail d (w_occ w) (w_eval w)
  || negb (w_back w).

Definition decode_flag (x : sexp) : option bool :=
  match x with Atom "same" | Atom "skip" => Some true | Atom "differs" => Some false | _ => None end.

Definition decode_err (x : sexp) : option doc_err :=
  match x with
  | Atom "none" => Some ENone
  | Atom "other" => Some EOther
  | SList [Atom "ic"; k] => match decode_dec k with Some k => Some (EInvalid k) | None => Some EOther end
  | _ => None
  end.

Definition decode_pobs (x : sexp) : option pobs :=
  match x with
  | Atom "skip" => Some PSkip
  | SList [Atom "obs"; e; nd; n; sm] =>
      match decode_err e, atom_nat nd, atom_nat n, decode_flag sm with
      | Some e, Some nd, Some n, Some sm => Some (PObs e nd n sm)
      | _, _, _, _ => None
      end
  | _ => None
  end.

Definition decode_w (x : sexp) : option wcase :=
  match x with
  | SList [Atom "c11"; core; r; occ; d; d2; e; bk] =>
      match decode core, decode_flag r, atom_nat occ, decode_pobs d with
      | Some c, Some r, Some occ, Some d =>
          match decode_pobs d2, decode_pobs e, decode_flag bk with
          | Some d2, Some e, Some bk =>
              Some {| w_core := c; w_retained := r; w_occ := occ; w_doc := d; w_doc2 := d2; w_eval := e; w_back := bk |}
          | _, _, _ => None
          end
      | _, _, _, _ => None
      end
  | _ => None
  end.

Definition verdict_w (w : wcase) : N :=
  let c := w_core w in
  verdict_bits (mismatch c) (spec_fail_new c || path_fail w) (spec_fail_known c) (nontrivial c).

Definition run_line : string -> string := run_with decode_w verdict_w.
