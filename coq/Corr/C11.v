(* Corr/C11.v — case type and predicates evaluated by the correspondence shards of C11. *)
From Verif Require Import Base.Bytes Model.Envelope Src.SrcEnvelope.

Definition params : env_params :=
  {| ep_magic := envelope_magic; ep_version := envelope_version; ep_min_len := envelope_min_len |}.

(* the envelope format the property talks about (magic "escx", version 1), used to build corruptions *)
Definition ref_params (magic : string) (version : N) : env_params :=
  {| ep_magic := magic; ep_version := version; ep_min_len := 12 |}.

Definition envelope_bin (p : env_params) (ct : string) : string :=
  let body := ep_magic p +++ be32 (ep_version p) +++ ct in body +++ be32 (crc32 body).

Fixpoint sxor (a b : string) : string :=
  match a, b with
  | String x a', String y b' => String (ascii_of_N (N.lxor (N_of_ascii x) (N_of_ascii y))) (sxor a' b')
  | _, _ => a
  end.

Definition dec_eqb (a b : dec_result) : bool :=
  match a, b with
  | DOk x, DOk y => String.eqb x y
  | DErrBase64, DErrBase64 | DErrShort, DErrShort | DErrHeader, DErrHeader
  | DErrChecksum, DErrChecksum | DErrVersion, DErrVersion | DPanic, DPanic => true
  | _, _ => false
  end.

Definition is_ok (d : dec_result) : bool := match d with DOk _ => true | _ => false end.

(* set bits of a mask in CRC transmission order: bit j of byte i is position 8*i + j *)
Fixpoint bit_positions (i : N) (l : list N) : list N :=
  match l with
  | [] => []
  | b :: r => map (fun j => 8 * i + j) (filter (fun j => N.testbit b j) [0;1;2;3;4;5;6;7])
              ++ bit_positions (i + 1) r
  end.

Definition mask_positions (m : string) : list N := bit_positions 0 (bytes_of m).

Definition span (ps : list N) : N :=
  match ps with [] => 0 | p :: _ => last ps p - p + 1 end.

Inductive case :=
| CRound (ct impl_repr : string) (impl_dec : dec_result)
| CDec (repr : string) (impl : dec_result)
| CMask (ct mask repr : string) (impl : dec_result)
| CTrunc (ct : string) (n : nat) (repr : string) (impl : dec_result)
| CForge (magic : string) (version : N) (ct repr : string) (impl : dec_result).

Definition std := ref_params (hx "65736378") 1.

Definition mismatch (c : case) : bool :=
  match c with
  | CRound ct r d => negb (String.eqb r (encode_ct params ct)) || negb (dec_eqb d (decode_ct params r))
  | CDec r d => negb (dec_eqb d (decode_ct params r))
  | CMask ct m r d => negb (String.eqb r (b64_encode (sxor (envelope_bin std ct) m)))
                      || negb (dec_eqb d (decode_ct params r))
  | CTrunc ct n r d => negb (String.eqb r (b64_encode (stake n (envelope_bin std ct))))
                      || negb (dec_eqb d (decode_ct params r))
  | CForge mg v ct r d => negb (String.eqb r (encode_ct (ref_params mg v) ct))
                      || negb (dec_eqb d (decode_ct params r))
  end.

(* corruption classes the property guarantees to be rejected *)
Definition guaranteed_mask (ct m : string) : bool :=
  let ps := mask_positions m in
  let n := N.of_nat (length ps) in
  (0 <? n) && (((n <=? 3) && (8 * slen (envelope_bin std ct) <=? 91639)) || (span ps <=? 32)).

(* known finding C11-boundary: a burst (of more than 3 flipped bits) that straddles the boundary between the
   checksummed bytes and the big-endian trailer *)
Definition boundary_burst (ct m : string) : bool :=
  let ps := mask_positions m in
  let cut := 8 * (8 + slen ct) in
  (3 <? N.of_nat (length ps)) && (span ps <=? 32)
  && existsb (fun p => p <? cut) ps && existsb (fun p => cut <=? p) ps.

Definition spec_fail (c : case) : bool :=
  match c with
  | CRound ct r d => negb (dec_eqb d (DOk ct))
  | CDec _ _ => false
  | CMask ct m _ d => guaranteed_mask ct m && is_ok d
  | CTrunc ct n _ d => Nat.ltb n 12 && is_ok d
  | CForge mg v ct _ d => (negb (String.eqb mg (hx "65736378")) || negb (v =? 1)) && is_ok d
  end.

Definition known (c : case) : bool :=
  match c with
  | CMask ct m _ _ => boundary_burst ct m
  | _ => false
  end.

(* a failure counts as the RECORDED finding only when the model - which reproduces that finding - predicts exactly what the
   implementation did on this case; any further deviation makes it a new failure with this input as the replay *)
Definition spec_fail_new (c : case) : bool := spec_fail c && negb (known c && negb (mismatch c)).
Definition spec_fail_known (c : case) : bool := spec_fail c && known c && negb (mismatch c).

Definition nontrivial (c : case) : bool :=
  match c with
  | CRound ct _ _ => true
  | CDec r _ => negb (String.eqb r "")
  | CMask _ m _ _ => negb (N.of_nat (length (mask_positions m)) =? 0)
  | CTrunc _ _ _ _ => true
  | CForge _ _ _ _ _ => true
  end.

(* ---- wire format ---- *)
From Verif Require Import Base.Wire.

Definition decode_dec (x : sexp) : option dec_result :=
  match x with
  | SList [Atom "ok"; s] => match atom_str s with Some ct => Some (DOk ct) | None => None end
  | Atom "base64" => Some DErrBase64
  | Atom "short" => Some DErrShort
  | Atom "header" => Some DErrHeader
  | Atom "checksum" => Some DErrChecksum
  | Atom "version" => Some DErrVersion
  | Atom "panic" => Some DPanic
  | _ => None
  end.

Definition decode (x : sexp) : option case :=
  match x with
  | SList [Atom "round"; ct; r; d] =>
      match atom_str ct, atom_str r, decode_dec d with
      | Some ct, Some r, Some d => Some (CRound ct r d) | _, _, _ => None end
  | SList [Atom "dec"; r; d] =>
      match atom_str r, decode_dec d with Some r, Some d => Some (CDec r d) | _, _ => None end
  | SList [Atom "mask"; ct; m; r; d] =>
      match atom_str ct, atom_str m, atom_str r, decode_dec d with
      | Some ct, Some m, Some r, Some d => Some (CMask ct m r d) | _, _, _, _ => None end
  | SList [Atom "trunc"; ct; n; r; d] =>
      match atom_str ct, atom_nat n, atom_str r, decode_dec d with
      | Some ct, Some n, Some r, Some d => Some (CTrunc ct n r d) | _, _, _, _ => None end
  | SList [Atom "forge"; mg; v; ct; r; d] =>
      match atom_str mg, atom_N v, atom_str ct with
      | Some mg, Some v, Some ct =>
          match atom_str r, decode_dec d with Some r, Some d => Some (CForge mg v ct r d) | _, _ => None end
      | _, _, _ => None end
  | _ => None
  end.

Definition verdict (c : case) : N :=
  verdict_bits (mismatch c) (spec_fail_new c) (spec_fail_known c) (nontrivial c).

(* The same text taken through the other routes by which an envelope is unwrapped, as observed by the harness:
   - retained: the payload returned by the decoder is unchanged after two further, unrelated decodes;
   - doc / eval: eval.DecryptSecrets over a document and the evaluator's fn::secret, each with a recording decrypter,
     handed the decrypter exactly the payload the decoder returned, and nothing when the decoder rejected the text
     ("an envelope that is rejected is never handed to the decrypter"). *)
Record wcase := { w_core : case; w_retained : bool; w_doc : bool; w_eval : bool }.

Definition path_fail (w : wcase) : bool := negb (w_retained w) || negb (w_doc w) || negb (w_eval w).

Definition decode_flag (x : sexp) : option bool :=
  match x with Atom "same" | Atom "skip" => Some true | Atom "differs" => Some false | _ => None end.

Definition decode_w (x : sexp) : option wcase :=
  match x with
  | SList [Atom "c11"; core; r; d; e] =>
      match decode core, decode_flag r, decode_flag d, decode_flag e with
      | Some c, Some r, Some d, Some e => Some {| w_core := c; w_retained := r; w_doc := d; w_eval := e |}
      | _, _, _, _ => None
      end
  | _ => None
  end.

Definition verdict_w (w : wcase) : N :=
  let c := w_core w in
  verdict_bits (mismatch c) (spec_fail_new c || path_fail w) (spec_fail_known c) (nontrivial c).

Definition run_line : string -> string := run_with decode_w verdict_w.
