(* Corr/C16.v — case type and predicates evaluated by the correspondence of C16 (temporary files of `esc run`). *)
From Verif Require Import Base.Bytes Model.TempFiles Src.SrcTempFiles.

Definition params : tf_params :=
  mk_tf_params src_remove_on_write_fail src_rollback src_defer_cleanup src_close_checked src_unknown_path.

Definition std_name : nat -> string := temp_name src_temp_dir src_temp_pattern.

Inductive oerr := OErr (e : run_err) | OOther.

Record case := mk_case {
  c_run : bool;                       (* true: the `esc run` command; false: PrepareEnvironment *)
  c_pretend : bool;
  c_cfg : run_cfg;
  c_faults : list (kind * nat);
  c_init : fmap;                      (* file system before the command (as listed by the harness) *)
  (* the implementation's observation *)
  c_err : oerr;
  c_trace : list (option event);      (* oldest first; None: an event the model has no name for *)
  c_final : fmap;                     (* sorted by path *)
  c_child : option child_view;        (* files sorted by path *)
  c_paths : list string;
  c_environ : list string;
  c_secrets : list string
}.

(* ---- equality tests ---- *)
Definition opt_str_eqb (a b : option string) : bool :=
  match a, b with Some x, Some y => String.eqb x y | None, None => true | _, _ => false end.

Definition rres_eqb (a b : rres) : bool :=
  match a, b with RmOk, RmOk | RmFault, RmFault | RmMissing, RmMissing => true | _, _ => false end.

Definition event_eqb (a b : event) : bool :=
  match a, b with
  | EvCreate p, EvCreate q => opt_str_eqb p q
  | EvWrite p x, EvWrite q y => String.eqb p q && Bool.eqb x y
  | EvClose p x, EvClose q y => String.eqb p q && Bool.eqb x y
  | EvReclose p, EvReclose q => String.eqb p q
  | EvRemove p x, EvRemove q y => String.eqb p q && rres_eqb x y
  | EvRun x, EvRun y => Bool.eqb x y
  | _, _ => false
  end.

Definition err_eqb (a b : run_err) : bool :=
  match a, b with
  | EOk, EOk | ELookPath, ELookPath | EOpen, EOpen | EPrepare, EPrepare | EStart, EStart | EExit, EExit => true
  | _, _ => false
  end.

Fixpoint list_eqb {A B} (eqb : A -> B -> bool) (a : list A) (b : list B) : bool :=
  match a, b with
  | [], [] => true
  | x :: a', y :: b' => eqb x y && list_eqb eqb a' b'
  | _, _ => false
  end.

Definition pair_eqb (a b : string * string) : bool := String.eqb (fst a) (fst b) && String.eqb (snd a) (snd b).

(* sort a map by path (the harness lists its files with sort.Strings) *)
Fixpoint ins_path (x : string * string) (l : fmap) : fmap :=
  match l with
  | [] => [x]
  | y :: r => if String.leb (fst x) (fst y) then x :: y :: r else y :: ins_path x r
  end.
Fixpoint sort_map (m : fmap) : fmap := match m with [] => [] | x :: r => ins_path x (sort_map r) end.

Definition map_eqb (model observed : fmap) : bool := list_eqb pair_eqb (sort_map model) observed.

Definition child_eqb (a : option child_view) (b : option child_view) : bool :=
  match a, b with
  | None, None => true
  | Some x, Some y => list_eqb String.eqb (cv_env x) (cv_env y) && map_eqb (cv_files x) (cv_files y)
  | _, _ => false
  end.

Definition trace_eqb (model : list event) (observed : list (option event)) : bool :=
  list_eqb (fun m o => match o with Some e => event_eqb m e | None => false end) (rev model) observed.

(* ---- implementation vs model ---- *)
Definition model_fs0 (c : case) : fsys := init_fs (c_init c) 0.

Definition mismatch (c : case) : bool :=
  let plan := plan_of (c_faults c) in
  if c_run c then
    let out := run_command plan std_name params (model_fs0 c) (c_cfg c) in
    negb (match c_err c with OErr e => err_eqb e (o_err out) | OOther => false end
          && trace_eqb (fs_trace (o_fs out)) (c_trace c)
          && map_eqb (fs_files (o_fs out)) (c_final c)
          && child_eqb (o_child out) (c_child c))
  else
    let '(st, res) := prepare_environment plan std_name params (model_fs0 c) (c_pretend c)
                        (rc_files (c_cfg c)) (rc_vars (c_cfg c)) in
    negb (trace_eqb (fs_trace st) (c_trace c)
          && map_eqb (fs_files st) (c_final c)
          && match res, c_err c with
             | None, OErr EPrepare => true
             | Some (paths, environ, secrets), OErr EOk =>
                 list_eqb String.eqb paths (c_paths c) && list_eqb String.eqb environ (c_environ c)
                 && list_eqb String.eqb secrets (c_secrets c)
             | _, _ => false
             end).

(* ---- the specification, evaluated on the implementation's observation alone ---- *)
Definition obs_has (c : case) (p : event -> bool) : bool :=
  existsb (fun o => match o with Some e => p e | None => false end) (c_trace c).

Definition remove_faulted (c : case) (p : string) : bool :=
  obs_has c (fun e => match e with EvRemove q RmFault => String.eqb p q | _ => false end).

Definition close_faulted (c : case) (p : string) : bool :=
  obs_has c (fun e => match e with EvClose q false => String.eqb p q | _ => false end).

(* a file is left behind that was not there before and whose own Remove was not made to fail *)
Definition sf_leak (c : case) : bool :=
  existsb (fun pc => negb (opt_str_eqb (lookup (fst pc) (c_init c)) (Some (snd pc)))
                     && negb (remove_faulted c (fst pc))) (c_final c).

(* a file that was there before is changed or gone (unless the child was told to delete what it is given) *)
Definition sf_touched (c : case) : bool :=
  negb (rc_unlink (c_cfg c))
  && existsb (fun pc => negb (opt_str_eqb (lookup (fst pc) (c_final c)) (Some (snd pc)))) (c_init c).

(* something was run although creating or writing a file failed *)
Definition sf_ran_after_failure (c : case) : bool :=
  obs_has c (fun e => match e with EvRun _ => true | _ => false end)
  && obs_has c (fun e => match e with EvCreate None => true | EvWrite _ false => true | _ => false end).

Inductive entry_status := EGood | ETruncated | EBad.

(* does [env] export [e] as KEY=path with the file holding the projected value (in [files])?  When several
   members of [env] define KEY (a key that is also an environment variable, or a name of the base environment)
   the LAST one is what the command sees (os/exec keeps the last definition of a name), so that one must be
   the path. *)
Definition strip_key (k s : string) : string := sdrop (String.length (k +++ "=")) s.

Definition entry_status_in (c : case) (env : list string) (files : fmap) (e : pentry) : entry_status :=
  match rev (filter (fun s => sprefix (pe_key e +++ "=") s) env) with
  | [] => EBad
  | s :: _ =>
      let p := strip_key (pe_key e) s in
      if opt_str_eqb (lookup p files) (Some (pe_val e)) then EGood
      else if opt_str_eqb (lookup p files) (Some (partial (pe_val e))) && close_faulted c p then ETruncated
      else EBad
  end.

Definition statuses (c : case) : list entry_status :=
  let fes := projection (rc_files (c_cfg c)) in
  if c_run c then
    match c_child c with
    | Some cv => map (entry_status_in c (cv_env cv) (cv_files cv)) fes
    | None => []
    end
  else
    match c_err c with
    | OErr EOk => if c_pretend c then [] else map (entry_status_in c (c_environ c) (c_final c)) fes
    | _ => []
    end.

Definition is_bad (s : entry_status) : bool := match s with EBad => true | _ => false end.
Definition is_trunc (s : entry_status) : bool := match s with ETruncated => true | _ => false end.

(* PrepareEnvironment hands its files to the caller: they may (must) stay when it succeeds *)
Definition sf_leak_case (c : case) : bool :=
  if c_run c then sf_leak c
  else match c_err c with
       | OErr EOk => if c_pretend c then sf_leak c else false
       | _ => sf_leak c
       end.

Definition spec_fail_structural (c : case) : bool :=
  sf_leak_case c || sf_touched c || sf_ran_after_failure c || existsb is_bad (statuses c)
  || match c_err c with OOther => true | _ => false end.

Definition spec_fail (c : case) : bool := spec_fail_structural c || existsb is_trunc (statuses c).

(* known finding C16-close (only while the source drops the error of Close): the plan makes a Close fail and the
   only thing wrong is that a file whose Close failed holds half of its value *)
Definition has_close_fault (faults : list (kind * nat)) : bool :=
  existsb (fun f => kind_eqb KClose (fst f)) faults.

Definition known (c : case) : bool := negb src_close_checked && has_close_fault (c_faults c).

Definition spec_fail_known (c : case) : bool :=
  known c && negb (spec_fail_structural c) && existsb is_trunc (statuses c).
Definition spec_fail_new (c : case) : bool := spec_fail c && negb (spec_fail_known c).

Definition nontrivial (c : case) : bool :=
  match projection (rc_files (c_cfg c)) with [] => false | _ => negb (c_pretend c) end.

(* ---- wire format ---- *)
From Verif Require Import Base.Wire.

Definition decode_kind (x : sexp) : option kind :=
  match x with
  | Atom "create" => Some KCreate | Atom "write" => Some KWrite | Atom "close" => Some KClose
  | Atom "remove" => Some KRemove | Atom "run" => Some KRun | _ => None
  end.

Definition decode_fault (x : sexp) : option (kind * nat) :=
  match x with
  | SList [k; i] => match decode_kind k, atom_nat i with Some k, Some i => Some (k, i) | _, _ => None end
  | _ => None
  end.

Definition decode_entry (x : sexp) : option entry :=
  match x with
  | SList [k; Atom t; v; s] =>
      match atom_str k, atom_str v, atom_bool s with
      | Some k, Some v, Some s =>
          let val := if String.eqb t "s" then VStr v
                     else if String.eqb t "b" then VBool (String.eqb v "true")
                     else if String.eqb t "n" then VNum v
                     else if String.eqb t "z" then VNull
                     else VOther in
          Some (mk_entry k val s)
      | _, _, _ => None
      end
  | _ => None
  end.

Definition decode_pair (x : sexp) : option (string * string) :=
  match x with
  | SList [p; c] => match atom_str p, atom_str c with Some p, Some c => Some (p, c) | _, _ => None end
  | _ => None
  end.

(* an event the model cannot name decodes to [Some None] *)
Definition decode_event (x : sexp) : option (option event) :=
  match x with
  | SList [Atom k; p; r] =>
      match atom_str p with
      | None => None
      | Some p =>
          if String.eqb k "create" then
            match atom_bool r with Some true => Some (Some (EvCreate (Some p))) | Some false => Some (Some (EvCreate None))
                              | None => None end
          else if String.eqb k "write" then option_map (fun b => Some (EvWrite p b)) (atom_bool r)
          else if String.eqb k "close" then option_map (fun b => Some (EvClose p b)) (atom_bool r)
          else if String.eqb k "reclose" then Some (Some (EvReclose p))
          else if String.eqb k "run" then option_map (fun b => Some (EvRun b)) (atom_bool r)
          else if String.eqb k "remove" then
            match r with
            | Atom "ok" => Some (Some (EvRemove p RmOk))
            | Atom "fault" => Some (Some (EvRemove p RmFault))
            | Atom "missing" => Some (Some (EvRemove p RmMissing))
            | _ => None
            end
          else Some None
      end
  | _ => None
  end.

Definition decode_err (x : sexp) : oerr :=
  match x with
  | Atom "ok" => OErr EOk | Atom "lookpath" => OErr ELookPath | Atom "open" => OErr EOpen
  | Atom "prepare" => OErr EPrepare | Atom "start" => OErr EStart | Atom "exit" => OErr EExit
  | _ => OOther
  end.

Definition decode_open (x : sexp) : option open_mode :=
  match x with
  | Atom "ok" => Some OpenOk | Atom "err" => Some OpenErr | Atom "diags" => Some OpenDiags | _ => None
  end.

Definition decode_child (x : sexp) : option (option child_view) :=
  match x with
  | Atom "none" => Some None
  | SList [env; files] =>
      match slist_of atom_str env, slist_of decode_pair files with
      | Some env, Some files => Some (Some (mk_child_view env files))
      | _, _ => None
      end
  | _ => None
  end.

Definition decode_cfg (found open exit unlink base files vars : sexp) : option run_cfg :=
  match atom_bool found, decode_open open, atom_bool exit, atom_bool unlink with
  | Some found, Some open, Some exit, Some unlink =>
      match slist_of atom_str base, slist_of decode_entry files, slist_of decode_entry vars with
      | Some base, Some files, Some vars => Some (mk_run_cfg found open exit unlink base files vars)
      | _, _, _ => None
      end
  | _, _, _, _ => None
  end.

Definition decode (x : sexp) : option case :=
  match x with
  | SList [Atom op; pretend; SList [found; open; exit; unlink; base; files; vars]; faults; init;
           err; trace; final; child; paths; environ; secrets] =>
      match atom_bool pretend, decode_cfg found open exit unlink base files vars,
            slist_of decode_fault faults, slist_of decode_pair init with
      | Some pretend, Some cfg, Some faults, Some init =>
          match slist_of decode_event trace, slist_of decode_pair final, decode_child child with
          | Some trace, Some final, Some child =>
              match slist_of atom_str paths, slist_of atom_str environ, slist_of atom_str secrets with
              | Some paths, Some environ, Some secrets =>
                  if String.eqb op "run" || String.eqb op "prep" then
                    Some (mk_case (String.eqb op "run") pretend cfg faults init (decode_err err) trace final child
                                  paths environ secrets)
                  else None
              | _, _, _ => None
              end
          | _, _, _ => None
          end
      | _, _, _, _ => None
      end
  | _ => None
  end.

Definition verdict (c : case) : N :=
  verdict_bits (mismatch c) (spec_fail_new c) (spec_fail_known c) (nontrivial c).

Definition run_line : string -> string := run_with decode verdict.
