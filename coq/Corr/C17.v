(* Corr/C17.v — case type and predicates evaluated by the correspondence runner of C17. *)
From Verif Require Import Base.Bytes Model.Shell Src.SrcShell.

Definition params : shell_params :=
  {| sp_prefix := shell_line_prefix; sp_suffix := shell_line_suffix; sp_sep := env_pair_sep;
     sp_escaped := shell_escaped_bytes; sp_secret := secret_placeholder;
     sp_unknown_path := unknown_path_placeholder; sp_unknown_value := unknown_value_text |}.

(* ---- what a shell interpreter did with a script (projection made by the harness) ----
   [fin]: the interpreter reached the end of the script with status 0;
   [clean]: nothing was written, no file appeared, no external command or file open was attempted, no baseline
            variable disappeared, no unexported variable was set;
   [vars]: exported variables that differ from the interpreter's baseline or carry a name of the case, by name *)
Inductive shobs := ShSkip | ShObs (fin clean : bool) (vars : list (string * string)).

(* /bin/sh (dash), bash, mvdan.cc/sh *)
Record sh3 := { o_dash : shobs; o_bash : shobs; o_mvdan : shobs }.

Inductive case :=
| CRender (prefix : string) (vars files : list entry)
          (open_shell red_shell red_shell_alt show_shell open_dotenv red_dotenv red_dotenv_alt : string)
          (open_sh red_sh : sh3)
| CSh (script : string) (obs : sh3).

(* ---- helpers ---- *)
Definition pair_eqb (a b : string * string) : bool := String.eqb (fst a) (fst b) && String.eqb (snd a) (snd b).

Fixpoint pairs_eqb (a b : list (string * string)) : bool :=
  match a, b with
  | [], [] => true
  | x :: a', y :: b' => pair_eqb x y && pairs_eqb a' b'
  | _, _ => false
  end.

Definition has_key (k : string) (l : list (string * string)) : bool := existsb (fun kv => String.eqb k (fst kv)) l.

(* the environment after a sequence of exports: last export of a name wins; by name *)
Fixpoint dedup_last (l : list (string * string)) : list (string * string) :=
  match l with
  | [] => []
  | kv :: r => if has_key (fst kv) r then dedup_last r else kv :: dedup_last r
  end.

Definition final_env (l : list (string * string)) : list (string * string) := sort_by_key (dedup_last l).

Fixpoint dec_fuel (fuel : nat) (n : N) (acc : string) : string :=
  match fuel with
  | O => acc
  | S f => let acc' := String (ascii_of_N (48 + n mod 10)) acc in
           if n / 10 =? 0 then acc' else dec_fuel f (n / 10) acc'
  end.

(* the harness's in-memory file system names the i-th temporary file <prefix>esc-<i> *)
Definition path_of (prefix : string) (i : nat) : string := prefix +++ "esc-" +++ dec_fuel 20 (N.of_nat i) "".

(* ---- validation of the shell semantics: whenever [sh_eval] answers [Exports l], the interpreter must have done
        exactly that ---- *)
Definition obs_is (l : list (string * string)) (o : shobs) : bool :=
  match o with
  | ShSkip => true
  | ShObs fin clean vars => fin && clean && pairs_eqb vars (final_env l)
  end.

Definition sh_consistent (script : string) (o : sh3) : bool :=
  match sh_eval script with
  | Exports l => obs_is l (o_dash o) && obs_is l (o_bash o) && obs_is l (o_mvdan o)
  | OtherEffect => true
  end.

(* ---- implementation vs model ---- *)
Definition opt_neq (impl : string) (model : option string) : bool :=
  match model with Some t => negb (String.eqb impl t) | None => false end.

Definition mismatch (c : case) : bool :=
  match c with
  | CRender prefix vars files os rs rsa ss od rd rda osh rsh =>
      let po := path_of prefix in
      negb (String.eqb os (shell_script params false false po vars files))
      || negb (String.eqb rs (shell_script params true true po vars files))
      || negb (String.eqb rsa (shell_script params true true po vars files))
      || negb (String.eqb ss (shell_script params false true po vars files))
      || opt_neq od (dotenv_text params false false po vars files)
      || opt_neq rd (dotenv_text params true true po vars files)
      || opt_neq rda (dotenv_text params true true po vars files)
      || negb (sh_consistent os osh) || negb (sh_consistent rs rsh)
  | CSh script o => negb (sh_consistent script o)
  end.

(* ---- the property, evaluated on what the implementation's output did in real interpreters ---- *)

(* variables that dash or bash themselves treat specially (read-only, or assignments with side effects / magic values);
   exporting them is outside the property *)
Definition shell_magic_names : list string :=
  ["OPTIND"; "LINENO"; "PPID"; "UID"; "EUID"; "GROUPS"; "BASHOPTS"; "SHELLOPTS"; "BASHPID"; "BASH_VERSINFO";
   "RANDOM"; "SECONDS"; "SRANDOM"; "EPOCHSECONDS"; "EPOCHREALTIME"; "BASH_ARGV0"; "BASH_COMPAT"; "DIRSTACK"; "FUNCNAME";
   "HISTCMD"; "BASH_SUBSHELL"; "BASH_COMMAND"; "COMP_WORDBREAKS"; "POSIXLY_CORRECT"; "TMOUT"; "PWD"; "OLDPWD"; "SHLVL";
   "_"; "IFS"; "PATH"; "ENV"; "BASH_ENV"; "PS4"; "BASH_XTRACEFD"; "LANG"; "LC_ALL"; "LC_CTYPE"; "LC_COLLATE";
   "LC_MESSAGES"; "LC_NUMERIC"; "TZ"; "MAIL"; "MAILPATH"; "MAILCHECK"; "HISTFILE"; "HISTSIZE"; "HISTFILESIZE"; "TERM";
   "CDPATH"; "GLOBIGNORE"; "BASH_LOADABLES_PATH"; "EXECIGNORE"; "FIGNORE"; "OPTERR"; "OPTARG"].

Definition name_in_scope (k : string) : bool :=
  valid_name k && negb (existsb (String.eqb k) shell_magic_names).

Fixpoint distinct (l : list string) : bool :=
  match l with [] => true | k :: r => negb (existsb (String.eqb k) r) && distinct r end.

(* the scalar entries with their intended values *)
Definition scalar_list (es : list entry) : list (string * (string * bool)) := scalars params es.

(* the case is inside the property's quantifier: valid (non-magic) distinct names, no NUL byte anywhere *)
Definition in_scope (prefix : string) (vars files : list entry) : bool :=
  let vs := scalar_list vars in
  let fs := scalar_list files in
  forallb (fun kv => name_in_scope (fst kv) && no_nul (fst (snd kv))) vs
  && forallb (fun kv => name_in_scope (fst kv)) fs
  && distinct (map fst vs ++ map fst fs) && no_nul prefix.

Definition lookup_obs (k : string) (vars : list (string * string)) : option string :=
  match filter (fun kv => String.eqb k (fst kv)) vars with [kv] => Some (snd kv) | _ => None end.

Definition opt_str_eqb (a : option string) (b : string) : bool :=
  match a with Some x => String.eqb x b | None => false end.

(* one interpreter did what the property demands: finished, nothing else happened, every scalar variable has
   exactly its value ([redact]: the placeholder for secrets), every file variable one of the admissible paths,
   no other variable was touched *)
Definition obs_ok (redact pretend : bool) (prefix : string) (vars files : list entry) (o : shobs) : bool :=
  match o with
  | ShSkip => true
  | ShObs fin clean ovars =>
      let vs := scalar_list vars in
      let fs := scalar_list files in
      let paths := if pretend then [unknown_path_placeholder]
                   else map (path_of prefix) (seq 0 (length fs)) in
      fin && clean
      && forallb (fun kv => opt_str_eqb (lookup_obs (fst kv) ovars)
                              (if snd (snd kv) && redact then secret_placeholder else fst (snd kv))) vs
      && forallb (fun kv => match lookup_obs (fst kv) ovars with
                            | Some v => existsb (String.eqb v) paths
                            | None => false
                            end) fs
      && forallb (fun kv => existsb (String.eqb (fst kv)) (map fst vs ++ map fst fs)) ovars
  end.

Definition obs3_ok (redact pretend : bool) (prefix : string) (vars files : list entry) (o : sh3) : bool :=
  obs_ok redact pretend prefix vars files (o_dash o) && obs_ok redact pretend prefix vars files (o_bash o)
  && obs_ok redact pretend prefix vars files (o_mvdan o).

Definition spec_fail (c : case) : bool :=
  match c with
  | CRender prefix vars files os rs rsa ss od rd rda osh rsh =>
      (* hidden secrets: the output must be the same whatever the secret values are *)
      negb (String.eqb rs rsa) || negb (String.eqb rd rda)
      || (in_scope prefix vars files
          && (negb (obs3_ok false false prefix vars files osh) || negb (obs3_ok true true prefix vars files rsh)))
  | CSh _ _ => false
  end.

(* no recorded known finding for C17 (the quoting defect is repaired) *)
Definition known (c : case) : bool := false.

Definition spec_fail_new (c : case) : bool := spec_fail c && negb (known c).
Definition spec_fail_known (c : case) : bool := spec_fail c && known c.

Definition benign_byte (n : N) : bool := (32 <=? n) && (n <=? 126) && negb (n =? 36) && negb (n =? 96).

Definition nontrivial (c : case) : bool :=
  match c with
  | CRender prefix vars files _ _ _ _ _ _ _ _ _ =>
      in_scope prefix vars files
      && existsb (fun kv => negb (forallb benign_byte (bytes_of (fst (snd kv))))) (scalar_list vars)
  | CSh script _ => match sh_eval script with Exports (_ :: _) => true | _ => false end
  end.

(* ---- wire format ---- *)
From Verif Require Import Base.Wire.

Definition decode_kind (x : sexp) : option vkind :=
  match x with
  | Atom "null" => Some KNull | Atom "bool" => Some KBool | Atom "num" => Some KNum | Atom "str" => Some KStr
  | Atom "other" => Some KOther | _ => None
  end.

Definition decode_entry (x : sexp) : option entry :=
  match x with
  | SList [k; kind; t; s; u] =>
      match atom_str k, decode_kind kind, atom_str t, atom_bool s, atom_bool u with
      | Some k, Some kind, Some t, Some s, Some u =>
          Some {| e_key := k; e_kind := kind; e_text := t; e_secret := s; e_unknown := u |}
      | _, _, _, _, _ => None
      end
  | _ => None
  end.

Definition decode_pair (x : sexp) : option (string * string) :=
  match x with
  | SList [k; v] => match atom_str k, atom_str v with Some k, Some v => Some (k, v) | _, _ => None end
  | _ => None
  end.

Definition decode_obs (x : sexp) : option shobs :=
  match x with
  | Atom "skip" => Some ShSkip
  | SList [f; c; vs] =>
      match atom_bool f, atom_bool c, slist_of decode_pair vs with
      | Some f, Some c, Some vs => Some (ShObs f c vs)
      | _, _, _ => None
      end
  | _ => None
  end.

Definition decode_sh3 (x : sexp) : option sh3 :=
  match x with
  | SList [d; b; m] =>
      match decode_obs d, decode_obs b, decode_obs m with
      | Some d, Some b, Some m => Some {| o_dash := d; o_bash := b; o_mvdan := m |}
      | _, _, _ => None
      end
  | _ => None
  end.

Definition decode (x : sexp) : option case :=
  match x with
  | SList [Atom "render"; prefix; vars; files; SList [os; rs; rsa; ss; od; rd; rda]; osh; rsh] =>
      match atom_str prefix, slist_of decode_entry vars, slist_of decode_entry files with
      | Some prefix, Some vars, Some files =>
          match map_opt atom_str [os; rs; rsa; ss; od; rd; rda], decode_sh3 osh, decode_sh3 rsh with
          | Some [os; rs; rsa; ss; od; rd; rda], Some osh, Some rsh =>
              Some (CRender prefix vars files os rs rsa ss od rd rda osh rsh)
          | _, _, _ => None
          end
      | _, _, _ => None
      end
  | SList [Atom "sh"; script; o] =>
      match atom_str script, decode_sh3 o with Some s, Some o => Some (CSh s o) | _, _ => None end
  | _ => None
  end.

Definition verdict (c : case) : N :=
  verdict_bits (mismatch c) (spec_fail_new c) (spec_fail_known c) (nontrivial c).

Definition run_line : string -> string := run_with decode verdict.

(* what the model computes for a render case (used by --replay to show the model side) *)
Definition model_show (c : case) : list (option string) :=
  match c with
  | CRender prefix vars files _ _ _ _ _ _ _ _ _ =>
      let po := path_of prefix in
      [Some (to_hex (shell_script params false false po vars files));
       Some (to_hex (shell_script params true true po vars files));
       match dotenv_text params false false po vars files with Some t => Some (to_hex t) | None => None end]
  | CSh script _ =>
      [match sh_eval script with
       | Exports l => Some (to_hex (concat_lines (fun kv => fst kv +++ "=" +++ snd kv +++ lf) (final_env l)))
       | OtherEffect => None
       end]
  end.
