(* Corr/C17.v — case type and predicates evaluated by the correspondence runner of C17. *)
From Verif Require Import Base.Bytes Model.Shell Src.SrcShell.

Definition params : shell_params :=
  {| sp_prefix := shell_line_prefix; sp_suffix := shell_line_suffix; sp_sep := env_pair_sep;
     sp_escaped := shell_escaped_bytes; sp_secret := secret_placeholder;
     sp_unknown_path := unknown_path_placeholder; sp_unknown_value := unknown_value_text |}.

(* ---- what a shell interpreter did with a script (projection made by the harness) ----
   [fin]: the interpreter reached the end of the script with status 0;
   [clean]: nothing was written, no file appeared, no external command or file open was attempted, no baseline
            variable disappeared, no unexported variable was set;
   [vars]: exported variables that differ from the interpreter's baseline or carry a name of the case, by name.
   [ShSkip]: the interpreter gave no verdict (NUL byte, a script its parser cannot read, time-out on a loaded
   machine): never counted as a pass — see [judged]. *)
Inductive shobs := ShSkip | ShObs (fin clean : bool) (vars : list (string * string)).

(* /bin/sh (dash), bash, mvdan.cc/sh *)
Record sh3 := { o_dash : shobs; o_bash : shobs; o_mvdan : shobs }.

(* the eight renderings of one environment *)
Record outs := {
  r_open_shell : string;      (* esc open --format shell *)
  r_red_shell : string;       (* esc env get --value shell                       (secrets hidden) *)
  r_red_shell_alt : string;   (* the same for the environment with other secret values *)
  r_show_shell : string;      (* esc env get --value shell --show-secrets *)
  r_open_dotenv : string;     (* esc env open --format dotenv *)
  r_red_dotenv : string;      (* esc env get --value dotenv *)
  r_red_dotenv_alt : string;
  r_show_dotenv : string      (* esc env get --value dotenv --show-secrets *)
}.

(* [via_cli]: the renderings are the stdout of the real commands (cli.New + cobra, fake backend); otherwise they come
   from renderValue called directly with the flags the commands are supposed to pass.  Same predicates for both. *)
Inductive case :=
| CRender (via_cli : bool) (prefix : string) (vars files : list entry) (o : outs) (open_sh red_sh : sh3)
| CSh (script : string) (obs : sh3).

(* ---- helpers ---- *)
Definition pair_eqb (a b : string * string) : bool := String.eqb (fst a) (fst b) && String.eqb (snd a) (snd b).

Fixpoint pairs_eqb (a b : list (string * string)) : bool :=
  match a, b with
  | [], [] => true
  | x :: a', y :: b' => pair_eqb x y && pairs_eqb a' b'
  | _, _ => false
  end.

Definition has_key (k : string) (l : list (string * string)) : bool := existsb (fun kv => String.eqb k (fst kv)) l.

(* the environment after a sequence of exports: last export of a name wins; by name *)
Fixpoint dedup_last (l : list (string * string)) : list (string * string) :=
  match l with
  | [] => []
  | kv :: r => if has_key (fst kv) r then dedup_last r else kv :: dedup_last r
  end.

Definition final_env (l : list (string * string)) : list (string * string) := sort_by_key (dedup_last l).

Fixpoint dec_fuel (fuel : nat) (n : N) (acc : string) : string :=
  match fuel with
  | O => acc
  | S f => let acc' := String (ascii_of_N (48 + n mod 10)) acc in
           if n / 10 =? 0 then acc' else dec_fuel f (n / 10) acc'
  end.

(* the harness's in-memory file system names the i-th temporary file <prefix>esc-<i> *)
Definition path_of (prefix : string) (i : nat) : string := prefix +++ "esc-" +++ dec_fuel 20 (N.of_nat i) "".

(* ---- validation of the shell semantics: whenever [sh_eval_in <the interpreter's special names>] answers
        [Exports l], that interpreter must have done exactly that ---- *)
Definition obs_is (fe : list (string * string)) (o : shobs) : bool :=
  match o with
  | ShSkip => true
  | ShObs fin clean vars => fin && clean && pairs_eqb vars fe
  end.

(* Verdict of one interpreter on one question: no verdict / as demanded / deviating.  dash and bash are the
   reference interpreters.  mvdan.cc/sh is a third voice with known parser quirks (it drops backslash-CR-LF, keeps the
   backslash of unquoted escapes, ...): when BOTH reference interpreters were asked, answered and agree with what is
   demanded, a deviation of mvdan.cc/sh alone is an interpreter quirk, not a failure (counted by the harness:
   distribution.interpreter_quirks); whenever one of the reference interpreters has no verdict, mvdan.cc/sh counts. *)
Inductive tri := TNone | TOk | TBad.

Definition deviates (d b m : tri) : bool :=
  match d, b, m with
  | TBad, _, _ => true
  | _, TBad, _ => true
  | TOk, TOk, TBad => false
  | _, _, TBad => true
  | _, _, _ => false
  end.

Definition tri_is (special : bool) (fe : list (string * string)) (o : shobs) : tri :=
  if special then TNone
  else match o with ShSkip => TNone | _ => if obs_is fe o then TOk else TBad end.

Definition sh_consistent (script : string) (o : sh3) : bool :=
  match sh_eval script with
  | Exports l =>
      let fe := final_env l in
      negb (deviates (tri_is (exports_special dash_special l) fe (o_dash o))
                     (tri_is (exports_special bash_special l) fe (o_bash o))
                     (tri_is (exports_special mvdan_special l) fe (o_mvdan o)))
  | OtherEffect => true
  end.

(* ---- implementation vs model ---- *)
Definition opt_neq (impl : string) (model : option string) : bool :=
  match model with Some t => negb (String.eqb impl t) | None => false end.

Definition mismatch (c : case) : bool :=
  match c with
  | CRender _ prefix vars files o osh rsh =>
      let po := path_of prefix in
      let hidden := shell_script params true true po vars files in
      let hidden_d := dotenv_text params true true po vars files in
      negb (String.eqb (r_open_shell o) (shell_script params false false po vars files))
      || negb (String.eqb (r_red_shell o) hidden)
      || negb (String.eqb (r_red_shell_alt o) hidden)
      || negb (String.eqb (r_show_shell o) (shell_script params false true po vars files))
      || opt_neq (r_open_dotenv o) (dotenv_text params false false po vars files)
      || opt_neq (r_red_dotenv o) hidden_d
      || opt_neq (r_red_dotenv_alt o) hidden_d
      || opt_neq (r_show_dotenv o) (dotenv_text params false true po vars files)
      || negb (sh_consistent (r_open_shell o) osh) || negb (sh_consistent (r_red_shell o) rsh)
  | CSh script o => negb (sh_consistent script o)
  end.

(* ---- the property, evaluated on what the implementation's output did in real interpreters ---- *)

(* the scalar entries with their intended values *)
Definition scalar_list (es : list entry) : list (string * (string * bool)) := scalars params es.

(* the case is inside the property's quantifier FOR ONE INTERPRETER (special names [sp]): valid names that are
   ordinary variables in that interpreter, no NUL byte in a value or path.  Key collisions are NOT excluded. *)
Definition in_scope (sp : list string) (prefix : string) (vars files : list entry) : bool :=
  let vs := scalar_list vars in
  let fs := scalar_list files in
  forallb (fun kv => valid_name (fst kv) && negb (mem_str (fst kv) sp) && no_nul (fst (snd kv))) vs
  && forallb (fun kv => valid_name (fst kv) && negb (mem_str (fst kv) sp)) fs
  && no_nul prefix.

Definition lookup_obs (k : string) (vars : list (string * string)) : option string :=
  match filter (fun kv => String.eqb k (fst kv)) vars with [kv] => Some (snd kv) | _ => None end.

Definition opt_str_eqb (a : option string) (b : string) : bool :=
  match a with Some x => String.eqb x b | None => false end.

(* one interpreter did what the property demands: finished, nothing else happened, every scalar variable has
   exactly its value ([redact]: the placeholder for secrets), every file variable one of the admissible paths,
   no other variable was touched.  Names in [excl] are not looked at (used only to delimit the known finding). *)
Definition obs_ok (excl : list string) (redact pretend : bool) (prefix : string) (vars files : list entry) (o : shobs)
  : bool :=
  match o with
  | ShSkip => true
  | ShObs fin clean ovars =>
      let vs := scalar_list vars in
      let fs := scalar_list files in
      let names := map fst vs ++ map fst fs in
      let paths := if pretend then [unknown_path_placeholder]
                   else map (path_of prefix) (seq 0 (length fs)) in
      fin && clean
      && forallb (fun kv => mem_str (fst kv) excl
                            || opt_str_eqb (lookup_obs (fst kv) ovars)
                                 (if snd (snd kv) && redact then secret_placeholder else fst (snd kv))) vs
      && forallb (fun kv => mem_str (fst kv) excl
                            || match lookup_obs (fst kv) ovars with
                               | Some v => existsb (String.eqb v) paths
                               | None => false
                               end) fs
      && forallb (fun kv => mem_str (fst kv) names) ovars
  end.

Definition observed (o : shobs) : bool := match o with ShSkip => false | ShObs _ _ _ => true end.

Definition interp_tri (excl sp : list string) (prefix : string) (vars files : list entry) (osh rsh : shobs) : tri :=
  if in_scope sp prefix vars files
  then if negb (obs_ok excl false false prefix vars files osh) || negb (obs_ok excl true true prefix vars files rsh)
       then TBad
       else if observed osh && observed rsh then TOk else TNone
  else TNone.

(* ---- redaction: with secrets hidden a secret value appears nowhere ----
   Checked as INDEPENDENCE: the hidden renderings of the environment and of the same environment with every secret value
   replaced by another one (the generator guarantees: a different text of a different length that shares no 6-byte
   substring with it) are byte-identical - so nothing that depends on a secret value, be it the value, a part, its quoted
   form or its length, is in them.  (A direct substring search for the secret was tried and dropped: the syntax around a
   public value can spell a short secret by coincidence - an equals sign, a quote and the public value - and a check
   must not alarm on correct code.) *)
Definition redaction_fail (vars files : list entry) (o : outs) : bool :=
  negb (String.eqb (r_red_shell o) (r_red_shell_alt o)) || negb (String.eqb (r_red_dotenv o) (r_red_dotenv_alt o)).

Definition spec_fail_with (excl : list string) (c : case) : bool :=
  match c with
  | CRender _ prefix vars files o osh rsh =>
      redaction_fail vars files o
      || deviates (interp_tri excl dash_special prefix vars files (o_dash osh) (o_dash rsh))
                  (interp_tri excl bash_special prefix vars files (o_bash osh) (o_bash rsh))
                  (interp_tri excl mvdan_special prefix vars files (o_mvdan osh) (o_mvdan rsh))
  | CSh _ _ => false
  end.

Definition spec_fail (c : case) : bool := spec_fail_with [] c.

(* known finding C17-file-shadows-variable (class Model.Shell.kf_file_shadows): a key that is a scalar entry of both
   environmentVariables and files is exported twice and the file's path wins.  A failure counts as THIS finding only
   if (DESIGN 6, rule 2) the model predicts exactly what the implementation printed, and nothing is wrong with any
   other name or with the redaction *)
Definition collisions (vars files : list entry) : list string :=
  filter (shadowed params files) (map fst (scalar_list vars)).

Definition known (c : case) : bool :=
  match c with
  | CRender _ prefix vars files o osh rsh =>
      if kf_file_shadows params vars files
      then negb (mismatch c) && negb (spec_fail_with (collisions vars files) c)
      else false
  | CSh _ _ => false
  end.

Definition spec_fail_new (c : case) : bool := spec_fail c && negb (known c).
Definition spec_fail_known (c : case) : bool := spec_fail c && known c.

Definition benign_byte (n : N) : bool := (32 <=? n) && (n <=? 126) && negb (n =? 36) && negb (n =? 96).

(* at least one interpreter for which the case is in scope evaluated both scripts: a case nobody judged is never
   counted as a (non-trivial) pass *)
Definition judged (prefix : string) (vars files : list entry) (osh rsh : sh3) : bool :=
  (in_scope dash_special prefix vars files && observed (o_dash osh) && observed (o_dash rsh))
  || (in_scope bash_special prefix vars files && observed (o_bash osh) && observed (o_bash rsh))
  || (in_scope mvdan_special prefix vars files && observed (o_mvdan osh) && observed (o_mvdan rsh)).

Definition nontrivial (c : case) : bool :=
  match c with
  | CRender _ prefix vars files _ osh rsh =>
      judged prefix vars files osh rsh
      && existsb (fun kv => negb (forallb benign_byte (bytes_of (fst (snd kv))))) (scalar_list vars)
  | CSh script o =>
      match sh_eval script with
      | Exports (_ :: _) => observed (o_dash o) || observed (o_bash o) || observed (o_mvdan o)
      | _ => false
      end
  end.

(* ---- wire format ---- *)
From Verif Require Import Base.Wire.

Definition decode_kind (x : sexp) : option vkind :=
  match x with
  | Atom "null" => Some KNull | Atom "bool" => Some KBool | Atom "num" => Some KNum | Atom "str" => Some KStr
  | Atom "other" => Some KOther | _ => None
  end.

Definition decode_entry (x : sexp) : option entry :=
  match x with
  | SList [k; kind; t; s; u] =>
      match atom_str k, decode_kind kind, atom_str t, atom_bool s, atom_bool u with
      | Some k, Some kind, Some t, Some s, Some u =>
          Some {| e_key := k; e_kind := kind; e_text := t; e_secret := s; e_unknown := u |}
      | _, _, _, _, _ => None
      end
  | _ => None
  end.

Definition decode_pair (x : sexp) : option (string * string) :=
  match x with
  | SList [k; v] => match atom_str k, atom_str v with Some k, Some v => Some (k, v) | _, _ => None end
  | _ => None
  end.

Definition decode_obs (x : sexp) : option shobs :=
  match x with
  | Atom "skip" => Some ShSkip
  | SList [f; c; vs] =>
      match atom_bool f, atom_bool c, slist_of decode_pair vs with
      | Some f, Some c, Some vs => Some (ShObs f c vs)
      | _, _, _ => None
      end
  | _ => None
  end.

Definition decode_sh3 (x : sexp) : option sh3 :=
  match x with
  | SList [d; b; m] =>
      match decode_obs d, decode_obs b, decode_obs m with
      | Some d, Some b, Some m => Some {| o_dash := d; o_bash := b; o_mvdan := m |}
      | _, _, _ => None
      end
  | _ => None
  end.

Definition decode_outs (x : sexp) : option outs :=
  match slist_of atom_str x with
  | Some [os; rs; rsa; ss; od; rd; rda; sd] =>
      Some {| r_open_shell := os; r_red_shell := rs; r_red_shell_alt := rsa; r_show_shell := ss;
              r_open_dotenv := od; r_red_dotenv := rd; r_red_dotenv_alt := rda; r_show_dotenv := sd |}
  | _ => None
  end.

Definition decode_render (via_cli : bool) (prefix vars files o osh rsh : sexp) : option case :=
  match atom_str prefix, slist_of decode_entry vars, slist_of decode_entry files with
  | Some prefix, Some vars, Some files =>
      match decode_outs o, decode_sh3 osh, decode_sh3 rsh with
      | Some o, Some osh, Some rsh => Some (CRender via_cli prefix vars files o osh rsh)
      | _, _, _ => None
      end
  | _, _, _ => None
  end.

Definition decode (x : sexp) : option case :=
  match x with
  | SList [Atom "render"; prefix; vars; files; o; osh; rsh] => decode_render false prefix vars files o osh rsh
  | SList [Atom "cli"; prefix; vars; files; o; osh; rsh] => decode_render true prefix vars files o osh rsh
  | SList [Atom "sh"; script; o] =>
      match atom_str script, decode_sh3 o with Some s, Some o => Some (CSh s o) | _, _ => None end
  | _ => None
  end.

(* a wire line carries one case or `(both A B)`: the same environment through renderValue and through the commands *)
Definition decode_line (x : sexp) : option (list case) :=
  match x with
  | SList (Atom "both" :: l) => map_opt decode l
  | _ => match decode x with Some c => Some [c] | None => None end
  end.

(* (mismatch, spec_fail_new, spec_fail_known, nontrivial) of one case, each predicate evaluated once *)
Definition judge (c : case) : bool * bool * bool * bool :=
  let sf := spec_fail c in
  let kn := if sf then known c else false in
  (mismatch c, sf && negb kn, sf && kn, nontrivial c).

Lemma judge_spec c : judge c = (mismatch c, spec_fail_new c, spec_fail_known c, nontrivial c).
Proof. unfold judge, spec_fail_new, spec_fail_known. destruct (spec_fail c); reflexivity. Qed.

Definition verdict (l : list case) : N :=
  let js := map judge l in
  verdict_bits (existsb (fun j => fst (fst (fst j))) js) (existsb (fun j => snd (fst (fst j))) js)
               (existsb (fun j => snd (fst j)) js) (existsb snd js).

Definition run_line : string -> string := run_with decode_line verdict.

(* what the model computes for a render case (used by --replay to show the model side) *)
Definition model_show (c : case) : list (option string) :=
  match c with
  | CRender _ prefix vars files _ _ _ =>
      let po := path_of prefix in
      [Some (to_hex (shell_script params false false po vars files));
       Some (to_hex (shell_script params true true po vars files));
       match dotenv_text params false false po vars files with Some t => Some (to_hex t) | None => None end]
  | CSh script _ =>
      [match sh_eval script with
       | Exports l => Some (to_hex (concat_lines (fun kv => fst kv +++ "=" +++ snd kv +++ lf) (final_env l)))
       | OtherEffect => None
       end]
  end.
