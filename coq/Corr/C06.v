(* Corr/C06.v — checking has no effects and soundly approximates opening. *)
From Verif Require Import Base.Bytes Base.Wire Model.Chain Model.Eval Corr.EvalWire.
From Verif Require Corr.C06Schema.     (* the schema clause: check's Environment.Schema accepts the opened value (vspec) *)

Record case := {
  c_name : string; c_def : envdef; c_world : world;     (* the world's own mode flags are ignored *)
  c_check : iobs;        (* CheckEnvironment, showSecrets = false *)
  c_checkshow : iobs;    (* CheckEnvironment, showSecrets = true *)
  c_open : iobs          (* EvalEnvironment *)
}.

Definition with_mode (W : world) (check show : bool) : world :=
  {| w_envs := w_envs W; w_provs := w_provs W; w_ctx := w_ctx W; w_check := check; w_show := show;
     w_fault := w_fault W; w_decrypt := w_decrypt W |}.

Definition x_unk (v : xval) : bool := match v with XScalar _ u _ | XArr _ u _ | XObj _ u _ => u end.
Definition x_sec (v : xval) : bool := match v with XScalar s _ _ | XArr s _ _ | XObj s _ _ => s end.

(* the property's approximation relation: [c] is what check reports, [o] what open produces *)
Fixpoint approx (fuel : nat) (c o : xval) : bool :=
  match fuel with
  | O => false
  | S f =>
    if x_unk c then true
    else match c, o with
         | XScalar s _ x, XScalar s' u' y => negb u' && Bool.eqb s s' && scalar_eqb x y
         | XArr _ _ l, XArr _ u' l' =>
             negb u' && Nat.eqb (length l) (length l') && forallb (fun p => approx f (fst p) (snd p)) (combine l l')
         | XObj _ _ m, XObj _ u' m' =>
             negb u' && forallb (fun kv => match alookup (fst kv) m' with
                                           | Some v' => approx f (snd kv) v'
                                           | None => false
                                           end) m
         | _, _ => false
         end
  end.

Definition has_open (lg : list oev) : bool := existsb (fun e => match e with OOpen _ _ _ _ => true | _ => false end) lg.
Definition has_decrypt (lg : list oev) : bool := existsb (fun e => match e with ODecrypt _ _ => true | _ => false end) lg.

Definition approx_obs (c o : iobs) : bool :=
  match c, o with
  | IObs (Some a) _ _, IObs (Some b) _ _ => approx (S (x_depth a)) a b
  | IObs None _ _, IObs None _ _ => true
  | _, _ => false
  end.

Definition spec_fail (c : case) : bool :=
  match c_check c, c_checkshow c, c_open c with
  | IObs _ _ lg1, IObs _ _ lg2, IObs _ _ _ =>
      has_open lg1 || has_decrypt lg1 || has_open lg2
      || negb (approx_obs (c_check c) (c_open c)) || negb (approx_obs (c_checkshow c) (c_open c))
  | ILoadErr, _, _ => false
  | _, _, _ => true
  end.

Definition mismatch (c : case) : bool :=
  let cmp chk show o := match compare_run (with_mode (c_world c) chk show) (c_name c) (c_def c) o with CmpDiff => true | _ => false end in
  cmp true false (c_check c) || cmp true true (c_checkshow c) || cmp false false (c_open c).

(* known finding C06-tojson-merged: keys() stops at an unknown base, so while checking, fn::toJSON of an object merged over a
   provider output (or undisclosed ciphertext) serialises the partial object as if it were complete: check invents a value
   (theorem C06_check_approx_open_refuted).  Class: some environment of the world applies fn::toJSON, some environment
   has a merged import, and some environment uses fn::open or a ciphertext secret. *)
Fixpoint expr_any (p : expr -> bool) (fuel : nat) (e : expr) : bool :=
  match fuel with
  | O => false
  | S f =>
    p e || match e with
           | EArr l => existsb (expr_any p f) l
           | EObj kvs => existsb (fun kv => expr_any p f (snd kv)) kvs
           | EJoin a b => expr_any p f a || expr_any p f b
           | EToJSON a | EFromJSON a | EToString a | EToB64 a | EFromB64 a => expr_any p f a
           | EOpen _ a => expr_any p f a
           | _ => false
           end
  end.

Definition defs_of (c : case) : list envdef :=
  c_def c :: concat (map (fun ne => match snd ne with LoadOk d => [d] | _ => [] end) (w_envs (c_world c))).

Definition known (c : case) : bool :=
  let ds := defs_of c in
  let any p := existsb (fun d => existsb (fun kv => expr_any p wire_fuel (snd kv)) (ed_values d)) ds in
  any (fun e => match e with EToJSON _ => true | _ => false end)
  && existsb (fun d => existsb (fun im => snd im) (ed_imports d)) ds
  && any (fun e => match e with EOpen _ _ | ESecretCipher _ => true | _ => false end).
(* a failure counts as the RECORDED finding only when the model - which reproduces that finding - predicts exactly what the
   implementation did on this case; any further deviation makes it a new failure with this input as the replay *)
Definition spec_fail_new (c : case) : bool := spec_fail c && negb (known c && negb (mismatch c)).
Definition spec_fail_known (c : case) : bool := spec_fail c && known c && negb (mismatch c).

(* non-trivial: check really knows less than open somewhere, or a provider / ciphertext is involved *)
Definition nontrivial (c : case) : bool :=
  match c_open c with IObs _ _ lg => has_open lg || has_decrypt lg | _ => false end.

Definition decode_main (x : sexp) : option case :=
  match x with
  | SList [Atom "c06"; n; d; w; o1; o2; o3] =>
      match atom_str n, dec_envdef d, dec_world w with
      | Some n, Some d, Some w =>
          match dec_obs o1, dec_obs o2, dec_obs o3 with
          | Some o1, Some o2, Some o3 =>
              Some {| c_name := n; c_def := d; c_world := w; c_check := o1; c_checkshow := o2; c_open := o3 |}
          | _, _, _ => None
          end
      | _, _, _ => None
      end
  | _ => None
  end.

Definition verdict_main (c : case) : N :=
  verdict_bits (mismatch c) (spec_fail_new c) (spec_fail_known c) (nontrivial c).

(* dispatch: the main line may carry the schema part (Corr/C06Schema.v) as an eighth element; the other line kinds
   (schema-only cases, classification and model-vs-implementation measurements) are decoded there *)
Inductive anycase := CMain (c : case) (s : option C06Schema.scase) | COther (o : C06Schema.ocase).

Definition decode (x : sexp) : option anycase :=
  match x with
  | SList [Atom "c06"; _; _; _; _; _; _] => option_map (fun c => CMain c None) (decode_main x)
  | SList [Atom "c06"; n; d; w; o1; o2; o3; s] =>
      match decode_main (SList [Atom "c06"; n; d; w; o1; o2; o3]), C06Schema.dec_scase s with
      | Some c, Some s' => Some (CMain c (Some s'))
      | _, _ => None
      end
  | _ => option_map COther (C06Schema.decode_other x)
  end.

Definition verdict (a : anycase) : N :=
  match a with
  | CMain c None => verdict_main c
  | CMain c (Some s) =>
      (* the model's schema of the root value against the implementation's, in all three runs, is part of the mismatch bit
         OUTSIDE C06Schema.hist_class (schemas that depend on how often a value has been merged: the model does not follow
         Go's mutable per-value schema field there; inside the class the comparison is only a measurement, see C06Schema.v);
         the schema clause itself is decided by the vspec oracle on the implementation's own schema (fail_new below) *)
      verdict_bits (mismatch c || C06Schema.sch_mismatch (c_world c) (c_name c) (c_def c) s)
                   (spec_fail_new c || C06Schema.fail_new_w (c_world c) (c_name c) (c_def c) s)
                   (spec_fail_known c || C06Schema.fail_known_w (c_world c) (c_name c) (c_def c) s)
                   (nontrivial c || C06Schema.decided s)
  | COther o => C06Schema.verdict_other o
  end.

Definition run_line : string -> string := run_with decode verdict.
