(* Corr/C15.v — case type and predicates evaluated by the correspondence check of C15.
   A case is a definition (as parsed by yaml.v3) and a sequence of operations, each with what the implementation
   did: status, the stored definition re-parsed, and what Get finds at the path. *)
From Verif Require Import Base.Bytes Base.Wire Model.YamlEdit Src.SrcYamlEdit.

(* ---- the parameters srcfacts read from syntax/encoding/yaml.go ---- *)
Definition params_of_src : params :=
  mk_params set_copies_content set_copies_kind set_copies_tag set_copies_value
            set_style_code set_moves_line_comment fixes_key_line_comment rm_handles_imports
            rm_guards_empty_path rm_values_from_root
            delete_empty_code delete_missing_code.

(* ---- comparison of trees up to presentation ----
   scalars: effective tag, value, line comment; collections: kind, line comment, children (their own tag and style
   are presentation: "{}" and a block mapping are the same mapping).

   Head and foot comments are compared at the level of the TEXT, not of the node they hang on: yaml.v3 decides at
   read time which node a free-standing comment belongs to (a comment block after the last entry of a nested
   collection is the foot comment of the innermost last key; after an empty "{}" it is the head comment of the next
   key; the blank line after a head comment is not written back), so the same text is read back with the comment on
   another node after an unrelated edit.  What does not depend on that choice is the ORDER of the comment lines
   relative to the keys and scalars of the definition: [tokens] is that sequence (document order; one token per key,
   per scalar, per non-empty comment line), and two trees are the same if they agree node by node without head and
   foot comments AND have the same token sequence. *)
Fixpoint norm (n : node) : node :=
  match n with
  | Node k tag st v h l f c =>
    match k with
    | KScalar => Node KScalar (eff_tag tag st) 0 v "" l "" []
    | KSeq | KMap | KDoc => Node k "" 0 "" "" l "" (map norm c)
    | _ => Node k "" 0 "" "" "" "" []
    end
  end.

Fixpoint node_eqb (a b : node) : bool :=
  match a, b with
  | Node k1 t1 s1 v1 h1 l1 f1 c1, Node k2 t2 s2 v2 h2 l2 f2 c2 =>
      kind_eqb k1 k2 && String.eqb t1 t2 && (s1 =? s2) && String.eqb v1 v2
      && String.eqb h1 h2 && String.eqb l1 l2 && String.eqb f1 f2
      && (fix list_eqb (x : list node) (y : list node) {struct x} : bool :=
            match x, y with
            | [], [] => true
            | p :: x', q :: y' => node_eqb p q && list_eqb x' y'
            | _, _ => false
            end) c1 c2
  end.

(* same nodes, head and foot comments aside *)
Definition same_tree (a b : node) : bool := node_eqb (norm a) (norm b).

Inductive tok := TK (s : string) | TC (s : string) | THole.

Definition tok_eqb (a b : tok) : bool :=
  match a, b with
  | TK x, TK y | TC x, TC y => String.eqb x y
  | THole, THole => true
  | _, _ => false
  end.

Fixpoint toks_eqb (a b : list tok) : bool :=
  match a, b with
  | [], [] => true
  | x :: a', y :: b' => tok_eqb x y && toks_eqb a' b'
  | _, _ => false
  end.

(* the non-empty lines of a comment, last line first in [acc] *)
Fixpoint comment_lines_acc (s : string) (cur : string) (acc : list string) : list string :=
  match s with
  | EmptyString => if String.eqb cur "" then acc else cur :: acc
  | String ch r =>
      if Ascii.eqb ch "010"%char then comment_lines_acc r "" (if String.eqb cur "" then acc else cur :: acc)
      else comment_lines_acc r (cur +++ String ch EmptyString) acc
  end.

Definition cm (s : string) : list tok := map TC (rev (comment_lines_acc s "" [])).

Fixpoint tokens (n : node) : list tok :=
  match n with
  | Node k _ _ v h _ f c =>
    cm h ++
    match k with
    | KScalar | KAlias => [TK v]
    | KMap => (fix go (l : list node) : list tok :=
                 match l with
                 | kn :: vn :: r => cm (nhc kn) ++ [TK (nvalue kn)] ++ tokens vn ++ cm (nfc kn) ++ go r
                 | _ => []
                 end) c
    | KSeq | KDoc => (fix go (l : list node) : list tok :=
                        match l with x :: r => tokens x ++ go r | [] => [] end) c
    | KZero => []
    end ++ cm f
  end.

Definition same_full (a b : node) : bool := same_tree a b && toks_eqb (tokens a) (tokens b).

Definition is_tc (t : tok) : bool := match t with TC _ => true | _ => false end.

Fixpoint leading_comments (l : list tok) : list tok :=
  match l with t :: r => if is_tc t then t :: leading_comments r else [] | [] => [] end.

Definition trailing_comments (l : list tok) : list tok :=
  rev_append (leading_comments (rev_append l [])) [].

(* the token sequence with the subtree addressed by [p] replaced by one hole (without a hole if [p] leads nowhere).
   The comments that sit at the two ends of the subtree stay outside the hole: on the side of the definition BEFORE
   the edit ([own] = true) the addressed node's own head and foot comment, which Set keeps; on the side AFTER the edit
   every comment line the subtree starts and ends with (yaml.v3 may have read the kept foot comment back as the foot
   comment of the last entry of the new value). *)
Fixpoint tokens_hole (own : bool) (p : path) (n : node) : list tok :=
  match p with
  | [] => if own then cm (nhc n) ++ [THole] ++ cm (nfc n)
          else leading_comments (tokens n) ++ [THole] ++ trailing_comments (tokens n)
  | a :: p' =>
    match n with
    | Node k _ _ v h _ f c =>
      cm h ++
      match k, a with
      | KMap, AKey key =>
          (fix go (l : list node) (hit : bool) : list tok :=
             match l with
             | kn :: vn :: r =>
                 let here := negb hit && String.eqb (nvalue kn) key in
                 cm (nhc kn) ++ [TK (nvalue kn)] ++ (if here then tokens_hole own p' vn else tokens vn)
                 ++ cm (nfc kn) ++ go r (hit || here)
             | _ => []
             end) c false
      | KSeq, AIdx i =>
          (fix go (l : list node) (j : Z) : list tok :=
             match l with
             | x :: r => (if (j =? i)%Z then tokens_hole own p' x else tokens x) ++ go r (j + 1)%Z
             | [] => []
             end) c 0%Z
      | _, _ => tokens (Node k "" 0 v "" "" "" c)
      end ++ cm f
    end
  end.

(* the token sequence without the entry (key, comments and value) / the element addressed by [p] *)
Fixpoint tokens_drop (p : path) (n : node) : list tok :=
  match p with
  | [] => tokens n
  | a :: p' =>
    match n with
    | Node k _ _ v h _ f c =>
      cm h ++
      match k, a with
      | KMap, AKey key =>
          (fix go (l : list node) (hit : bool) : list tok :=
             match l with
             | kn :: vn :: r =>
                 let here := negb hit && String.eqb (nvalue kn) key in
                 (if here then
                    match p' with
                    | [] => []
                    | _ => cm (nhc kn) ++ [TK (nvalue kn)] ++ tokens_drop p' vn ++ cm (nfc kn)
                    end
                  else cm (nhc kn) ++ [TK (nvalue kn)] ++ tokens vn ++ cm (nfc kn))
                 ++ go r (hit || here)
             | _ => []
             end) c false
      | KSeq, AIdx i =>
          (fix go (l : list node) (j : Z) : list tok :=
             match l with
             | x :: r => (if (j =? i)%Z then match p' with [] => [] | _ => tokens_drop p' x end else tokens x)
                         ++ go r (j + 1)%Z
             | [] => []
             end) c 0%Z
      | _, _ => tokens (Node k "" 0 v "" "" "" c)
      end ++ cm f
    end
  end.

Fixpoint is_subseq (a b : list tok) : bool :=
  match b with
  | [] => match a with [] => true | _ => false end
  | y :: b' =>
      match a with
      | [] => true
      | x :: a' => if tok_eqb x y then is_subseq a' b' else is_subseq a b'
      end
  end.

(* a token sequence with a hole, cut into: everything up to the last key / scalar before the hole, the comment lines
   directly before the hole, those directly after it, and the rest *)
Fixpoint split_at_hole (l : list tok) (pre_rev lead_rev : list tok) : list tok * list tok * list tok * list tok :=
  match l with
  | [] => (rev_append (lead_rev ++ pre_rev) [], [], [], [])
  | THole :: r => (rev_append pre_rev [], rev_append lead_rev [], leading_comments r,
                   skipn (length (leading_comments r)) r)
  | TC c :: r => split_at_hole r pre_rev (TC c :: lead_rev)
  | t :: r => split_at_hole r (t :: lead_rev ++ pre_rev) []
  end.

(* same sequences around the hole; the comment lines next to the hole are all still there, in order (the edit may
   add some: the line comment of a scalar replaced by a block collection becomes the head comment of its first entry) *)
Definition holes_agree (b a : list tok) : bool :=
  let '(pre_b, lead_b, trail_b, rest_b) := split_at_hole b [] [] in
  let '(pre_a, lead_a, trail_a, rest_a) := split_at_hole a [] [] in
  toks_eqb pre_b pre_a && toks_eqb rest_b rest_a && is_subseq lead_b lead_a && is_subseq trail_b trail_a.

Fixpoint val_eqb (a b : val) : bool :=
  match a, b with
  | VScalar t1 x1, VScalar t2 x2 => String.eqb t1 t2 && String.eqb x1 x2
  | VSeq l1, VSeq l2 =>
      (fix go (x : list val) (y : list val) {struct x} : bool :=
         match x, y with
         | [], [] => true
         | p :: x', q :: y' => val_eqb p q && go x' y'
         | _, _ => false
         end) l1 l2
  | VMap l1, VMap l2 =>
      (fix go (x : list (string * val)) (y : list (string * val)) {struct x} : bool :=
         match x, y with
         | [], [] => true
         | (k1, p) :: x', (k2, q) :: y' => String.eqb k1 k2 && val_eqb p q && go x' y'
         | _, _ => false
         end) l1 l2
  | VNone, VNone => true
  | _, _ => false
  end.

Definition gres_same (a b : gres) : bool :=
  match a, b with
  | GFound x, GFound y => same_tree x y
  | GMissing, GMissing | GPanic, GPanic => true
  | _, _ => false
  end.

(* ---- cases ---- *)
Inductive status := SOk | SErr (e : err) | SPanic | SBroken (* stored text does not parse / marshal failed *).

Definition status_eqb (a b : status) : bool :=
  match a, b with
  | SOk, SOk | SPanic, SPanic | SBroken, SBroken => true
  | SErr x, SErr y =>
      match x, y with
      | EKeyInt, EKeyInt | EKeyStr, EKeyStr | ERange, ERange | EExpected, EExpected
      | EEmptyPath, EEmptyPath | EMissing, EMissing | EOther, EOther => true
      | _, _ => false
      end
  | _, _ => false
  end.

(* err codes that are not Get/Set/Delete's: invalid path / invalid value travel as SErr EOther with a marker *)
Inductive opin :=
| ISet (intended parsed : option path) (secret : bool) (argtext : string) (v0 : option node)
| IRm (intended parsed : option path).

Record stepobs := {
  so_op : opin;
  so_status : status;
  so_patherr : bool;        (* status was "invalid path" *)
  so_valerr : bool;         (* status was "invalid value" *)
  so_after : node;          (* stored definition after the command *)
  so_get : gres;            (* Get(path) in the stored definition; GPanic also stands for "not observed" *)
  so_get_seen : bool;
  so_cliget : option gres   (* `env get --definition` (CLI mode, when it ran) *)
}.

Inductive mode := MApi | MCli.

(* [c_reread]: every command starts from the stored TEXT (the CLI always does; the api mode when asked to) *)
Record case := { c_mode : mode; c_reread : bool; c_doc0 : node; c_doc0rt : node; c_steps : list stepobs }.

(* ---- the model's step ---- *)
Definition path_eqb (p q : path) : bool := (length p =? length q)%nat && is_prefix p q.

Definition opt_path_ok (intended parsed : option path) : bool :=
  match intended, parsed with
  | Some p, Some q => path_eqb p q
  | Some _, None => false
  | None, _ => true      (* malformed path text: whatever the parser says *)
  end.

Definition result_status (r : result node) : status :=
  match r with Ok _ => SOk | Err e => SErr e | Panic => SPanic end.

Definition result_tree (r : result node) (t : node) : node := match r with Ok t' => t' | _ => t end.

(* the node of the stored definition a command's path addresses: in CLI mode below "values", and from the root
   for "imports" — the same for env set, env rm and env get *)
Definition the_path (m : mode) (is_set : bool) (p : path) : path :=
  match m with
  | MApi => p
  | MCli => match p with a :: _ => if is_imports a then p else AKey values_key :: p
                       | [] => [AKey values_key] end
  end.

(* what Get is asked in the harness after the command *)
Definition get_path (m : mode) (p : path) : path :=
  match m with
  | MApi => p
  | MCli => match p with a :: _ => if is_imports a then p else AKey values_key :: p | [] => [AKey values_key] end
  end.

Definition model_step (pr : params) (m : mode) (o : opin) (t : node) : result node * bool * bool :=
  (* result, patherr, valerr *)
  match o with
  | ISet _ None _ _ _ => (Err EOther, true, false)
  | ISet _ (Some p) secret argtext v0 =>
      match m with
      | MApi => match v0 with
                | None => (Err EOther, false, true)
                | Some v => (yset pr p v t, false, false)
                end
      | MCli => match p with
                | [] => (Err EEmptyPath, false, false)
                | _ => match v0 with
                       | None => (Err EOther, false, true)
                       | Some v => (env_set pr p (prep_value secret argtext v) t, false, false)
                       end
                end
      end
  | IRm _ None => (Err EOther, true, false)
  | IRm _ (Some p) =>
      match m with
      | MApi => (ydelete pr p t, false, false)
      | MCli => (env_rm pr p t, false, false)
      end
  end.

Definition op_parsed (o : opin) : option path :=
  match o with ISet _ p _ _ _ => p | IRm _ p => p end.
Definition op_paths_ok (o : opin) : bool :=
  match o with ISet i p _ _ _ => opt_path_ok i p | IRm i p => opt_path_ok i p end.

Fixpoint mismatch_steps (pr : params) (m : mode) (reread : bool) (t : node) (l : list stepobs) : bool :=
  match l with
  | [] => false
  | s :: r =>
      let '(res, perr, verr) := model_step pr m (so_op s) t in
      let t' := result_tree res t in
      negb (op_paths_ok (so_op s))
      || negb (status_eqb (result_status res) (so_status s))
      || negb (Bool.eqb perr (so_patherr s)) || negb (Bool.eqb verr (so_valerr s))
      || negb (same_full t' (so_after s))
      || match op_parsed (so_op s) with
         | Some p => so_get_seen s && negb (gres_same (yget (get_path m p) t') (so_get s))
         | None => false
         end
      || match so_cliget s, op_parsed (so_op s) with
         | Some g, Some p =>
             match yget (get_path m p) t', g with
             | GFound x, GFound y => negb (val_eqb (denote x) (denote y))
             | GMissing, GMissing => false
             | _, _ => true
             end
         | _, _ => false
         end
      (* the next command starts from what was stored and read back, or (api mode, in memory) from the tree itself *)
      || match res with
         | Panic => false
         | _ => mismatch_steps pr m reread (if reread then so_after s else t') r
         end
  end.

(* a definition whose initial text yaml.v3 itself does not write back to an equal tree (comments re-attached) is
   outside the domain: the implementation continues from the re-read text *)
Definition stable (c : case) : bool := same_full (c_doc0 c) (c_doc0rt c).

Definition mismatch (c : case) : bool :=
  stable c && mismatch_steps params_of_src (c_mode c) (c_reread c) (c_doc0 c) (c_steps c).

(* ---- the specification, on the implementation's observations only ---- *)
Definition cmts_eqb (a b : node) : bool :=
  String.eqb (nhc a) (nhc b) && String.eqb (nlc a) (nlc b) && String.eqb (nfc a) (nfc b).

Fixpoint list_same (a b : list node) : bool :=
  match a, b with
  | [], [] => true
  | x :: a', y :: b' => same_tree x y && list_same a' b'
  | _, _ => false
  end.

(* [a] is [b], possibly followed by one more node *)
Fixpoint list_same_plus1 (a b : list node) : bool :=
  match a, b with
  | [], [] => true
  | [_], [] => true
  | x :: a', y :: b' => same_tree x y && list_same_plus1 a' b'
  | _, _ => false
  end.

Fixpoint drop_key (key : string) (ks : list node) : list node :=
  match ks with
  | [] => []
  | k :: r => if String.eqb (nvalue k) key then r else k :: drop_key key r
  end.

Definition proper_prefix (q p : path) : bool := is_prefix q p && negb (path_eqb q p).

Definition last_acc (p : path) : option acc := last (map Some p) None.

(* frame of a successful set: every node of the old definition that is not on or below the edited path
   (nor above it) is found unchanged, comments included *)
Definition frame_set (fp : path) (before after : node) : bool :=
  forallb (fun q => related fp q || gres_same (yget q after) (yget q before)) (all_paths before).

Definition frame_rm (fp : path) (before after : node) : bool :=
  forallb (fun q => related fp q || gres_same (yget (shift_del fp q) after) (yget q before)) (all_paths before).

(* head and foot comments: the comment lines of the definition stay where they are relative to its keys and scalars.
   set: with the edited node replaced by a hole on both sides the token sequences agree ([holes_agree]; the path
   existed), or the old sequence is a subsequence of the new one (keys were created);  rm: the old sequence without
   the removed entry is the new one. *)
Definition tokens_set_ok (fp : path) (before after : node) : bool :=
  match yget fp before with
  | GFound _ => holes_agree (tokens_hole true fp before) (tokens_hole false fp after)
  | _ => is_subseq (tokens before) (tokens after)
  end.

Definition tokens_rm_ok (fp : path) (before after : node) : bool :=
  match yget fp before with
  | GFound _ => toks_eqb (tokens_drop fp before) (tokens after)
  | _ => toks_eqb (tokens before) (tokens after)
  end.

(* the nodes above the edited one (the line comment of a key on the path may move
   to its value, on the same line of the text): a mapping keeps the names of its keys in order — a set may append
   one key, an rm removes only the addressed key from its parent — and every key other than the one on the path
   is the same node, comments included; a sequence keeps its length up to the appended / removed element *)
Definition hf_eqb (a b : node) : bool := String.eqb (nhc a) (nhc b) && String.eqb (nfc a) (nfc b).

Fixpoint names_eqb (a b : list string) : bool :=
  match a, b with
  | [], [] => true
  | x :: a', y :: b' => String.eqb x y && names_eqb a' b'
  | _, _ => false
  end.

(* [a] is [b], possibly followed by one more name *)
Fixpoint names_plus1 (a b : list string) : bool :=
  match a, b with
  | [], [] => true
  | [_], [] => true
  | x :: a', y :: b' => String.eqb x y && names_plus1 a' b'
  | _, _ => false
  end.

Fixpoint drop_name (key : string) (ks : list string) : list string :=
  match ks with
  | [] => []
  | k :: r => if String.eqb k key then r else k :: drop_name key r
  end.

Definition others (key : option string) (l : list node) : list node :=
  match key with
  | Some k => filter (fun kn => negb (String.eqb (nvalue kn) k)) (keys_of l)
  | None => keys_of l
  end.

Definition next_key (q fp : path) : option string :=
  match nth_error fp (length q) with Some (AKey k) => Some k | _ => None end.

Definition ancestors_set (fp : path) (before after : node) : bool :=
  forallb (fun q =>
    negb (proper_prefix q fp) ||
    match yget q before, yget q after with
    | GFound m, GFound m' =>
        match nkind m with
        | KMap => kind_eqb (nkind m') KMap
                  && names_plus1 (key_names (ncontent m')) (key_names (ncontent m))
                  && list_same (others (next_key q fp) (ncontent m')) (others (next_key q fp) (ncontent m))
        | KSeq => kind_eqb (nkind m') KSeq &&
                  ((length (ncontent m') =? length (ncontent m))%nat
                   || (length (ncontent m') =? S (length (ncontent m)))%nat)
        | _ => true
        end
    | _, _ => false
    end) (all_paths before).

Definition ancestors_rm (fp : path) (before after : node) : bool :=
  forallb (fun q =>
    negb (proper_prefix q fp) ||
    match yget q before, yget q after with
    | GFound m, GFound m' =>
        kind_eqb (nkind m) (nkind m') &&
        let parent := (length q =? pred (length fp))%nat in
        match nkind m, (if parent then last_acc fp else None) with
        | KMap, Some (AKey k) =>
            names_eqb (key_names (ncontent m')) (drop_name k (key_names (ncontent m)))
            && list_same (others (Some k) (ncontent m')) (others (Some k) (ncontent m))
        | KMap, _ =>
            names_eqb (key_names (ncontent m')) (key_names (ncontent m))
            && list_same (others (next_key q fp) (ncontent m')) (others (next_key q fp) (ncontent m))
        | KSeq, Some (AIdx _) => (S (length (ncontent m')) =? length (ncontent m))%nat
        | KSeq, _ => (length (ncontent m') =? length (ncontent m))%nat
        | _, _ => true
        end
    | _, _ => false
    end) (all_paths before).

Definition spec_fail_step (m : mode) (before : node) (s : stepobs) : bool :=
  let after := so_after s in
  match so_status s with
  | SPanic | SBroken => true
  | SErr _ => negb (same_full before after)          (* a refused command leaves the definition alone *)
  | SOk =>
      negb (wf_root after) ||
      match so_op s with
      | ISet _ (Some p) secret argtext (Some v0) =>
          let fp := the_path m true p in
          let want := denote (prep_value (match m with MCli => secret | MApi => false end) argtext v0) in
          negb (match so_get s with GFound g => val_eqb (denote g) want | _ => false end)
          (* the property's first clause on the real command: `env get <path>` after `env set <path> <value>`
             prints that value (observed whenever the stored definition loads) *)
          || match m, so_cliget s with
             | MCli, Some (GFound g) => negb (val_eqb (denote g) want)
             | MCli, Some _ => true
             | _, _ => false
             end
          || negb (frame_set fp before after) || negb (ancestors_set fp before after)
          || negb (tokens_set_ok fp before after)
      | IRm _ (Some []) =>
          (* an empty path addresses nothing: a command that accepts it changes nothing *)
          negb (same_full before after)
      | IRm _ (Some p) =>
          let fp := the_path m false p in
          (* in CLI mode, a definition without "values" (or an empty path answered by a no-op) is left alone *)
          match yget (removelast fp) before with
          | GFound _ =>
              negb (frame_rm fp before after) || negb (ancestors_rm fp before after)
              || negb (tokens_rm_ok fp before after)
              || match last_acc fp, m with
                 | Some (AKey _), MApi => negb (match so_get s with GMissing => true | _ => false end)
                 | Some (AKey _), MCli =>
                     negb (match yget fp after with GMissing => true | _ => false end)
                     (* ... and `env get <path>` prints nothing *)
                     || match so_cliget s with Some GMissing | None => false | Some _ => true end
                 | _, _ => false
                 end
          | _ => negb (same_full before after)
          end
      | _ => true          (* ok although the path or the value was refused by its parser *)
      end
  end.

Fixpoint spec_fail_steps (m : mode) (before : node) (l : list stepobs) : bool :=
  match l with
  | [] => false
  | s :: r => spec_fail_step m before s || spec_fail_steps m (so_after s) r
  end.

(* the well-formedness clause and the round trip of the initial text are preconditions on the input:
   a definition that yaml.v3 itself does not write back unchanged is outside the property *)
Definition input_ok (c : case) : bool := wf_root (c_doc0 c) && stable c.

Definition spec_fail (c : case) : bool := input_ok c && spec_fail_steps (c_mode c) (c_doc0 c) (c_steps c).

Definition known (c : case) : bool := false.

Definition spec_fail_new (c : case) : bool := spec_fail c && negb (known c).
Definition spec_fail_known (c : case) : bool := spec_fail c && known c.

Fixpoint changed_steps (before : node) (l : list stepobs) : bool :=
  match l with
  | [] => false
  | s :: r => negb (same_full before (so_after s)) || changed_steps (so_after s) r
  end.

Definition nontrivial (c : case) : bool := input_ok c && changed_steps (c_doc0 c) (c_steps c).

(* ---- wire format ---- *)
Definition decode_kind (x : sexp) : option kind :=
  match atom_N x with
  | Some 0 => Some KZero | Some 1 => Some KDoc | Some 2 => Some KSeq | Some 4 => Some KMap
  | Some 8 => Some KScalar | Some 16 => Some KAlias | _ => None
  end.

Fixpoint decode_node (x : sexp) : option node :=
  match x with
  | SList [Atom "n"; k; tag; st; v; h; l; f; SList kids] =>
      match decode_kind k, atom_str tag, atom_N st, atom_str v with
      | Some k, Some tag, Some st, Some v =>
          match atom_str h, atom_str l, atom_str f,
                (fix go (xs : list sexp) : option (list node) :=
                   match xs with
                   | [] => Some []
                   | y :: r => match decode_node y, go r with Some a, Some b => Some (a :: b) | _, _ => None end
                   end) kids with
          | Some h, Some l, Some f, Some c => Some (Node k tag st v h l f c)
          | _, _, _, _ => None
          end
      | _, _, _, _ => None
      end
  | _ => None
  end.

Definition decode_acc (x : sexp) : option acc :=
  match x with
  | SList [Atom "k"; s] => match atom_str s with Some s => Some (AKey s) | None => None end
  | SList [Atom "i"; z] => match atom_Z z with Some z => Some (AIdx z) | None => None end
  | _ => None
  end.

(* (p acc...) or the atom "none" *)
Definition decode_opath (x : sexp) : option (option path) :=
  match x with
  | Atom "none" => Some None
  | SList (Atom "p" :: l) => match map_opt decode_acc l with Some p => Some (Some p) | None => None end
  | _ => None
  end.

Definition decode_onode (x : sexp) : option (option node) :=
  match x with
  | Atom "none" => Some None
  | _ => match decode_node x with Some n => Some (Some n) | None => None end
  end.

Definition decode_gres (x : sexp) : option gres :=
  match x with
  | Atom "missing" => Some GMissing
  | Atom "panic" => Some GPanic
  | _ => match decode_node x with Some n => Some (GFound n) | None => None end
  end.

Definition decode_ogres (x : sexp) : option (option gres) :=
  match x with
  | Atom "none" => Some None
  | _ => match decode_gres x with Some g => Some (Some g) | None => None end
  end.

(* status atom -> (status, patherr, valerr) *)
Definition decode_status (x : sexp) : option (status * bool * bool) :=
  match x with
  | Atom "ok" => Some (SOk, false, false)
  | Atom "panic" => Some (SPanic, false, false)
  | Atom "broken" => Some (SBroken, false, false)
  | Atom "keyint" => Some (SErr EKeyInt, false, false)
  | Atom "keystr" => Some (SErr EKeyStr, false, false)
  | Atom "range" => Some (SErr ERange, false, false)
  | Atom "expected" => Some (SErr EExpected, false, false)
  | Atom "emptypath" => Some (SErr EEmptyPath, false, false)
  | Atom "missingkey" => Some (SErr EMissing, false, false)
  | Atom "patherr" => Some (SErr EOther, true, false)
  | Atom "valerr" => Some (SErr EOther, false, true)
  | Atom "other" => Some (SErr EOther, false, false)
  | _ => None
  end.

Definition decode_op (x : sexp) : option opin :=
  match x with
  | SList [Atom "set"; ip; pp; sec; arg; v0] =>
      match decode_opath ip, decode_opath pp, atom_bool sec with
      | Some ip, Some pp, Some sec =>
          match atom_str arg, decode_onode v0 with
          | Some arg, Some v0 => Some (ISet ip pp sec arg v0)
          | _, _ => None
          end
      | _, _, _ => None
      end
  | SList [Atom "rm"; ip; pp] =>
      match decode_opath ip, decode_opath pp with
      | Some ip, Some pp => Some (IRm ip pp)
      | _, _ => None
      end
  | _ => None
  end.

Definition decode_step (x : sexp) : option stepobs :=
  match x with
  | SList [o; st; after; g; cg] =>
      match decode_op o, decode_status st, decode_node after with
      | Some o, Some (st, pe, ve), Some after =>
          match decode_ogres g, decode_ogres cg with
          | Some g, Some cg =>
              Some {| so_op := o; so_status := st; so_patherr := pe; so_valerr := ve; so_after := after;
                      so_get := match g with Some g => g | None => GPanic end;
                      so_get_seen := match g with Some _ => true | None => false end;
                      so_cliget := cg |}
          | _, _ => None
          end
      | _, _, _ => None
      end
  | _ => None
  end.

Definition decode (x : sexp) : option case :=
  match x with
  | SList [Atom "c15"; Atom md; d0; d0rt; SList steps] =>
      match (if String.eqb md "api" then Some (MApi, true) else if String.eqb md "apimem" then Some (MApi, false)
             else if String.eqb md "cli" then Some (MCli, true) else None),
            decode_node d0, decode_node d0rt, map_opt decode_step steps with
      | Some (m, rr), Some d0, Some d0rt, Some steps =>
          Some {| c_mode := m; c_reread := rr; c_doc0 := d0; c_doc0rt := d0rt; c_steps := steps |}
      | _, _, _, _ => None
      end
  | _ => None
  end.

Definition verdict (c : case) : N :=
  verdict_bits (mismatch c) (spec_fail_new c) (spec_fail_known c) (nontrivial c).

Definition run_line : string -> string := run_with decode verdict.
