(* Corr/EvalWire.v — wire decoding shared by the evaluator-family correspondence files. *)
From Verif Require Import Base.Bytes Base.Wire Model.Chain Model.Eval.

Definition dec_accessor (x : sexp) : option accessor :=
  match x with
  | SList [Atom "name"; s] => option_map AName (atom_str s)
  | SList [Atom "key"; s] => option_map AKey (atom_str s)
  | SList [Atom "idx"; i] => option_map AIdx (atom_Z i)
  | _ => None
  end.

Definition dec_path (x : sexp) : option path := slist_of dec_accessor x.

Definition dec_part (x : sexp) : option (string * option path) :=
  match x with
  | SList [t; Atom "none"] => option_map (fun t => (t, None)) (atom_str t)
  | SList [t; p] => match atom_str t, dec_path p with Some t, Some p => Some (t, Some p) | _, _ => None end
  | _ => None
  end.

Fixpoint dec_expr (fuel : nat) (x : sexp) : option expr :=
  match fuel with
  | O => None
  | S f =>
    match x with
    | Atom "null" => Some ENull
    | Atom "missing" => Some EMissing
    | SList [Atom "b"; b] => option_map EBool (atom_bool b)
    | SList [Atom "n"; t] => option_map ENum (atom_str t)
    | SList [Atom "s"; s] => option_map EStr (atom_str s)
    | SList (Atom "interp" :: parts) => option_map EInterp (map_opt dec_part parts)
    | SList [Atom "sym"; p] => option_map ESym (dec_path p)
    | SList (Atom "arr" :: es) => option_map EArr (map_opt (dec_expr f) es)
    | SList (Atom "obj" :: kvs) =>
        option_map EObj (map_opt (fun kv => match kv with
                                           | SList [k; e] => match atom_str k, dec_expr f e with
                                                             | Some k, Some e => Some (k, e) | _, _ => None end
                                           | _ => None end) kvs)
    | SList [Atom "join"; d; vs] =>
        match dec_expr f d, dec_expr f vs with Some d, Some vs => Some (EJoin d vs) | _, _ => None end
    | SList [Atom "tojson"; e] => option_map EToJSON (dec_expr f e)
    | SList [Atom "fromjson"; e] => option_map EFromJSON (dec_expr f e)
    | SList [Atom "tostring"; e] => option_map EToString (dec_expr f e)
    | SList [Atom "tob64"; e] => option_map EToB64 (dec_expr f e)
    | SList [Atom "fromb64"; e] => option_map EFromB64 (dec_expr f e)
    | SList [Atom "secret"; s] => option_map ESecretPlain (atom_str s)
    | SList [Atom "cipher"; s] => option_map ESecretCipher (atom_str s)
    | SList [Atom "open"; p; e] =>
        match atom_str p, dec_expr f e with Some p, Some e => Some (EOpen p e) | _, _ => None end
    | _ => None
    end
  end.

Definition wire_fuel : nat := 200.

Definition dec_envdef (x : sexp) : option envdef :=
  match x with
  | SList [Atom "def"; SList imps; SList vals] =>
      match map_opt (fun i => match i with
                              | SList [n; m] => match atom_str n, atom_bool m with
                                                | Some n, Some m => Some (n, m) | _, _ => None end
                              | _ => None end) imps,
            map_opt (fun kv => match kv with
                               | SList [k; e] => match atom_str k, dec_expr wire_fuel e with
                                                 | Some k, Some e => Some (k, e) | _, _ => None end
                               | _ => None end) vals with
      | Some is, Some vs => Some {| ed_imports := is; ed_values := vs |}
      | _, _ => None
      end
  | _ => None
  end.

Definition dec_scalar (x : sexp) : option scalar :=
  match x with
  | Atom "null" => Some SNull
  | SList [Atom "b"; b] => option_map SBool (atom_bool b)
  | SList [Atom "n"; t] => option_map SNum (atom_str t)
  | SList [Atom "s"; s] => option_map SStr (atom_str s)
  | _ => None
  end.

Fixpoint dec_xval (fuel : nat) (x : sexp) : option xval :=
  match fuel with
  | O => None
  | S f =>
    match x with
    | SList [Atom "xs"; s; u; sc] =>
        match atom_bool s, atom_bool u, dec_scalar sc with
        | Some s, Some u, Some sc => Some (XScalar s u sc) | _, _, _ => None end
    | SList [Atom "xa"; s; u; SList l] =>
        match atom_bool s, atom_bool u, map_opt (dec_xval f) l with
        | Some s, Some u, Some l => Some (XArr s u l) | _, _, _ => None end
    | SList [Atom "xo"; s; u; SList m] =>
        match atom_bool s, atom_bool u,
              map_opt (fun kv => match kv with
                                 | SList [k; v] => match atom_str k, dec_xval f v with
                                                   | Some k, Some v => Some (k, v) | _, _ => None end
                                 | _ => None end) m with
        | Some s, Some u, Some m => Some (XObj s u m) | _, _, _ => None end
    | _ => None
    end
  end.

Fixpoint dec_sch (fuel : nat) (x : sexp) : option sch :=
  match fuel with
  | O => None
  | S f =>
    match x with
    | Atom "always" => Some ScAlways
    | Atom "never" => Some ScNever
    | Atom "null" => Some (ScType "null")
    | Atom "boolean" => Some (ScType "boolean")
    | Atom "number" => Some (ScType "number")
    | Atom "string" => Some (ScType "string")
    | Atom "array" => Some (ScArray [] None)
    | Atom "object" => Some (ScObject [] None)
    | SList [Atom "array"; SList prefix; items] =>
        match map_opt (dec_sch f) prefix with
        | Some p => match items with
                    | Atom "none" => Some (ScArray p None)
                    | i => option_map (fun i => ScArray p (Some i)) (dec_sch f i)
                    end
        | None => None
        end
    | SList [Atom "object"; SList props; addl] =>
        match map_opt (fun kv => match kv with
                                 | SList [k; v] => match atom_str k, dec_sch f v with
                                                   | Some k, Some v => Some (k, v) | _, _ => None end
                                 | _ => None end) props with
        | Some p => match addl with
                    | Atom "none" => Some (ScObject p None)
                    | a => option_map (fun a => ScObject p (Some a)) (dec_sch f a)
                    end
        | None => None
        end
    | _ => None
    end
  end.

Definition dec_insch (x : sexp) : option in_schema :=
  match x with
  | Atom "always" => Some InAlways
  | SList [Atom "record"; SList props; SList req; closed] =>
      match map_opt (fun kv => match kv with
                               | SList [k; Atom t] => option_map (fun k => (k, t)) (atom_str k)
                               | _ => None end) props,
            map_opt atom_str req, atom_bool closed with
      | Some p, Some r, Some c => Some (InRecord p r c)
      | _, _, _ => None
      end
  | _ => None
  end.

Definition dec_beh (x : sexp) : option pbehaviour :=
  match x with
  | Atom "echo" => Some PEcho
  | Atom "fail" => Some PFail
  | SList [Atom "const"; v] => option_map PConst (dec_xval wire_fuel v)
  | _ => None
  end.

(* the decrypter of the correspondence harness *)
Definition harness_decrypt (env ct : string) : option string :=
  match ct with
  | String "!"%char _ => None
  | _ => Some ("<" +++ env +++ ":" +++ ct +++ ">")
  end.

Definition dec_world (x : sexp) : option world :=
  match x with
  | SList [Atom "world"; SList envs; SList provs; SList ctx; check; show; fault] =>
      match map_opt (fun e => match e with
                              | SList [n; Atom "fail"] => option_map (fun n => (n, LoadFail)) (atom_str n)
                              | SList [n; Atom "noparse"] => option_map (fun n => (n, LoadNoParse)) (atom_str n)
                              | SList [n; d] => match atom_str n, dec_envdef d with
                                                | Some n, Some d => Some (n, LoadOk d) | _, _ => None end
                              | _ => None end) envs,
            map_opt (fun p => match p with
                              | SList [n; i; o; b] =>
                                  match atom_str n, dec_insch i, dec_sch wire_fuel o, dec_beh b with
                                  | Some n, Some i, Some o, Some b => Some (n, {| pv_in := i; pv_out := o; pv_beh := b |})
                                  | _, _, _, _ => None end
                              | _ => None end) provs,
            map_opt (fun kv => match kv with
                               | SList [k; v] => match atom_str k, dec_xval wire_fuel v with
                                                 | Some k, Some v => Some (k, v) | _, _ => None end
                               | _ => None end) ctx with
      | Some es, Some ps, Some cx =>
          match atom_bool check, atom_bool show with
          | Some c, Some s =>
              let mk f := Some {| w_envs := es; w_provs := ps; w_ctx := cx; w_check := c; w_show := s; w_fault := f;
                                  w_decrypt := harness_decrypt |} in
              match fault with
              | Atom "none" => mk None
              | a => match atom_N a with Some k => mk (Some k) | None => None end
              end
          | _, _ => None
          end
      | _, _, _ => None
      end
  | _ => None
  end.

(* observed collaborator calls *)
Inductive oev := OLoad (n : string) | OLoadProvider (n : string) | OOpen (p : string) (inputs : xval) (root cur : string)
               | ODecrypt (env ct : string).

Definition dec_oev (x : sexp) : option oev :=
  match x with
  | SList [Atom "load"; n] => option_map OLoad (atom_str n)
  | SList [Atom "loadprovider"; n] => option_map OLoadProvider (atom_str n)
  | SList [Atom "open"; p; v; r; c] =>
      match atom_str p, dec_xval wire_fuel v, atom_str r, atom_str c with
      | Some p, Some v, Some r, Some c => Some (OOpen p v r c) | _, _, _, _ => None end
  | SList [Atom "decrypt"; e; c] =>
      match atom_str e, atom_str c with Some e, Some c => Some (ODecrypt e c) | _, _ => None end
  | _ => None
  end.

(* [nerrs]: the NUMBER of error diagnostics of the run, when the handler reports it (compared with the model's count) *)
Inductive iobs :=
| IObsN (v : option xval) (errors : bool) (nerrs : option N) (log : list oev)
| ICrash | IPanic | ILoadErr.
Notation IObs v e lg := (IObsN v e _ lg) (only parsing).

Definition dec_obs (x : sexp) : option iobs :=
  match x with
  | Atom "crash" => Some ICrash
  | Atom "panic" => Some IPanic
  | Atom "loaderr" => Some ILoadErr
  | SList [Atom "obs"; v; e; SList lg] =>
      match atom_bool e, map_opt dec_oev lg with
      | Some e, Some lg =>
          match v with
          | Atom "none" => Some (IObsN None e None lg)
          | v => option_map (fun v => IObsN (Some v) e None lg) (dec_xval wire_fuel v)
          end
      | _, _ => None
      end
  | SList [Atom "obs"; v; e; SList lg; n] =>
      match atom_bool e, map_opt dec_oev lg, atom_N n with
      | Some e, Some lg, Some n =>
          match v with
          | Atom "none" => Some (IObsN None e (Some n) lg)
          | v => option_map (fun v => IObsN (Some v) e (Some n) lg) (dec_xval wire_fuel v)
          end
      | _, _, _ => None
      end
  | _ => None
  end.

(* ---------------- comparison ---------------- *)
Definition scalar_eqb (a b : scalar) : bool :=
  match a, b with
  | SNull, SNull => true
  | SBool x, SBool y => Bool.eqb x y
  | SNum x, SNum y => String.eqb x y
  | SStr x, SStr y => String.eqb x y
  | _, _ => false
  end.

Fixpoint xval_eqb (fuel : nat) (a b : xval) : bool :=
  match fuel with
  | O => false
  | S f =>
    match a, b with
    | XScalar s u x, XScalar s' u' y => Bool.eqb s s' && Bool.eqb u u' && scalar_eqb x y
    | XArr s u l, XArr s' u' l' =>
        Bool.eqb s s' && Bool.eqb u u' && Nat.eqb (length l) (length l')
        && forallb (fun p => xval_eqb f (fst p) (snd p)) (combine l l')
    | XObj s u m, XObj s' u' m' =>
        Bool.eqb s s' && Bool.eqb u u' && Nat.eqb (length m) (length m')
        && forallb (fun p => String.eqb (fst (fst p)) (fst (snd p)) && xval_eqb f (snd (fst p)) (snd (snd p))) (combine m m')
    | _, _ => false
    end
  end.

Definition xeq (a b : xval) : bool := xval_eqb (S (x_depth a)) a b.

Definition ev_matches (m : ev) (o : oev) : bool :=
  match m, o with
  | EvLoad n, OLoad n' => String.eqb n n'
  | EvLoadProvider n, OLoadProvider n' => String.eqb n n'
  | EvOpen _ p i r c, OOpen p' i' r' c' => String.eqb p p' && xeq i i' && String.eqb r r' && String.eqb c c'
  | EvDecrypt e c, ODecrypt e' c' => String.eqb e e' && String.eqb c c'
  | _, _ => false
  end.

Definition log_matches (m : list ev) (o : list oev) : bool :=
  Nat.eqb (length m) (length o) && forallb (fun p => ev_matches (fst p) (snd p)) (combine m o).

Definition model_fuel : nat := 400.

(* Go's evalEnvironment returns a nil Environment for an empty definition *)
Definition empty_def (d : envdef) : bool :=
  match ed_imports d, ed_values d with [], [] => true | _, _ => false end.

(* the model's NUMBER of error diagnostics (the observation record keeps only "some / none") *)
Definition run_nerr (fuel : nat) (W : world) (name : string) (d : envdef) : N :=
  nerr (snd (eval_env W fuel "" name d st0)).

Inductive cmp := CmpEq | CmpDiff | CmpSkip.   (* skip: the model flags the input as outside its fragment *)

Definition compare_run (W : world) (name : string) (d : envdef) (o : iobs) : cmp :=
  match o with
  | ILoadErr => CmpSkip
  | ICrash | IPanic => CmpDiff
  | IObsN v e n lg =>
      if empty_def d then match v with None => CmpEq | Some _ => CmpDiff end
      else
        let r := run model_fuel W name d in
        if ob_oof r then CmpSkip
        else match v, ob_value r with
             | Some a, Some b =>
                 if xeq a b && Bool.eqb e (ob_errors r) && log_matches (ob_log r) lg
                    && match n with Some k => N.eqb k (run_nerr model_fuel W name d) | None => true end
                 then CmpEq else CmpDiff
             | _, _ => CmpDiff
             end
  end.
