(* Corr/C04.v — case type and predicates of the correspondence check of C04 (static secrets are ciphertext at
   rest, transparently). *)
From Verif Require Import Base.Bytes Base.Wire Model.Envelope Model.YamlTree Model.Crypt Src.SrcCrypt Corr.CryptWire.

Inductive enc_outcome := EOk (t : ynode) (text : string) | EErr (e : rw_error) | EBad.
Inductive dec_outcome := DcOk (t : ynode) | DcErr (e : rw_error) | DcBad | DcNone.
(* evaluation (eval.EvalEnvironment, echo provider, matching decrypter): canonical JSON of the value tree with
   secret/unknown flags, the multiset of secret string leaves, number of error diagnostics *)
Inductive ev_outcome := EvOk (canon : string) (leaves : list string) (errs : N) | EvLoadErr | EvPanic | EvOther.
Inductive load_outcome := LoadOk | LoadErr | LoadPanic.

Record case := mkCase {
  c_key : N; c_pad : nat;
  c_in : ynode;
  c_loads : load_outcome;      (* eval.LoadYAMLBytes on the plaintext document: the checker's verdict *)
  c_enc : enc_outcome;         (* eval.EncryptSecrets *)
  c_dec : dec_outcome;         (* eval.DecryptSecrets on the encrypted text *)
  c_ev_plain : ev_outcome; c_ev_enc : ev_outcome
}.

(* ------------------------------------------------------------------------------------------------------
   model side *)
Definition m_sem_parse : snode -> sem_view :=
  sem_parse ast_fn_secret ast_key_ciphertext ast_plain_literal ast_key_nil_safe.
Definition m_open (key : N) (pad : nat) : sem_view -> option string := open_secret params (toy_dec key pad).

(* the calls of fn::secret in expression position below a node (ParseExpr order); arguments of a call are not
   searched: whatever is in there, the call itself decides *)
Fixpoint sem_nodes (n : snode) : list sem_view :=
  match m_sem_parse n with
  | SemNot =>
      match n with
      | SArr _ items => flat_map sem_nodes items
      | SObj _ entries => flat_map (fun kv : skey * snode => let (_, v) := kv in sem_nodes v) entries
      | _ => []
      end
  | v => [v]
  end.

Definition values_of (s : snode) : option snode :=
  match s with
  | SObj _ entries =>
      match find (fun kv : skey * snode => String.eqb (snd (fst kv)) "values") entries with
      | Some (_, v) => Some v
      | None => None
      end
  | _ => None
  end.

Definition doc_sem (y : ynode) : list sem_view :=
  match unmarshal y with
  | ROk s => match values_of s with Some v => sem_nodes v | None => [] end
  | RErr _ => []
  end.

Definition sem_ok (v : sem_view) : bool :=
  match v with SemPlain _ | SemCipher _ => true | _ => false end.
Definition sem_panics (v : sem_view) : bool := match v with SemPanic => true | _ => false end.

(* the checker's verdict on the generated family (the only load errors the generator produces are rejected
   calls of fn::secret) *)
Definition model_loads (y : ynode) : load_outcome :=
  let l := doc_sem y in
  if existsb sem_panics l then LoadPanic else if forallb sem_ok l then LoadOk else LoadErr.

Fixpoint somes {A} (l : list (option A)) : list A :=
  match l with [] => [] | Some x :: r => x :: somes r | None :: r => somes r end.

Definition model_leaves (key : N) (pad : nat) (y : ynode) : list string :=
  somes (map (m_open key pad) (doc_sem y)).

Definition load_eqb (a b : load_outcome) : bool :=
  match a, b with LoadOk, LoadOk | LoadErr, LoadErr | LoadPanic, LoadPanic => true | _, _ => false end.

Definition leaves_mismatch (key : N) (pad : nat) (y : ynode) (e : ev_outcome) : bool :=
  match e with
  | EvOk _ leaves _ => negb (perm_eqb leaves (model_leaves key pad y))
  | _ => false
  end.

Definition mismatch (c : case) : bool :=
  let key := c_key c in let pad := c_pad c in
  (* (a) EncryptSecrets *)
  match m_encrypt_doc key pad (c_in c), c_enc c with
  | ROk y, EOk t _ => negb (codec_tolerated y) && negb (ynode_eqb (content y) (content t))
  | ROk y, EBad => negb (codec_tolerated y)
  | RErr e, EErr e' => negb (err_eqb e e')
  | _, _ => true
  end
  (* (b) DecryptSecrets of what the implementation stored *)
  || match c_enc c, c_dec c with
     | EOk t _, DcOk d =>
         match m_decrypt_doc key pad t with
         | ROk y => negb (codec_tolerated y) && negb (ynode_eqb (content y) (content d))
         | RErr _ => true
         end
     | EOk t _, DcErr e =>
         match m_decrypt_doc key pad t with RErr e' => negb (err_eqb e e') | ROk _ => true end
     | EOk t _, DcBad => match m_decrypt_doc key pad t with ROk y => negb (codec_tolerated y) | RErr _ => true end
     | EOk _ _, DcNone => true
     | _, _ => false
     end
  (* (c) the checker on the plaintext document *)
  || negb (load_eqb (model_loads (c_in c)) (c_loads c))
  (* (d) what the secrets open to, plaintext form and stored form *)
  || leaves_mismatch key pad (c_in c) (c_ev_plain c)
  || match c_enc c with EOk t _ => leaves_mismatch key pad t (c_ev_enc c) | _ => false end.

(* ------------------------------------------------------------------------------------------------------
   the property on the implementation's observations *)
Definition is_plain (s : string + string) : bool := match s with inl _ => true | inr _ => false end.

Definition opens_to (c : case) (repr p : string) : bool :=
  match decode_ct params repr with
  | DOk ct => match toy_dec (c_key c) (c_pad c) ct with Some q => String.eqb p q | None => false end
  | _ => false
  end.

Fixpoint stored_ok (c : case) (before after : list (string + string)) : bool :=
  match before, after with
  | [], [] => true
  | inl p :: b, inr r :: a => opens_to c r p && stored_ok c b a
  | inr r0 :: b, inr r :: a => String.eqb r0 r && stored_ok c b a
  | _, _ => false
  end.

(* S1: after encryption no fn::secret carries plaintext, every one that did now carries an envelope that opens
       to that text (with the matching decrypter) *)
Definition s_plaintext_remains (c : case) : bool :=
  match c_enc c with
  | EOk t _ => existsb is_plain (m_ysecrets t) || negb (stored_ok c (m_ysecrets (c_in c)) (m_ysecrets t))
  | EErr _ => false
  | EBad => true
  end.

(* S2: the bytes of a plaintext (4 bytes or more) occur in the stored text although they occur neither in the
       rest of the document (skeleton scalars, comments), nor in the key `ciphertext` or the word `null` MarshalYAML writes for an empty null, nor inside an envelope *)
Fixpoint other_texts (y : ynode) : list string :=
  match y with
  | YScalar m => [y_value m; y_head m; y_line m; y_foot m]
  | YSeq m items => y_head m :: y_line m :: y_foot m :: flat_map other_texts items
  | YMap m entries =>
      y_head m :: y_line m :: y_foot m
      :: match ysecret crypt_fn_secret crypt_key_ciphertext y with
         | Some (_, km, t) => [y_value km; y_head km; y_line km; y_foot km; y_head t; y_line t; y_foot t]
         | None => flat_map (fun kv : ynode * ynode => let (k, v) := kv in other_texts k ++ other_texts v) entries
         end
  | YOther _ _ => []
  end.

Definition leaks (c : case) : bool :=
  match c_enc c with
  | EOk t text =>
      let elsewhere := crypt_new_key :: "null" :: other_texts (c_in c)
                       ++ flat_map (fun s : string + string => match s with inr r => [r] | inl _ => [] end) (m_ysecrets t) in
      existsb (fun s : string + string =>
                 match s with
                 | inl p => Nat.leb 4 (String.length p) && scontains p text
                            && negb (existsb (scontains p) elsewhere)
                 | inr _ => false
                 end) (m_ysecrets (c_in c))
  | _ => false
  end.

(* S3: decrypting the stored text restores the document: same skeleton, and every secret is back in plaintext *)
Definition expected_plain (c : case) (s : string + string) : option string :=
  match s with
  | inl p => Some p
  | inr r => match decode_ct params r with
             | DOk ct => toy_dec (c_key c) (c_pad c) ct
             | _ => None
             end
  end.

Fixpoint restored (c : case) (before after : list (string + string)) : bool :=
  match before, after with
  | [], [] => true
  | s :: b, inl q :: a => match expected_plain c s with Some p => String.eqb p q | None => false end && restored c b a
  | _, _ => false
  end.

Definition s_not_restored (c : case) : bool :=
  match c_enc c, c_dec c with
  | EOk _ _, DcOk d =>
      negb (ynode_eqb (m_skeleton (c_in c)) (m_skeleton d)) || negb (restored c (m_ysecrets (c_in c)) (m_ysecrets d))
  | EOk _ _, DcErr _ => forallb is_plain (m_ysecrets (c_in c))     (* nothing but what was just encrypted: must open *)
  | EOk _ _, DcBad => true
  | _, _ => false
  end.

(* S4: for a document the checker accepts, opening the stored form yields the same values and flags *)
Definition s_opens_differently (c : case) : bool :=
  match c_loads c, c_enc c with
  | LoadOk, EOk _ _ =>
      match c_ev_plain c, c_ev_enc c with
      | EvOk a _ ea, EvOk b _ eb => negb (String.eqb a b) || negb (ea =? eb)
      | EvOther, EvOther => false          (* neither form yields an environment (no `values`) *)
      | _, _ => true
      end
  | _, _ => false
  end.

Definition spec_fail (c : case) : bool :=
  std_tree (c_in c) && (s_plaintext_remains c || leaks c || s_not_restored c || s_opens_differently c).

(* known finding C04-dollar (only while ast.parseSecret un-escapes the plaintext): a plaintext with "$$" *)
Definition known_dollar (c : case) : bool :=
  negb ast_plain_literal
  && existsb (fun s : string + string => match s with inl p => has_dollar_escape p | inr _ => false end)
             (m_ysecrets (c_in c)).

(* known finding C12-blockscalar (yaml.v3 cannot write the string as a block scalar), see Model/YamlTree.v *)
Definition known_block (c : case) : bool :=
  match m_encrypt_doc (c_key c) (c_pad c) (c_in c) with
  | ROk y => codec_tolerated y
            || match m_decrypt_doc (c_key c) (c_pad c) (resolved y) with ROk d => codec_tolerated d | RErr _ => false end
  | RErr _ => false
  end.

Definition known (c : case) : bool := known_dollar c || known_block c.

Definition spec_fail_new (c : case) : bool :=
  std_tree (c_in c)
  && (s_plaintext_remains c || leaks c
      || (s_not_restored c && negb (known_block c))
      || (s_opens_differently c && negb (known c))).
Definition spec_fail_known (c : case) : bool := spec_fail c && negb (spec_fail_new c).

Definition nontrivial (c : case) : bool :=
  existsb is_plain (m_ysecrets (c_in c)) && match c_enc c with EOk _ _ => true | _ => false end.

(* ------------------------------------------------------------------------------------------------------
   wire *)
Definition dec_enc_outcome (x : sexp) : option enc_outcome :=
  match x with
  | SList [Atom "ok"; t; text] =>
      match dec_tree t, atom_str text with Some y, Some s => Some (EOk y s) | _, _ => None end
  | SList [Atom "err"; e] => match dec_err e with Some e => Some (EErr e) | None => None end
  | Atom "bad" => Some EBad
  | _ => None
  end.

Definition dec_dec_outcome (x : sexp) : option dec_outcome :=
  match x with
  | SList [Atom "ok"; t] => match dec_tree t with Some y => Some (DcOk y) | None => None end
  | SList [Atom "err"; e] => match dec_err e with Some e => Some (DcErr e) | None => None end
  | Atom "bad" => Some DcBad
  | Atom "none" => Some DcNone
  | _ => None
  end.

Definition dec_ev (x : sexp) : option ev_outcome :=
  match x with
  | SList [Atom "ok"; canon; leaves; errs] =>
      match atom_str canon, slist_of atom_str leaves, atom_N errs with
      | Some c, Some l, Some e => Some (EvOk c l e)
      | _, _, _ => None
      end
  | Atom "loaderr" => Some EvLoadErr
  | Atom "panic" => Some EvPanic
  | Atom "other" => Some EvOther
  | _ => None
  end.

Definition dec_load (x : sexp) : option load_outcome :=
  match x with
  | Atom "ok" => Some LoadOk | Atom "err" => Some LoadErr | Atom "panic" => Some LoadPanic | _ => None
  end.

Definition decode (x : sexp) : option case :=
  match x with
  | SList [Atom "c04"; key; pad; tin; loads; enc; dec; evp; eve] =>
      match atom_N key, atom_nat pad, dec_tree tin, dec_load loads with
      | Some key, Some pad, Some y, Some ld =>
          match dec_enc_outcome enc, dec_dec_outcome dec, dec_ev evp, dec_ev eve with
          | Some e, Some d, Some p, Some q => Some (mkCase key pad y ld e d p q)
          | _, _, _, _ => None
          end
      | _, _, _, _ => None
      end
  | _ => None
  end.

Definition verdict (c : case) : N :=
  verdict_bits (mismatch c) (spec_fail_new c) (spec_fail_known c) (nontrivial c).

Definition run_line : string -> string := run_with decode verdict.
