(* Corr/C19.v — case type and predicates evaluated by the correspondence of C19.

   One case = the documents of a run (name, bytes, yaml.v3's own description of every node) and every range the
   implementation reported (where it came from, the environment it names, the yaml node it belongs to when the
   harness could walk to it, and the six numbers).
     mismatch   the range differs from the model's range for that node (model fed with yaml.v3's line, column,
                value, style, tag), or — for ranges the harness could not attach to a node (definition traces,
                diagnostics, resolved-value ranges) — it is the model's range of no node of that document
     spec_fail  evaluated on the implementation's numbers and the text alone: a position that does not exist in the
                text or whose byte offset disagrees with its line and column (two independent computations:
                [true_byte] and [scan_pos]), begin after end, end outside the text, the text of a plain single-line
                scalar's range is not the scalar, the text of an accessor's range is not that piece of the scalar
     known      the decidable classes of the recorded findings; they are functions of the source facts
                (Src/SrcPositions.v) and become empty when the corresponding repair is in the source. *)
From Verif Require Import Base.Bytes Base.Wire Model.Positions Src.SrcPositions.
Local Open Scope Z_scope.

Definition params : pos_params :=
  {| pp_lo := pos_line_lo; pp_hi_incl := pos_line_hi_inclusive; pp_clamp := pos_ascii_clamp;
     pp_runes := pos_column_runes; pp_end_chars := end_len_chars; pp_tag_chars := end_tag_len_chars;
     pp_sr_runes := scalar_range_runes |}.

Record wnode := { wn_line : Z; wn_col : Z; wn_kind : N; wn_style : N; wn_tag : string; wn_value : string;
                  wn_last : Z; wn_anch : bool }.
Record wdoc := { wd_name : string; wd_text : string; wd_nodes : list wnode }.
(* what an accessor range is the range OF: the key or index the evaluator resolved *)
Inductive accd := ANone | AKey (k : string) | AIdx (i : Z).
Record wrange := { wr_what : string; wr_env : string; wr_node : Z; wr_b : hpos; wr_e : hpos; wr_acc : accd }.

Inductive case := CCrash | CCase (docs : list wdoc) (ranges : list wrange).

(* ---- the yaml node (with the chain of last children, which is all yamlEndPos looks at) ---- *)
Fixpoint build (fuel : nat) (nodes : list wnode) (i : Z) : option ynode :=
  match fuel with
  | O => None
  | S f =>
      if i <? 0 then None else
      match nth_error nodes (Z.to_nat i) with
      | None => None
      | Some w =>
          let mk ch := YNode (wn_kind w) (wn_style w) (wn_tag w) (wn_value w) (wn_line w) (wn_col w) (wn_anch w) ch in
          if wn_last w <? 0 then Some (mk [])
          else match build f nodes (wn_last w) with Some c => Some (mk [c]) | None => None end
      end
  end.

Record pnode := { pn_w : wnode; pn_y : option ynode; pn_r : option (hpos * hpos) }.
Record pdoc := { pd_name : string; pd_text : string; pd_nodes : list pnode }.

Fixpoint seqZ (n : nat) (from : Z) : list Z :=
  match n with O => [] | S k => from :: seqZ k (from + 1) end.

Definition prep (d : wdoc) : pdoc :=
  let idx := new_position_index (wd_text d) in
  let n := length (wd_nodes d) in
  {| pd_name := wd_name d; pd_text := wd_text d;
     pd_nodes := map (fun '(i, w) =>
                        let y := build (S n) (wd_nodes d) i in
                        {| pn_w := w; pn_y := y;
                           pn_r := match y with Some y => node_range params idx y | None => None end |})
                     (combine (seqZ n 0) (wd_nodes d)) |}.

Fixpoint find_doc (name : string) (ds : list pdoc) : option pdoc :=
  match ds with
  | [] => None
  | d :: r => if String.eqb (pd_name d) name then Some d else find_doc name r
  end.

Definition hpos_eqb (a b : hpos) : bool :=
  (p_line a =? p_line b) && (p_col a =? p_col b) && (p_byte a =? p_byte b).
Definition range_eqb (a b : hpos * hpos) : bool := hpos_eqb (fst a) (fst b) && hpos_eqb (snd a) (snd b).

Definition hzero (h : hpos) : bool := (p_line h =? 0) && (p_col h =? 0) && (p_byte h =? 0).
Definition is_zero (r : wrange) : bool := hzero (wr_b r) && hzero (wr_e r).

Definition impl_range (r : wrange) : hpos * hpos := (wr_b r, wr_e r).

Definition what_node (w : string) : bool := String.eqb w "expr" || String.eqb w "key" || String.eqb w "name".
Definition what_sub (w : string) : bool := String.eqb w "acc" || String.eqb w "diag".

(* is [impl] the ScalarRange sub-range the model computes inside node [y] with range [rg]? *)
Definition sub_match (y : ynode) (rg : hpos * hpos) (impl : hpos * hpos) : bool :=
  let st := p_byte (fst impl) - p_byte (fst rg) in
  let en := p_byte (snd impl) - p_byte (fst rg) in
  (0 <=? st) && (st <=? en) && (en <=? slenZ (yn_value y))
  && match scalar_range params y rg (Z.to_nat st) (Z.to_nat en) with
     | Some m => range_eqb m impl
     | None => false
     end.

Definition member (d : pdoc) (sub : bool) (impl : hpos * hpos) : bool :=
  existsb (fun pn => match pn_r pn, pn_y pn with
                     | Some rg, Some y => range_eqb rg impl || (sub && sub_match y rg impl)
                     | _, _ => false
                     end) (pd_nodes d).

Definition mismatch_range (ds : list pdoc) (r : wrange) : bool :=
  match find_doc (wr_env r) ds with
  | None => negb (is_zero r)
  | Some d =>
      let impl := impl_range r in
      if wr_node r <? 0 then negb (is_zero r || member d (what_sub (wr_what r)) impl)
      else match nth_error (pd_nodes d) (Z.to_nat (wr_node r)) with
           | Some {| pn_y := Some y; pn_r := Some rg |} =>
               if what_node (wr_what r) then negb (range_eqb rg impl)
               else if String.eqb (wr_what r) "acc" then
                 if is_zero r
                 then match scalar_range params y rg 0 0 with None => false | Some _ => true end
                 else negb (sub_match y rg impl)
               else true
           | _ => true
           end
  end.

(* ---- the specification, on the implementation's numbers ---- *)
Definition optZ_is (o : option Z) (b : Z) : bool := match o with Some x => x =? b | None => false end.

Definition pos_ok (text : string) (h : hpos) : bool :=
  optZ_is (true_byte text (p_line h) (p_col h)) (p_byte h)
  && optZ_is (scan_pos text 0 1 1 0 (p_line h) (p_col h)) (p_byte h).

Definition nlines (text : string) : Z := Z.of_nat (length (lines_of text)).

(* known classes of a single position *)
Definition kc_past_eol (text : string) (h : hpos) : bool := past_eol text (p_line h) (p_col h).
Definition kc_zero_width (text : string) (h : hpos) : bool := zero_width_before params text (p_line h) (p_col h).
(* (the last line of a document without final newline is NOT a known class: that defect is repaired in the source,
   line_table_fixed is a proof obligation) *)
Definition pos_known (text : string) (h : hpos) : bool :=
  kc_past_eol text h || kc_zero_width text h.

(* ---- the text under the range of an accessor spells that accessor: the bare name, the name after a dot, the
        name in brackets (bare, or quoted with backslash-escaped quotes), a decimal index in brackets; an
        unterminated subscript lacks the closing quote / bracket ---- *)
Definition strip_prefix (p s : string) : option string :=
  if sprefix p s then Some (sdrop (String.length p) s) else None.

Fixpoint strip_last (c : ascii) (s : string) : string :=
  match s with
  | EmptyString => EmptyString
  | String a r => match r with
                  | EmptyString => if Ascii.eqb a c then EmptyString else s
                  | String _ _ => String a (strip_last c r)
                  end
  end.

Definition bslash : ascii := ascii_of_N 92.
Definition dquote : ascii := ascii_of_N 34.

Fixpoint unescape_q (s : string) : string :=
  match s with
  | EmptyString => EmptyString
  | String a r =>
      match r with
      | String b r' => if Ascii.eqb a bslash && Ascii.eqb b dquote then String dquote (unescape_q r')
                       else String a (unescape_q r)
      | EmptyString => s
      end
  end.

Definition spelled (sl : string) (a : accd) : bool :=
  match a with
  | ANone => true
  | AKey EmptyString => true
  | AKey k =>
      String.eqb sl k || String.eqb sl (String "."%char k)
      || match strip_prefix (String "["%char (String dquote EmptyString)) sl with
         | Some body => String.eqb (unescape_q (strip_last dquote (strip_last "]"%char body))) k
         | None => false
         end
      || match strip_prefix "[" sl with
         | Some body => String.eqb (strip_last "]"%char body) k
         | None => false
         end
  | AIdx i =>
      match strip_prefix "[" sl with
      | Some body =>
          let ds := strip_last "]"%char body in
          match ds, dec_digits ds 0 with
          | String _ _, Some n => Z.of_N n =? i
          | _, _ => false
          end
      | None => false
      end
  end.

(* (failure of the slice requirement, is it inside a known class) *)
Definition slice_check (text : string) (what : string) (pn : option pnode) (r : wrange) : bool * bool :=
  match pn with
  | Some {| pn_w := w |} =>
      let v := wn_value w in
      let loc := located text (wn_line w) (wn_col w) v in
      let sl := substr (p_byte (wr_b r)) (p_byte (wr_e r)) text in
      if negb ((wn_kind w =? 8)%N && (wn_style w =? 0)%N) then (false, false)
      else if what_node what then
        ((loc || wn_anch w) && negb (String.eqb sl v),
         wn_anch w || (negb (pp_end_chars params) && negb (is_ascii_str v)))
      else if String.eqb what "acc" then
        match true_byte text (wn_line w) (wn_col w) with
        | Some nb =>
            let st := p_byte (wr_b r) - nb in
            let en := p_byte (wr_e r) - nb in
            (negb ((0 <=? st) && (st <=? en) && (en <=? slenZ v)) || negb (String.eqb sl (substr st en v))
             || negb (spelled sl (wr_acc r)),
             wn_anch w || negb loc)
        | None => (true, false)
        end
      else (false, false)
  | None => (false, false)
  end.

(* zero-width characters inside the scalar before an accessor: ScalarRange's column advance (uniseg.StringWidth) *)
Definition kc_sr_width (pn : option pnode) (text : string) (r : wrange) : bool :=
  match pn with
  | Some {| pn_w := w |} =>
      match true_byte text (wn_line w) (wn_col w) with
      | Some nb => negb (pp_sr_runes params)
                   && negb (forallb w1 (chars_of (stake (Z.to_nat (p_byte (wr_e r) - nb)) (wn_value w))))
      | None => false
      end
  | None => false
  end.

(* a plain scalar of the document whose text contains the range (diagnostics about an accessor carry the accessor's
   range but no path the harness could walk) *)
Definition enclosing_scalar (d : pdoc) (r : wrange) : option pnode :=
  find (fun pn =>
          let w := pn_w pn in
          (wn_kind w =? 8)%N && (wn_style w =? 0)%N && (wn_line w =? p_line (wr_b r))
          && match true_byte (pd_text d) (wn_line w) (wn_col w) with
             | Some nb => (nb <=? p_byte (wr_b r)) && (p_byte (wr_e r) <=? nb + slenZ (wn_value w))
             | None => false
             end) (pd_nodes d).

(* (fails, inside known classes) for one range *)
Definition spec_range (ds : list pdoc) (r : wrange) : bool * bool :=
  if is_zero r then (false, false) else
  match find_doc (wr_env r) ds with
  | None => (true, false)                    (* names an environment that is not there *)
  | Some d =>
      let text := pd_text d in
      let pn := if wr_node r <? 0 then None else nth_error (pd_nodes d) (Z.to_nat (wr_node r)) in
      let isacc := String.eqb (wr_what r) "acc" in
      let srk := (isacc && kc_sr_width pn text r)
                 || ((isacc || String.eqb (wr_what r) "diag") && (wr_node r <? 0)
                     && kc_sr_width (enclosing_scalar d r) text r) in
      let fb := negb (pos_ok text (wr_b r)) in
      let fe := negb (pos_ok text (wr_e r)) in
      (* a plain single-line scalar found at its yaml position can only be reported past the end of its line
         through the byte-length end column of a non-ASCII value *)
      let strict := match pn with
                    | Some {| pn_w := w |} =>
                        what_node (wr_what r) && (wn_kind w =? 8)%N && (wn_style w =? 0)%N && negb (wn_anch w)
                        && located text (wn_line w) (wn_col w) (wn_value w)
                    | None => false
                    end in
      let bytes_end := match pn with
                       | Some {| pn_w := w |} => negb (pp_end_chars params) && negb (is_ascii_str (wn_value w))
                       | None => false
                       end in
      let kb := if strict then kc_zero_width text (wr_b r) else pos_known text (wr_b r) || srk in
      let ke := if strict then kc_zero_width text (wr_e r) || (kc_past_eol text (wr_e r) && bytes_end)
                else pos_known text (wr_e r) || srk in
      let forder := (p_byte (wr_e r) <? p_byte (wr_b r)) || (slenZ text <? p_byte (wr_e r)) || (p_byte (wr_b r) <? 0) in
      let excused := (fb && kb) || (fe && ke) in
      (* an accessor range the harness could not attach to a node (bases): the plain scalar that contains it;
         if there is none, only the spelling is required, excused when the document has a multi-line or
         anchored plain scalar it may belong to *)
      let pn_acc := match pn with
                    | Some _ => pn
                    | None => if isacc then enclosing_scalar d r else None
                    end in
      let (fs, ks) :=
        match pn_acc with
        | Some _ => slice_check text (wr_what r) pn_acc r
        | None =>
            if isacc
            then (negb (spelled (substr (p_byte (wr_b r)) (p_byte (wr_e r)) text) (wr_acc r)),
                  existsb (fun q => let w := pn_w q in
                                    (wn_kind w =? 8)%N && (wn_style w =? 0)%N
                                    && (wn_anch w || negb (located text (wn_line w) (wn_col w) (wn_value w))))
                          (pd_nodes d))
            else slice_check text (wr_what r) pn r
        end in
      (fb || fe || forder || fs,
       (negb fb || kb) && (negb fe || ke) && (negb forder || excused) && (negb fs || ks || excused))
  end.

Definition mismatch (c : case) : bool :=
  match c with
  | CCrash => false
  | CCase docs ranges => let ds := map prep docs in existsb (mismatch_range ds) ranges
  end.

Definition spec_fail_new (c : case) : bool :=
  match c with
  | CCrash => false
  | CCase docs ranges =>
      let ds := map prep docs in
      existsb (fun r => let (f, k) := spec_range ds r in f && negb k) ranges
  end.

Definition spec_fail_known (c : case) : bool :=
  match c with
  | CCrash => false
  | CCase docs ranges =>
      let ds := map prep docs in
      existsb (fun r => let (f, k) := spec_range ds r in f && k) ranges
  end.

Definition spec_fail (c : case) : bool := spec_fail_new c || spec_fail_known c.

Definition nontrivial (c : case) : bool :=
  match c with
  | CCrash => false
  | CCase _ ranges => existsb (fun r => negb (is_zero r)) ranges
  end.

(* ---- wire format ---- *)

Definition dec_node (x : sexp) : option wnode :=
  match x with
  | SList [Atom "n"; l; c; k; s; t; v; la; a] =>
      match atom_Z l, atom_Z c, atom_N k, atom_N s with
      | Some l, Some c, Some k, Some s =>
          match atom_str t, atom_str v, atom_Z la, atom_bool a with
          | Some t, Some v, Some la, Some a =>
              Some {| wn_line := l; wn_col := c; wn_kind := k; wn_style := s; wn_tag := t; wn_value := v;
                      wn_last := la; wn_anch := a |}
          | _, _, _, _ => None
          end
      | _, _, _, _ => None
      end
  | _ => None
  end.

Definition dec_doc (x : sexp) : option wdoc :=
  match x with
  | SList [Atom "d"; name; text; nodes] =>
      match atom_str name, atom_str text, slist_of dec_node nodes with
      | Some name, Some text, Some nodes => Some {| wd_name := name; wd_text := text; wd_nodes := nodes |}
      | _, _, _ => None
      end
  | _ => None
  end.

Definition dec_pos (l c b : sexp) : option hpos :=
  match atom_Z l, atom_Z c, atom_Z b with
  | Some l, Some c, Some b => Some {| p_line := l; p_col := c; p_byte := b |}
  | _, _, _ => None
  end.

Definition dec_acc (x : sexp) : option accd :=
  match x with
  | SList [Atom "k"; k] => match atom_str k with Some k => Some (AKey k) | None => None end
  | SList [Atom "i"; i] => match atom_Z i with Some i => Some (AIdx i) | None => None end
  | _ => None
  end.

Definition dec_range_with (what : string) (env node bl bc bb el ec eb : sexp) (a : accd) : option wrange :=
  match atom_str env, atom_Z node, dec_pos bl bc bb, dec_pos el ec eb with
  | Some env, Some node, Some b, Some e =>
      Some {| wr_what := what; wr_env := env; wr_node := node; wr_b := b; wr_e := e; wr_acc := a |}
  | _, _, _, _ => None
  end.

Definition dec_range (x : sexp) : option wrange :=
  match x with
  | SList [Atom "r"; Atom what; env; node; bl; bc; bb; el; ec; eb] =>
      dec_range_with what env node bl bc bb el ec eb ANone
  | SList [Atom "r"; Atom what; env; node; bl; bc; bb; el; ec; eb; a] =>
      match dec_acc a with
      | Some a => dec_range_with what env node bl bc bb el ec eb a
      | None => None
      end
  | _ => None
  end.

Definition decode (x : sexp) : option case :=
  match x with
  | SList [Atom "crash"] => Some CCrash
  | SList [Atom "c19"; docs; ranges] =>
      match slist_of dec_doc docs, slist_of dec_range ranges with
      | Some ds, Some rs => Some (CCase ds rs)
      | _, _ => None
      end
  | _ => None
  end.

Definition verdict (c : case) : N :=
  verdict_bits (mismatch c) (spec_fail_new c) (spec_fail_known c) (nontrivial c).

Definition run_line : string -> string := run_with decode verdict.
