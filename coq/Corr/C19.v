(* Corr/C19.v — case type and predicates evaluated by the correspondence of C19.

   One case = the documents of a run (name, bytes, yaml.v3's own description of every node, rivo/uniseg's own
   segmentation of every non-ASCII line and its StringWidth of every prefix of every scalar that is not printable
   ASCII) and every range the implementation reported (where it came from, the environment it names, the yaml node it
   belongs to when the harness could walk to it, and the six numbers).  A run that panicked or killed the process is
   the case [CCrash]: a specification failure of its own (no range can be trusted), never a pass.
     mismatch   the range differs from the model's range for that node (model fed with yaml.v3's line, column,
                value, style, tag and with uniseg's clusters), or — for ranges the harness could not attach to a node
                (definition traces, diagnostics, resolved-value ranges) — it is the model's range of no node of that
                document
     spec_fail  evaluated on the implementation's numbers and the text alone: a position that does not exist in the
                text or whose byte offset disagrees with its line and column (two independent computations:
                [true_byte] and [scan_pos]), begin after end, end outside the text, the text of a plain single-line
                scalar's range is not the scalar, the text of an accessor's range is not that piece of the scalar
     known      DESIGN §6 rule (2): a failing range is a recorded finding only if (a) the model — the code as it is
                today — predicts exactly the implementation's six numbers for it ([attach]), and (b) the CAUSE of the
                failing requirement, read off the node the model attaches the range to, is one of the recorded ones:
                  1  C19-bytes              the end comes from a scalar with a non-ASCII value (length in bytes)
                  2  C19-past-eol           the end comes from a scalar that is not a plain single-line scalar standing
                                            at its yaml position (block, folded, quoted, tagged, multi-line)
                  4  C19-zero-width         a cluster that is not one code point of width 1 before the position on a
                                            line with non-ASCII text (TAB, wide character, combining sequence)
                  8  C19-anchored           the node carries an anchor
                  16 C19-accessor-multiline a sub-range of a plain scalar that continues on following lines
                  32 C19-accessor-tab       StringWidth of the scalar's prefix is not its number of code points
                A plain single-line ASCII scalar found at its yaml position with regular text before it has NO excuse.
                The classes 1, 4, 32 are functions of the source facts (Src/SrcPositions.v) and empty after the repair. *)
From Verif Require Import Base.Bytes Base.Wire Model.Positions Src.SrcPositions.
Local Open Scope Z_scope.

Definition params : pos_params :=
  {| pp_lo := pos_line_lo; pp_hi_incl := pos_line_hi_inclusive; pp_clamp := pos_ascii_clamp;
     pp_runes := pos_column_runes; pp_end_chars := end_len_chars; pp_tag_chars := end_tag_len_chars;
     pp_sr_runes := scalar_range_runes |}.

(* wn_pw: uniseg.StringWidth (value[:k]) for k = 0 .. len(value); empty for printable-ASCII values *)
Record wnode := { wn_line : Z; wn_col : Z; wn_kind : N; wn_style : N; wn_tag : string; wn_value : string;
                  wn_last : Z; wn_anch : bool; wn_pw : list Z }.
(* wd_segs: for every non-ASCII line (0-based index) the clusters uniseg.Step yields: (byte length, width) *)
Record wdoc := { wd_name : string; wd_text : string; wd_nodes : list wnode; wd_segs : list (Z * list (Z * Z)) }.
(* what an accessor range is the range OF: the key or index the evaluator resolved *)
Inductive accd := ANone | AKey (k : string) | AIdx (i : Z).
Record wrange := { wr_what : string; wr_env : string; wr_node : Z; wr_b : hpos; wr_e : hpos; wr_acc : accd }.

Inductive case := CCrash | CCase (docs : list wdoc) (ranges : list wrange).

(* ---- the library's answers for this document ---- *)
Fixpoint cut_cl (l : string) (cl : list (Z * Z)) : list (string * Z) :=
  match cl with
  | [] => []
  | (n, w) :: r => (stake (Z.to_nat n) l, w) :: cut_cl (sdrop (Z.to_nat n) l) r
  end.

Fixpoint printable_ascii (s : string) : bool :=
  match s with
  | EmptyString => true
  | String c r => let n := N_of_ascii c in (32 <=? n)%N && (n <? 127)%N && printable_ascii r
  end.

Definition doc_uniseg (d : wdoc) : uniseg :=
  let ls := lines_of (wd_text d) in
  let tab := map (fun '(i, cl) => let l := nth (Z.to_nat i) ls EmptyString in (l, cut_cl l cl)) (wd_segs d) in
  let pws := filter (fun w => match wn_pw w with [] => false | _ :: _ => true end) (wd_nodes d) in
  {| u_seg := fun l => match find (fun e => String.eqb (fst e) l) tab with
                       | Some e => snd e
                       | None => seg_simple [] l
                       end;
     u_width := fun s => if printable_ascii s then slenZ s
                         else match find (fun w => sprefix s (wn_value w)) pws with
                              | Some w => nth (String.length s) (wn_pw w) 0
                              | None => sum_w (seg_simple [] s)
                              end |}.

(* ---- the yaml node (with the chain of last children, which is all yamlEndPos looks at) ---- *)
Fixpoint build (fuel : nat) (nodes : list wnode) (i : Z) : option ynode :=
  match fuel with
  | O => None
  | S f =>
      if i <? 0 then None else
      match nth_error nodes (Z.to_nat i) with
      | None => None
      | Some w =>
          let mk ch := YNode (wn_kind w) (wn_style w) (wn_tag w) (wn_value w) (wn_line w) (wn_col w) (wn_anch w) ch in
          if wn_last w <? 0 then Some (mk [])
          else match build f nodes (wn_last w) with Some c => Some (mk [c]) | None => None end
      end
  end.

(* the node at the end of the chain of last children: the one whose value yamlEndPos measures *)
Fixpoint leaf_of (fuel : nat) (nodes : list wnode) (i : Z) : option wnode :=
  match fuel with
  | O => None
  | S f =>
      if i <? 0 then None else
      match nth_error nodes (Z.to_nat i) with
      | None => None
      | Some w => if wn_last w <? 0 then Some w else leaf_of f nodes (wn_last w)
      end
  end.

Record pnode := { pn_w : wnode; pn_y : option ynode; pn_r : option (hpos * hpos); pn_leaf : option wnode }.
(* pd_tab: the lines of the text with their offsets (Model.Positions.text_table), computed once; the oracle functions
   over it are proved equal to the specification functions over the text (C19_fast_oracle_is_the_specification) *)
Record pdoc := { pd_name : string; pd_text : string; pd_len : Z; pd_tab : list (Z * string); pd_u : uniseg;
                 pd_nodes : list pnode }.

Fixpoint seqZ (n : nat) (from : Z) : list Z :=
  match n with O => [] | S k => from :: seqZ k (from + 1) end.

Definition prep (d : wdoc) : pdoc :=
  let idx := new_position_index (wd_text d) in
  let u := doc_uniseg d in
  let n := length (wd_nodes d) in
  {| pd_name := wd_name d; pd_text := wd_text d; pd_len := slenZ (wd_text d); pd_tab := text_table (wd_text d); pd_u := u;
     pd_nodes := map (fun '(i, w) =>
                        let y := build (S n) (wd_nodes d) i in
                        {| pn_w := w; pn_y := y;
                           pn_r := match y with Some y => node_range params u idx y | None => None end;
                           pn_leaf := leaf_of (S n) (wd_nodes d) i |})
                     (combine (seqZ n 0) (wd_nodes d)) |}.

Fixpoint find_doc (name : string) (ds : list pdoc) : option pdoc :=
  match ds with
  | [] => None
  | d :: r => if String.eqb (pd_name d) name then Some d else find_doc name r
  end.

Definition hpos_eqb (a b : hpos) : bool :=
  (p_line a =? p_line b) && (p_col a =? p_col b) && (p_byte a =? p_byte b).
Definition range_eqb (a b : hpos * hpos) : bool := hpos_eqb (fst a) (fst b) && hpos_eqb (snd a) (snd b).

Definition hzero (h : hpos) : bool := (p_line h =? 0) && (p_col h =? 0) && (p_byte h =? 0).
Definition is_zero (r : wrange) : bool := hzero (wr_b r) && hzero (wr_e r).

Definition impl_range (r : wrange) : hpos * hpos := (wr_b r, wr_e r).

Definition what_node (w : string) : bool := String.eqb w "expr" || String.eqb w "key" || String.eqb w "name".
Definition what_sub (w : string) : bool := String.eqb w "acc" || String.eqb w "diag".

(* is [impl] the ScalarRange sub-range the model computes inside node [y] with range [rg]? *)
Definition sub_match (u : uniseg) (y : ynode) (rg : hpos * hpos) (impl : hpos * hpos) : bool :=
  let st := p_byte (fst impl) - p_byte (fst rg) in
  let en := p_byte (snd impl) - p_byte (fst rg) in
  (0 <=? st) && (st <=? en) && (en <=? slenZ (yn_value y))
  && match scalar_range params u y rg (Z.to_nat st) (Z.to_nat en) with
     | Some m => range_eqb m impl
     | None => false
     end.

(* does the model reproduce [impl] as the range of node [pn] (false) or as a sub-range of it (true)? *)
Definition reproduces (u : uniseg) (pn : pnode) (whole sub : bool) (impl : hpos * hpos) : option bool :=
  match pn_r pn, pn_y pn with
  | Some rg, Some y => if whole && range_eqb rg impl then Some false
                       else if sub && sub_match u y rg impl then Some true
                       else None
  | _, _ => None
  end.

(* the nodes the model attaches a (non-zero) range to: the node the harness walked to, if the model gives that node
   exactly this range; for ranges the harness could not walk to, every node of the document with exactly this range.
   Empty = the model does not reproduce the implementation's numbers. *)
Definition attach (d : pdoc) (r : wrange) : list (pnode * bool) :=
  let impl := impl_range r in
  let u := pd_u d in
  if wr_node r <? 0 then
    flat_map (fun pn => match reproduces u pn true (what_sub (wr_what r)) impl with
                        | Some s => [(pn, s)]
                        | None => []
                        end) (pd_nodes d)
  else match nth_error (pd_nodes d) (Z.to_nat (wr_node r)) with
       | Some pn =>
           match reproduces u pn (what_node (wr_what r)) (String.eqb (wr_what r) "acc") impl with
           | Some s => [(pn, s)]
           | None => []
           end
       | None => []
       end.

(* ---- the specification, on the implementation's numbers ---- *)
Definition optZ_is (o : option Z) (b : Z) : bool := match o with Some x => x =? b | None => false end.

Definition pos_ok (d : pdoc) (h : hpos) : bool :=
  optZ_is (true_byte_tab (pd_tab d) (p_line h) (p_col h)) (p_byte h)
  && optZ_is (scan_pos (pd_text d) 0 1 1 0 (p_line h) (p_col h)) (p_byte h).

(* ---- the text under the range of an accessor spells that accessor: the bare name, the name after a dot, the
        name in brackets (bare, or quoted with backslash-escaped quotes), a decimal index in brackets; an
        unterminated subscript lacks the closing quote / bracket ---- *)
Definition strip_prefix (p s : string) : option string :=
  if sprefix p s then Some (sdrop (String.length p) s) else None.

Fixpoint strip_last (c : ascii) (s : string) : string :=
  match s with
  | EmptyString => EmptyString
  | String a r => match r with
                  | EmptyString => if Ascii.eqb a c then EmptyString else s
                  | String _ _ => String a (strip_last c r)
                  end
  end.

Definition bslash : ascii := ascii_of_N 92.
Definition dquote : ascii := ascii_of_N 34.

Fixpoint unescape_q (s : string) : string :=
  match s with
  | EmptyString => EmptyString
  | String a r =>
      match r with
      | String b r' => if Ascii.eqb a bslash && Ascii.eqb b dquote then String dquote (unescape_q r')
                       else String a (unescape_q r)
      | EmptyString => s
      end
  end.

Definition spelled (sl : string) (a : accd) : bool :=
  match a with
  | ANone => true
  | AKey EmptyString => true
  | AKey k =>
      String.eqb sl k || String.eqb sl (String "."%char k)
      || match strip_prefix (String "["%char (String dquote EmptyString)) sl with
         | Some body => String.eqb (unescape_q (strip_last dquote (strip_last "]"%char body))) k
         | None => false
         end
      || match strip_prefix "[" sl with
         | Some body => String.eqb (strip_last "]"%char body) k
         | None => false
         end
  | AIdx i =>
      match strip_prefix "[" sl with
      | Some body =>
          let ds := strip_last "]"%char body in
          match ds, dec_digits ds 0 with
          | String _ _, Some n => Z.of_N n =? i
          | _, _ => false
          end
      | None => false
      end
  end.


(* ---- the slice requirement, evaluated on yaml.v3's node, the text and the implementation's bytes only ---- *)
(* (fails, causes visible on the node) *)
Definition slice_check (d : pdoc) (what : string) (pn : option pnode) (r : wrange) : bool * N :=
  let text := pd_text d in
  match pn with
  | Some {| pn_w := w |} =>
      let v := wn_value w in
      let loc := located_tab text (pd_tab d) (wn_line w) (wn_col w) v in
      let sl := substr (p_byte (wr_b r)) (p_byte (wr_e r)) text in
      if negb ((wn_kind w =? 8)%N && (wn_style w =? 0)%N) then (false, 0%N)
      else if what_node what then
        ((loc || wn_anch w) && negb (String.eqb sl v),
         ((if wn_anch w then 8 else 0) + (if negb (pp_end_chars params) && negb (is_ascii_str v) then 1 else 0))%N)
      else if String.eqb what "acc" then
        match true_byte_tab (pd_tab d) (wn_line w) (wn_col w) with
        | Some nb =>
            let st := p_byte (wr_b r) - nb in
            let en := p_byte (wr_e r) - nb in
            (negb ((0 <=? st) && (st <=? en) && (en <=? slenZ v)) || negb (String.eqb sl (substr st en v))
             || negb (spelled sl (wr_acc r)),
             (if wn_anch w then 8 else if negb loc then 16 else 0)%N)
        | None => (true, 0%N)
        end
      else (false, 0%N)
  | None => (false, 0%N)
  end.

(* a plain scalar of the document whose text contains the range (accessor ranges the harness could not walk to) *)
Definition enclosing_scalar (d : pdoc) (r : wrange) : option pnode :=
  find (fun pn =>
          let w := pn_w pn in
          (wn_kind w =? 8)%N && (wn_style w =? 0)%N && (wn_line w =? p_line (wr_b r))
          && match true_byte_tab (pd_tab d) (wn_line w) (wn_col w) with
             | Some nb => (nb <=? p_byte (wr_b r)) && (p_byte (wr_e r) <=? nb + slenZ (wn_value w))
             | None => false
             end) (pd_nodes d).

(* ---- causes (see the header) read off the node the model attaches the range to ---- *)
Definition c_irregular (d : pdoc) (h : hpos) : N :=
  if irregular_before_tab params (pd_u d) (pd_tab d) (p_line h) (p_col h) then 4 else 0.

Definition c_leaf (d : pdoc) (lf : option wnode) : N :=
  match lf with
  | Some w =>
      if is_collection (wn_kind w) then 0
      else ((if negb (pp_end_chars params) && negb (is_ascii_str (wn_value w)) then 1 else 0)
            + (if wn_anch w then 8
               else if negb (wn_style w =? 0)
                       || negb (located_tab (pd_text d) (pd_tab d) (wn_line w) (wn_col w) (wn_value w)) then 2
               else 0))%N
  | None => 0%N
  end.

Definition c_sub (d : pdoc) (pn : pnode) (k : Z) : N :=
  let w := pn_w pn in
  ((match pn_r pn with Some rg => c_irregular d (fst rg) | None => 0 end)
   + (if wn_anch w then 8
      else if negb (located_tab (pd_text d) (pd_tab d) (wn_line w) (wn_col w) (wn_value w)) then 16 else 0)
   + (if sr_irregular params (pd_u d) (wn_value w) (Z.to_nat k) then 32 else 0))%N.

Definition lorN (l : list N) : N := fold_right N.lor 0%N l.

(* (causes for a failing begin, causes for a failing end) *)
Definition causes (d : pdoc) (r : wrange) (a : list (pnode * bool)) : N * N :=
  let one (x : pnode * bool) : N * N :=
    let (pn, sub) := x in
    if sub then
      match pn_r pn with
      | Some rg => (c_sub d pn (p_byte (wr_b r) - p_byte (fst rg)), c_sub d pn (p_byte (wr_e r) - p_byte (fst rg)))
      | None => (0%N, 0%N)
      end
    else (c_irregular d (wr_b r), N.lor (c_irregular d (wr_e r)) (c_leaf d (pn_leaf pn))) in
  (lorN (map (fun x => fst (one x)) a), lorN (map (fun x => snd (one x)) a)).

Record sres := { s_fail : bool; s_known : bool; s_cls : N; s_att : bool; s_mis : bool }.

Definition nz (n : N) : bool := negb (n =? 0)%N.

(* the verdict on one range: specification (on the implementation's numbers), known class, model agreement *)
Definition spec_range (ds : list pdoc) (r : wrange) : sres :=
  match find_doc (wr_env r) ds with
  | None =>      (* names an environment that is not there *)
      {| s_fail := negb (is_zero r); s_known := false; s_cls := 0; s_att := false; s_mis := negb (is_zero r) |}
  | Some d =>
      if is_zero r then
        (* no position reported: fine for ranges without a node; for an accessor of a node the model must return
           nil as well; a node itself always has a position *)
        {| s_fail := false; s_known := false; s_cls := 0; s_att := true;
           s_mis := if wr_node r <? 0 then false
                    else match nth_error (pd_nodes d) (Z.to_nat (wr_node r)) with
                         | Some {| pn_y := Some y; pn_r := Some rg |} =>
                             if String.eqb (wr_what r) "acc"
                             then match scalar_range params (pd_u d) y rg 0 0 with None => false | Some _ => true end
                             else true
                         | _ => true
                         end |}
      else
      let text := pd_text d in
      let a := attach d r in
      let att := match a with [] => false | _ :: _ => true end in
      let isacc := String.eqb (wr_what r) "acc" in
      let fb := negb (pos_ok d (wr_b r)) in
      let fe := negb (pos_ok d (wr_e r)) in
      let forder := (p_byte (wr_e r) <? p_byte (wr_b r)) || (pd_len d <? p_byte (wr_e r)) || (p_byte (wr_b r) <? 0) in
      (* the node whose text the range must delimit: the one the harness walked to; for an accessor it could not
         walk to, the plain scalar of the document that contains the range (if none: only the spelling is required) *)
      let pn := if wr_node r <? 0 then (if isacc then enclosing_scalar d r else None)
                else nth_error (pd_nodes d) (Z.to_nat (wr_node r)) in
      let (fs, cs0) :=
        match pn with
        | Some _ => slice_check d (wr_what r) pn r
        | None => if isacc
                  then (negb (spelled (substr (p_byte (wr_b r)) (p_byte (wr_e r)) text) (wr_acc r)), 0%N)
                  else (false, 0%N)
        end in
      if negb (fb || fe || forder || fs)
      then {| s_fail := false; s_known := false; s_cls := 0; s_att := att; s_mis := negb att |}
      else
        (* something fails: is it a recorded finding?  only if the model reproduces the numbers, and by cause *)
        let (cb, ce) := causes d r a in
        let xb := fb && nz cb in
        let xe := fe && nz ce in
        let excused := xb || xe in
        let cs1 := match pn with
                   | Some _ => cs0
                   | None => if isacc then lorN (map (fun x => N.land (c_sub d (fst x) 0) 24) a) else 0%N
                   end in
        (* the text under the range is wrong although both positions may be consistent: every cause that moves a
           position moves the slice (two shifts can cancel in the position check, e.g. a wide character before the
           scalar and a TAB inside it) *)
        let cs := if att then N.lor cs1 (N.lor cb ce) else 0%N in
        let xs := fs && nz cs in
        {| s_fail := true;
           s_known := att && (negb fb || xb) && (negb fe || xe) && (negb forder || excused) && (negb fs || xs);
           s_cls := N.lor (N.lor (if xb then cb else 0) (if xe then ce else 0)) (if fs then cs else 0)%N;
           s_att := att; s_mis := negb att |}
  end.

Definition mismatch_range (ds : list pdoc) (r : wrange) : bool := s_mis (spec_range ds r).

Definition results (c : case) : list (wrange * sres) :=
  match c with
  | CCrash => []
  | CCase docs ranges => let ds := map prep docs in map (fun r => (r, spec_range ds r)) ranges
  end.

Definition is_crash (c : case) : bool := match c with CCrash => true | CCase _ _ => false end.

Definition mismatch_of (vs : list (wrange * sres)) : bool := existsb (fun x => s_mis (snd x)) vs.
(* a crash or panic of the evaluation is a failure of the specification (outside every known class) *)
Definition fail_new_of (vs : list (wrange * sres)) : bool := existsb (fun x => s_fail (snd x) && negb (s_known (snd x))) vs.
Definition fail_known_of (vs : list (wrange * sres)) : bool := existsb (fun x => s_fail (snd x) && s_known (snd x)) vs.

Definition mismatch (c : case) : bool := mismatch_of (results c).
Definition spec_fail_new (c : case) : bool := is_crash c || fail_new_of (results c).
Definition spec_fail_known (c : case) : bool := fail_known_of (results c).
Definition spec_fail (c : case) : bool := spec_fail_new c || spec_fail_known c.

Definition nontrivial (c : case) : bool :=
  match c with
  | CCrash => true
  | CCase _ ranges => existsb (fun r => negb (is_zero r)) ranges
  end.

(* ---- counts for the evidence (every escape hatch is counted): fields of 6 decimal digits, lowest first:
   0 non-zero ranges, 1 zero ranges (no position: not checked), 2 non-zero ranges without a node (compared by
   membership), 3 failing ranges, 4 failing ranges the model does not reproduce, 5 failing ranges outside the known
   classes, 6.. failing ranges with an excused requirement whose cause is 1, 2, 4, 8, 16, 32, 12 positions whose column
   uniseg counts irregularly (begin or end of a non-zero range), 13 accessor ranges checked for their spelling only ---- *)
Definition cnt {A} (f : A -> bool) (l : list A) : N := N.of_nat (length (filter f l)).

Definition stats (c : case) : N :=
  match c with
  | CCrash => 0%N
  | CCase docs ranges =>
      let ds := map prep docs in
      let vs := map (fun r => (r, spec_range ds r)) ranges in
      let nzr := filter (fun x => negb (is_zero (fst x))) vs in
      let failing := filter (fun x => s_fail (snd x)) nzr in
      let f (k : N) (n : N) : N := (N.min n 999999 * 10 ^ (6 * k))%N in
      let bit (b : N) := cnt (fun x => s_known (snd x) && N.testbit (s_cls (snd x)) b) failing in
      (f 0 (N.of_nat (length nzr))
       + f 1 (cnt (fun x => is_zero (fst x)) vs)
       + f 2 (cnt (fun x => (wr_node (fst x) <? 0)%Z) nzr)
       + f 3 (N.of_nat (length failing))
       + f 4 (cnt (fun x => negb (s_att (snd x))) failing)
       + f 5 (cnt (fun x => negb (s_known (snd x))) failing)
       + f 6 (bit 0) + f 7 (bit 1) + f 8 (bit 2) + f 9 (bit 3) + f 10 (bit 4) + f 11 (bit 5)
       + f 12 (cnt (fun x => match find_doc (wr_env (fst x)) ds with
                             | Some d => nz (c_irregular d (wr_b (fst x))) || nz (c_irregular d (wr_e (fst x)))
                             | None => false
                             end) nzr)
       + f 13 (cnt (fun x => String.eqb (wr_what (fst x)) "acc" && (wr_node (fst x) <? 0)%Z
                             && match find_doc (wr_env (fst x)) ds with
                                | Some d => match enclosing_scalar d (fst x) with Some _ => false | None => true end
                                | None => false
                                end) nzr))%N
  end.

(* ---- wire format ---- *)

Fixpoint pairs_of (l : list Z) : list (Z * Z) :=
  match l with
  | a :: b :: r => (a, b) :: pairs_of r
  | _ => []
  end.

Definition dec_seg (x : sexp) : option (Z * list (Z * Z)) :=
  match x with
  | SList (Atom "s" :: i :: cl) =>
      match atom_Z i, map_opt atom_Z cl with
      | Some i, Some cl => Some (i, pairs_of cl)
      | _, _ => None
      end
  | _ => None
  end.

Definition dec_node (x : sexp) : option wnode :=
  match x with
  | SList [Atom "n"; l; c; k; s; t; v; la; a; pw] =>
      match atom_Z l, atom_Z c, atom_N k, atom_N s with
      | Some l, Some c, Some k, Some s =>
          match atom_str t, atom_str v, atom_Z la, atom_bool a, slist_of atom_Z pw with
          | Some t, Some v, Some la, Some a, Some pw =>
              Some {| wn_line := l; wn_col := c; wn_kind := k; wn_style := s; wn_tag := t; wn_value := v;
                      wn_last := la; wn_anch := a; wn_pw := pw |}
          | _, _, _, _, _ => None
          end
      | _, _, _, _ => None
      end
  | _ => None
  end.

Definition dec_doc (x : sexp) : option wdoc :=
  match x with
  | SList [Atom "d"; name; text; nodes; segs] =>
      match atom_str name, atom_str text, slist_of dec_node nodes, slist_of dec_seg segs with
      | Some name, Some text, Some nodes, Some segs =>
          Some {| wd_name := name; wd_text := text; wd_nodes := nodes; wd_segs := segs |}
      | _, _, _, _ => None
      end
  | _ => None
  end.

Definition dec_pos (l c b : sexp) : option hpos :=
  match atom_Z l, atom_Z c, atom_Z b with
  | Some l, Some c, Some b => Some {| p_line := l; p_col := c; p_byte := b |}
  | _, _, _ => None
  end.

Definition dec_acc (x : sexp) : option accd :=
  match x with
  | SList [Atom "k"; k] => match atom_str k with Some k => Some (AKey k) | None => None end
  | SList [Atom "i"; i] => match atom_Z i with Some i => Some (AIdx i) | None => None end
  | _ => None
  end.

Definition dec_range_with (what : string) (env node bl bc bb el ec eb : sexp) (a : accd) : option wrange :=
  match atom_str env, atom_Z node, dec_pos bl bc bb, dec_pos el ec eb with
  | Some env, Some node, Some b, Some e =>
      Some {| wr_what := what; wr_env := env; wr_node := node; wr_b := b; wr_e := e; wr_acc := a |}
  | _, _, _, _ => None
  end.

Definition dec_range (x : sexp) : option wrange :=
  match x with
  | SList [Atom "r"; Atom what; env; node; bl; bc; bb; el; ec; eb] =>
      dec_range_with what env node bl bc bb el ec eb ANone
  | SList [Atom "r"; Atom what; env; node; bl; bc; bb; el; ec; eb; a] =>
      match dec_acc a with
      | Some a => dec_range_with what env node bl bc bb el ec eb a
      | None => None
      end
  | _ => None
  end.


Definition decode (x : sexp) : option case :=
  match x with
  | SList (Atom "crash" :: _) => Some CCrash
  | SList [Atom "c19"; docs; ranges] =>
      match slist_of dec_doc docs, slist_of dec_range ranges with
      | Some ds, Some rs => Some (CCase ds rs)
      | _, _ => None
      end
  | _ => None
  end.

Definition verdict (c : case) : N :=
  let vs := results c in
  verdict_bits (mismatch_of vs) (is_crash c || fail_new_of vs) (fail_known_of vs) (nontrivial c).

(* decimal rendering of the counts *)
Fixpoint show_N_aux (fuel : nat) (n : N) (acc : string) : string :=
  match fuel with
  | O => acc
  | S f => let acc' := String (N_to_dec_digit (n mod 10)) acc in
           if (n <? 10)%N then acc' else show_N_aux f (n / 10) acc'
  end.
Definition show_N (n : N) : string := show_N_aux 200 n EmptyString.

(* `(c19 docs ranges)` / `(crash)` -> verdict bits;  `(c19s docs ranges)` -> the counts *)
Definition run_line (line : string) : string :=
  match parse_sexp line with
  | Some (SList [Atom "c19s"; docs; ranges]) =>
      match decode (SList [Atom "c19"; docs; ranges]) with
      | Some c => show_N (stats c)
      | None => "16"
      end
  | Some x => match decode x with Some c => show_verdict (verdict c) | None => "16" end
  | None => "16"
  end.
