(* Corr/C01.v — imports compose by ordered JSON merge patch. *)
From Verif Require Import Base.Bytes Base.Wire Model.Chain Model.Eval Corr.EvalWire.

(* ---------------- the specification: JSON merge patch without null deletion ---------------- *)
Fixpoint jdepth (j : json) : nat :=
  match j with
  | JArr l => S (fold_left (fun a x => Nat.max a (jdepth x)) l O)
  | JObj m => S (fold_left (fun a kv => Nat.max a (jdepth (snd kv))) m O)
  | _ => 1%nat
  end.

(* [mp base patch]: the later value [patch] over the earlier [base] *)
Fixpoint mp (fuel : nat) (base patch : json) : json :=
  match fuel with
  | O => patch
  | S f =>
    match base, patch with
    | JObj b, JObj p =>
        JObj (fold_left (fun acc kv =>
                           match alookup (fst kv) acc with
                           | Some old => ainsert (fst kv) (mp f old (snd kv)) acc
                           | None => ainsert (fst kv) (snd kv) acc
                           end) p (fold_left (fun acc kv => ainsert (fst kv) (snd kv) acc) b []))
    | _, _ => patch
    end
  end.

Definition mp' (base patch : json) : json := mp (S (Nat.max (jdepth base) (jdepth patch))) base patch.

Fixpoint json_eqb (fuel : nat) (a b : json) : bool :=
  match fuel with
  | O => false
  | S f =>
    match a, b with
    | JNull, JNull => true
    | JBool x, JBool y => Bool.eqb x y
    | JNum x, JNum y => String.eqb x y
    | JStr x, JStr y => String.eqb x y
    | JArr l, JArr l' => Nat.eqb (length l) (length l') && forallb (fun p => json_eqb f (fst p) (snd p)) (combine l l')
    | JObj m, JObj m' =>
        Nat.eqb (length m) (length m')
        && forallb (fun p => String.eqb (fst (fst p)) (fst (snd p)) && json_eqb f (snd (fst p)) (snd (snd p))) (combine m m')
    | _, _ => false
    end
  end.
Definition jeq (a b : json) : bool := json_eqb (S (jdepth a)) a b.

Definition xj (v : xval) : json := x_to_json (S (x_depth v)) v.

(* a literal expression as JSON (None if it is not a pure literal) *)
Fixpoint lit_json (fuel : nat) (e : expr) : option json :=
  match fuel with
  | O => None
  | S f =>
    match e with
    | ENull => Some JNull
    | EBool b => Some (JBool b)
    | ENum t => Some (JNum t)
    | EStr s => Some (JStr s)
    | EArr l => option_map JArr (mapM (lit_json f) l)
    | EObj kvs =>
        option_map (fun m => JObj (fold_left (fun acc kv => ainsert (fst kv) (snd kv) acc) m []))
                   (mapM (fun kv => option_map (fun j => (fst kv, j)) (lit_json f (snd kv))) kvs)
    | _ => None
    end
  end.

(* ---------------- the case ---------------- *)
Record case := {
  c_name : string; c_def : envdef; c_world : world; c_obs : iobs;
  c_imports : list (string * iobs)          (* each distinct import evaluated on its own as a root *)
}.

Definition obs_json (o : iobs) : option json :=
  match o with
  | IObs (Some v) false _ => Some (xj v)
  | IObs None false _ => Some (JObj [])
  | _ => None
  end.

(* own values of the root may also be ALIASES whose value the case itself determines without any evaluation:
   `${k}` of an own literal key k that no merged import defines (so it has no inherited part), and
   `${imports.x...}` (the observed stand-alone value of x at that path).  They are replaced by that value. *)
Definition import_keys (c : case) : list string :=
  flat_map (fun im : string * bool =>
              if snd im then match alookup (fst im) (c_imports c) with
                             | Some (IObs (Some (XObj _ _ m)) _ _) => map fst m
                             | _ => []
                             end
              else []) (ed_imports (c_def c)).

Fixpoint names_of (p : path) : option (list string) :=
  match p with
  | [] => Some []
  | AName k :: r | AKey k :: r => option_map (cons k) (names_of r)
  | AIdx _ :: _ => None
  end.

Fixpoint jget' (p : list string) (j : json) : option json :=
  match p with
  | [] => Some j
  | k :: r => match j with JObj m => match alookup k m with Some v => jget' r v | None => None end | _ => None end
  end.

Definition resolve_alias (c : case) (e : expr) : expr :=
  match e with
  | ESym [AName k] =>
      if existsb (String.eqb k) (import_keys c) || String.eqb k "imports" || String.eqb k "context" then e
      else match alookup k (ed_values (c_def c)) with
           | Some lit => match lit_json wire_fuel lit with Some _ => lit | None => e end
           | None => e
           end
  | _ => e
  end.

Fixpoint json_to_expr (fuel : nat) (j : json) : expr :=
  match fuel with
  | O => EMissing
  | S f => match j with
           | JNull => ENull | JBool b => EBool b | JNum t => ENum t | JStr s => EStr s
           | JArr l => EArr (map (json_to_expr f) l)
           | JObj m => EObj (map (fun kv => (fst kv, json_to_expr f (snd kv))) m)
           end
  end.

Definition resolve_import_ref (c : case) (e : expr) : expr :=
  match e with
  | ESym (AName "imports" :: AName x :: rest) =>
      match alookup x (c_imports c), names_of rest with
      | Some o, Some ks => match obs_json o with
                           | Some j => match jget' ks j with Some v => json_to_expr (S (jdepth v)) v | None => e end
                           | None => e
                           end
      | _, _ => e
      end
  | _ => e
  end.

Definition own_resolved (c : case) : list (string * expr) :=
  map (fun kv => (fst kv, resolve_import_ref c (resolve_alias c (snd kv)))) (ed_values (c_def c)).

(* the fold the property demands, computed from the implementation's own observations *)
Definition spec_value (c : case) : option json :=
  match lit_json wire_fuel (EObj (own_resolved c)) with
  | None => None
  | Some own =>
      let folded :=
        fold_left (fun acc (im : string * bool) =>
                     match acc with
                     | None => None
                     | Some a =>
                         if (snd im : bool) then
                           match alookup (fst im) (c_imports c) with
                           | Some o => match obs_json o with Some j => Some (mp' a j) | None => None end
                           | None => None
                           end
                         else Some a
                     end) (ed_imports (c_def c)) (Some (JObj [])) in
      match folded with Some a => Some (mp' a own) | None => None end
  end.

Definition spec_fail (c : case) : bool :=
  match obs_json (c_obs c), spec_value c with
  | Some got, Some want => negb (jeq got want)
  | _, _ => false
  end.

(* ---------------- known finding C01-assoc: object / non-object / object across one import group ---------------- *)
(* the flattened chain of an environment of literals, as Go builds it: own layer, then the chains of the merged
   imports, last import first *)
Fixpoint flat (fuel : nat) (W : world) (d : envdef) : list json :=
  match fuel with
  | O => []
  | S f =>
    let own := match lit_json wire_fuel (EObj (ed_values d)) with Some j => [j] | None => [] end in
    own ++ concat (rev (map (fun im : string * bool => if snd im then
                                         match alookup (fst im) (w_envs W) with
                                         | Some (LoadOk d') => flat f W d'
                                         | _ => []
                                         end
                                       else []) (ed_imports d)))
  end.

(* the value of a layer at a path of keys: None = absent *)
Fixpoint jget (p : list string) (j : json) : option json :=
  match p with
  | [] => Some j
  | k :: r => match j with JObj m => match alookup k m with Some v => jget r v | None => None end | _ => None end
  end.

Definition is_jobj (j : json) : bool := match j with JObj _ => true | _ => false end.

Fixpoint jpaths (fuel : nat) (j : json) : list (list string) :=
  match fuel with
  | O => []
  | S f =>
    match j with
    | JObj m => [] :: concat (map (fun kv => map (cons (fst kv)) (jpaths f (snd kv))) m)
    | _ => [[]]
    end
  end.

(* within one group (top first) at path p: an object prefix, then a non-object *)
Fixpoint obj_then_nonobj (p : list string) (g : list json) (seen_obj : bool) : bool :=
  match g with
  | [] => false
  | l :: r => match jget p l with
              | None => obj_then_nonobj p r seen_obj
              | Some v => if is_jobj v then obj_then_nonobj p r true else seen_obj
              end
  end.

Definition kf_oso (c : case) : bool :=
  let W := c_world c in
  let groups := rev (map (fun im : string * bool => if snd im then
                                      match alookup (fst im) (w_envs W) with
                                      | Some (LoadOk d') => flat model_fuel W d'
                                      | _ => []
                                      end
                                    else []) (ed_imports (c_def c))) in
  let paths := concat (map (jpaths wire_fuel) (concat groups)) in
  (* some group cuts at p below its own objects while a lower group still has an object there *)
  existsb (fun p =>
             (fix scan (gs : list (list json)) : bool :=
                match gs with
                | [] => false
                | g :: lower =>
                    (obj_then_nonobj p g false
                     && existsb (fun l => match jget p l with Some v => is_jobj v | None => false end) (concat lower))
                    || scan lower
                end) groups) paths.

Definition mismatch (c : case) : bool :=
  match compare_run (c_world c) (c_name c) (c_def c) (c_obs c) with CmpDiff => true | _ => false end.

(* a failure counts as the RECORDED finding only when the model - which reproduces that finding - predicts exactly what the
   implementation did on this case; any further deviation makes it a new failure with this input as the replay *)
(* worlds in which some environment is not a literal (references, builtins, providers): [flat] gives such an environment no
   layers, so kf_oso cannot see a cut that travels through a reference (theorem C01g_hidden_cut: F y: 5; E imports [F]
   y: {c: 3}, x: ${y}; G x: {b: 2}; D imports [G, E] gives x = {c: 3}).  There the class is delimited by the theorems instead:
   C01g_general proves the fold for the MODEL whenever its decidable chain condition groups_compat holds, and
   C01g_ccompat_false_class shows that the condition fails only on the object / non-object-or-unknown / object pattern of
   C01-assoc; so a fold failure on which the implementation agrees with the model is that finding. *)
Definition env_literal (d : envdef) : bool :=
  match lit_json wire_fuel (EObj (ed_values d)) with Some _ => true | None => false end.
Definition has_nonliteral_env (c : case) : bool :=
  negb (env_literal (c_def c)) ||
  existsb (fun ne => match snd ne with LoadOk d => negb (env_literal d) | _ => false end) (w_envs (c_world c)).

Definition known (c : case) : bool := (kf_oso c || has_nonliteral_env c) && negb (mismatch c).
Definition spec_fail_new (c : case) : bool := spec_fail c && negb (known c).
Definition spec_fail_known (c : case) : bool := spec_fail c && known c.
Definition nontrivial (c : case) : bool := negb (Nat.eqb (length (ed_imports (c_def c))) 0).

Definition decode (x : sexp) : option case :=
  match x with
  | SList [Atom "c01"; n; d; w; o; SList ims] =>
      match atom_str n, dec_envdef d, dec_world w, dec_obs o,
            map_opt (fun io => match io with
                               | SList [i; ob] => match atom_str i, dec_obs ob with
                                                  | Some i, Some ob => Some (i, ob) | _, _ => None end
                               | _ => None end) ims with
      | Some n, Some d, Some w, Some o, Some ims =>
          Some {| c_name := n; c_def := d; c_world := w; c_obs := o; c_imports := ims |}
      | _, _, _, _, _ => None
      end
  | _ => None
  end.

Definition verdict (c : case) : N :=
  verdict_bits (mismatch c) (spec_fail_new c) (spec_fail_known c) (nontrivial c).

Definition run_line : string -> string := run_with decode verdict.
