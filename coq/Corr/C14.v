(* Corr/C14.v — case type and predicates evaluated by the correspondence check of C14.
   A case = prior history (initial definition and revision), the commands, the schedule (interleaving of their
   requests, with the scripted backend faults), and what the gated fake backend and the commands reported when the
   real CLI ran it. *)
From Verif Require Import Base.Bytes Model.Occ Model.OccSrc.

Inductive wtag := WNone | WRev (n : N) | WBad.

(* the backend's log.  RGet: who, definition and revision returned, was it the /decrypt rendering.
   RPatch: who, tag sent, committed?, scripted fault, definition/revision before, text sent, definition/revision after *)
Inductive req :=
| RGet (i : nat) (def : tree) (rev : N) (dec : bool)
| RPatch (i : nat) (t : wtag) (ok : bool) (f : fault) (before : tree) (brev : N) (body : tree) (after : tree) (arev : N).

Inductive status := SOk | SConflict | SErr | SPanic | SOther.

Record case := mkCase {
  c_init : tree; c_irev : N;
  c_ops : list op;
  c_sched : list (nat * fault);
  (* implementation *)
  c_reqs : list req;
  c_out : list status;
  c_final : tree; c_frev : N;
  c_clean : bool            (* no unexpected request, nothing had to be un-gated *)
}.

(* ---- equality tests ---- *)
Fixpoint tree_eqb (a b : tree) : bool :=
  match a, b with
  | TNull, TNull => true
  | TLeaf x, TLeaf y => String.eqb x y
  | TNode ka, TNode kb =>
      (fix go (la lb : list (string * tree)) : bool :=
         match la, lb with
         | [], [] => true
         | (k1, v1) :: ra, (k2, v2) :: rb => String.eqb k1 k2 && tree_eqb v1 v2 && go ra rb
         | _, _ => false
         end) ka kb
  | _, _ => false
  end.

Definition wtag_eqb (a b : wtag) : bool :=
  match a, b with
  | WNone, WNone | WBad, WBad => true
  | WRev x, WRev y => x =? y
  | _, _ => false
  end.

Definition fault_eqb (a b : fault) : bool :=
  match a, b with
  | FNone, FNone | FLost, FLost | FReject, FReject => true
  | _, _ => false
  end.

Definition req_eqb (a b : req) : bool :=
  match a, b with
  | RGet i d r dc, RGet j e s dc' => Nat.eqb i j && tree_eqb d e && (r =? s) && Bool.eqb dc dc'
  | RPatch i t ok f b br bd a ar, RPatch j t' ok' f' b' br' bd' a' ar' =>
      Nat.eqb i j && wtag_eqb t t' && Bool.eqb ok ok' && fault_eqb f f' && tree_eqb b b' && (br =? br')
      && tree_eqb bd bd' && tree_eqb a a' && (ar =? ar')
  | _, _ => false
  end.

Definition status_eqb (a b : status) : bool :=
  match a, b with
  | SOk, SOk | SConflict, SConflict | SErr, SErr | SPanic, SPanic | SOther, SOther => true
  | _, _ => false
  end.

Fixpoint list_eqb {A} (eqb : A -> A -> bool) (a b : list A) : bool :=
  match a, b with
  | [], [] => true
  | x :: r, y :: s => eqb x y && list_eqb eqb r s
  | _, _ => false
  end.

(* ---- the model's prediction ---- *)
Definition model_cmds (c : case) : list (command tree) := map cli_command (c_ops c).

Definition model_run (c : case) : state tree :=
  run (model_cmds c) (c_sched c) (init_state (model_cmds c) (mkStore (c_init c) (c_irev c))).

Definition req_of_event (ops : list op) (e : event tree) : req :=
  match e with
  | EvGet i s => RGet i (s_def s) (s_rev s) (match nth_error ops i with Some o => shows_secrets o | None => false end)
  | EvPatch i t ok f b body a =>
      RPatch i (match t with None => WNone | Some r => WRev r end) ok f (s_def b) (s_rev b) body (s_def a) (s_rev a)
  end.

(* env set / env rm / env edit --file print the diagnostics of a refused update and return nil; the interactive edit
   says "Aborting edit." at the end of its input and returns nil: exit status 0 (see the known class below) *)
Definition status_of_phase (p : phase tree) : status :=
  match p with
  | PDone OOk | PDone ONoWrite | PDone ORejected => SOk
  | PDone OConflict => SConflict
  | PDone OErr | PDone OLost => SErr
  | PDone OPanic => SPanic
  | _ => SOther
  end.

Definition mismatch (c : case) : bool :=
  let fin := model_run c in
  negb (c_clean c
        && list_eqb req_eqb (c_reqs c) (map (req_of_event (c_ops c)) (st_trace fin))
        && list_eqb status_eqb (c_out c) (map status_of_phase (st_ph fin))
        && tree_eqb (c_final c) (s_def (st_store fin))
        && (c_frev c =? s_rev (st_store fin))).

(* ---- the specification, evaluated on what the implementation did (no use of [run]): the backend's log, the exit
   statuses, the final definition; the commands and the prior history are the input of the case ---- *)
Definition is_rmw (o : op) : bool := match o with OpFile _ => false | _ => true end.
Definition is_interactive (o : op) : bool := match o with OpEdit _ _ _ _ => true | _ => false end.

(* the requests of one command, in the order the backend served them *)
Definition by_cmd (i : nat) (r : req) : bool :=
  match r with RGet j _ _ _ => Nat.eqb i j | RPatch j _ _ _ _ _ _ _ _ => Nat.eqb i j end.

(* in a list of EARLIER requests: the definition and revision command [i] last READ - the last GET of [i] that
   fetched the rendering its editor shows (`--show-secrets`: /decrypt) *)
Fixpoint last_read (i : nat) (dec : bool) (seen : list req) (acc : option (tree * N)) : option (tree * N) :=
  match seen with
  | [] => acc
  | RGet j d r dc :: rest => last_read i dec rest (if Nat.eqb i j && Bool.eqb dc dec then Some (d, r) else acc)
  | _ :: rest => last_read i dec rest acc
  end.

(* how many saves of [i] were refused with diagnostics so far = the round of its next save *)
Definition round_of (i : nat) (seen : list req) : nat :=
  length (filter (fun r => match r with RPatch j _ _ FReject _ _ _ _ _ => Nat.eqb i j | _ => false end) seen).

(* one request respects the property, given the requests served before it *)
Definition req_ok (ops : list op) (seen : list req) (r : req) : bool :=
  match r with
  | RGet i _ _ _ => match nth_error ops i with Some _ => true | None => false end
  | RPatch i t ok f before brev body after arev =>
      match nth_error ops i with
      | None => false
      | Some o =>
          let read := last_read i (shows_secrets o) seen None in
          (* the update of a read-modify-write command is conditional on the revision it read *)
          (if is_rmw o then match read with Some (_, g) => wtag_eqb t (WRev g) | None => false end else true)
          &&
          (if ok then
             (* committed: not a refused one; against the definition the command last read; the text is the command's
                edit of the definition current at that moment; the revision advances by one *)
             negb (fault_eqb f FReject)
             && (if is_rmw o then match read with Some (d, g) => (g =? brev) && tree_eqb d before | None => false end
                 else true)
             && match edit_of o (round_of i seen) before with
                | EUpd b' => tree_eqb b' body && tree_eqb after body && (arev =? brev + 1)
                | _ => false
                end
           else
             (* not committed: nothing changed *)
             tree_eqb after before && (arev =? brev))
      end
  end.

Fixpoint reqs_ok (ops : list op) (seen rest : list req) : bool :=
  match rest with
  | [] => true
  | r :: rest' => req_ok ops seen r && reqs_ok ops (seen ++ [r]) rest'
  end.

(* the log is one history: each request starts where the previous one ended *)
Fixpoint continuous (d : tree) (rev : N) (rs : list req) : bool :=
  match rs with
  | [] => true
  | RGet _ g r _ :: rest => tree_eqb g d && (r =? rev) && continuous d rev rest
  | RPatch _ _ _ _ b br _ a ar :: rest => tree_eqb b d && (br =? rev) && continuous a ar rest
  end.

Definition committed_by (i : nat) (r : req) : bool :=
  match r with RPatch j _ true _ _ _ _ _ _ => Nat.eqb i j | _ => false end.
Definition told_conflict (i : nat) (r : req) : bool :=
  match r with RPatch j _ false FNone _ _ _ _ _ => Nat.eqb i j | _ => false end.
Definition confirmed_commit_by (i : nat) (r : req) : bool :=
  match r with RPatch j _ true f _ _ _ _ _ => Nat.eqb i j && negb (fault_eqb f FLost) | _ => false end.

Fixpoint last_patch (i : nat) (rs : list req) (acc : option req) : option req :=
  match rs with
  | [] => acc
  | (RPatch j _ _ _ _ _ _ _ _ as r) :: rest => last_patch i rest (if Nat.eqb i j then Some r else acc)
  | _ :: rest => last_patch i rest acc
  end.

(* the exit status of command [i] agrees with what happened to its updates.
   [tolerate]: accept exit status 0 after an update refused with diagnostics (known class, see below) *)
Definition status_ok (tolerate : bool) (ops : list op) (rs : list req) (i : nat) (s : status) : bool :=
  let applied := existsb (committed_by i) rs in
  match nth_error ops i with
  | None => false
  | Some o =>
      match s with
      | SOk =>
          match last_patch i rs None with
          | Some (RPatch _ _ true FNone _ _ _ _ _) =>
              (* its last update was committed and it saw the confirmation *)
              true
          | Some (RPatch _ _ false FReject _ _ _ _ _) =>
              (* its last update was refused with diagnostics and it committed nothing: the interactive edit ends
                 with "Aborting edit." when the person has no ENTER left; for the other commands exit status 0 is the
                 known class *)
              negb applied
              && ((is_interactive o && Nat.ltb (enters_of o) (round_of i rs)) || tolerate)
          | Some _ => false
          | None =>
              (* no update at all: the edit of what it read had nothing to write *)
              is_rmw o
              && match last_read i (shows_secrets o) rs None with
                 | Some (d, _) => match edit_of o 0 d with ENoWrite => true | _ => false end
                 | None => false
                 end
          end
      | SConflict => existsb (told_conflict i) rs && negb applied      (* a conflict changed nothing *)
      | SErr => negb (existsb (confirmed_commit_by i) rs)    (* nothing committed, or the reply to the commit was lost *)
      | SPanic => negb applied
      | SOther => false
      end
  end.

Fixpoint statuses_ok (tolerate : bool) (ops : list op) (rs : list req) (i : nat) (out : list status) : bool :=
  match out with
  | [] => true
  | s :: rest => status_ok tolerate ops rs i s && statuses_ok tolerate ops rs (S i) rest
  end.

(* the commands whose update was committed, with the round of that update, in commit order *)
Fixpoint applied_log (seen rest : list req) : list (nat * nat) :=
  match rest with
  | [] => []
  | (RPatch i _ true _ _ _ _ _ _ as r) :: rest' => (i, round_of i seen) :: applied_log (seen ++ [r]) rest'
  | r :: rest' => applied_log (seen ++ [r]) rest'
  end.

Definition apply_op (ops : list op) (d : tree) (x : nat * nat) : tree :=
  match nth_error ops (fst x) with
  | Some o => match edit_of o (snd x) d with EUpd d' => d' | _ => d end
  | None => d
  end.

Fixpoint nodupb (l : list nat) : bool :=
  match l with
  | [] => true
  | x :: r => negb (existsb (Nat.eqb x) r) && nodupb r
  end.

Definition spec_ok (tolerate : bool) (c : case) : bool :=
  let log := applied_log [] (c_reqs c) in
  reqs_ok (c_ops c) [] (c_reqs c)
  && continuous (c_init c) (c_irev c) (c_reqs c)
  && (Nat.eqb (length (c_out c)) (length (c_ops c)))
  && statuses_ok tolerate (c_ops c) (c_reqs c) 0 (c_out c)
  (* no command commits twice *)
  && nodupb (map fst log)
  (* the final definition is the fold of the edits of exactly the committed updates, in commit order: it contains the
     effect of every command that reported success (a successful command is in the log by [status_ok]) *)
  && tree_eqb (c_final c) (fold_left (apply_op (c_ops c)) log (c_init c))
  && (c_frev c =? c_irev c + N.of_nat (length log)).

Definition spec_fail (c : case) : bool := negb (spec_ok false c).

(* known finding C14-diag-exit0: `env set`, `env rm <path>` and `env edit --file` exit with status 0 when the service
   refused their update with diagnostics (they print the diagnostics and return nil): a command that "reported
   success" whose change is not in the definition.  A failing case is inside the class iff it passes the whole
   specification once exactly that is tolerated. *)
Definition known (c : case) : bool := spec_ok true c.

Definition spec_fail_new (c : case) : bool := spec_fail c && negb (known c).
Definition spec_fail_known (c : case) : bool := spec_fail c && known c.

(* at least two updates reached the backend *)
Definition nontrivial (c : case) : bool :=
  Nat.leb 2 (length (filter (fun r => match r with RPatch _ _ _ _ _ _ _ _ _ => true | _ => false end) (c_reqs c))).

(* ---- wire format ---- *)
From Verif Require Import Base.Wire.

Fixpoint decode_tree (x : sexp) : option tree :=
  match x with
  | Atom "n" => Some TNull
  | SList [Atom "s"; v] => match atom_str v with Some s => Some (TLeaf s) | None => None end
  | SList (Atom "m" :: kids) =>
      match
        (fix go (l : list sexp) : option (list (string * tree)) :=
           match l with
           | [] => Some []
           | SList [k; v] :: r =>
               match atom_str k, decode_tree v, go r with
               | Some k, Some v, Some r => Some ((k, v) :: r)
               | _, _, _ => None
               end
           | _ => None
           end) kids
      with Some l => Some (TNode l) | None => None end
  | _ => None
  end.

Definition decode_op (x : sexp) : option op :=
  match x with
  | SList [Atom "set"; p; v] =>
      match slist_of atom_str p, decode_tree v with Some p, Some v => Some (OpSet p v) | _, _ => None end
  | SList [Atom "rm"; p] => match slist_of atom_str p with Some p => Some (OpRm p) | None => None end
  | SList [Atom "edit"; k; v; sec; n] =>
      match atom_str k, atom_str v, atom_bool sec, atom_nat n with
      | Some k, Some v, Some sec, Some n => Some (OpEdit k v sec n)
      | _, _, _, _ => None
      end
  | SList [Atom "abort"] => Some OpAbort
  | SList [Atom "file"; d] => match decode_tree d with Some d => Some (OpFile d) | None => None end
  | _ => None
  end.

Definition decode_wtag (x : sexp) : option wtag :=
  match x with
  | Atom "none" => Some WNone
  | Atom "bad" => Some WBad
  | _ => match atom_N x with Some n => Some (WRev n) | None => None end
  end.

(* lost = answered 5xx after processing; drop = connection closed after processing: the same to the client *)
Definition decode_fault (x : sexp) : option fault :=
  match x with
  | Atom "none" => Some FNone
  | Atom "lost" | Atom "drop" => Some FLost
  | Atom "reject" => Some FReject
  | _ => None
  end.

Definition decode_slot (x : sexp) : option (nat * fault) :=
  match x with
  | SList [i; f] => match atom_nat i, decode_fault f with Some i, Some f => Some (i, f) | _, _ => None end
  | _ => None
  end.

Definition decode_req (x : sexp) : option req :=
  match x with
  | SList [Atom "get"; i; d; r; dc] =>
      match atom_nat i, decode_tree d, atom_N r, atom_bool dc with
      | Some i, Some d, Some r, Some dc => Some (RGet i d r dc) | _, _, _, _ => None end
  | SList [Atom "patch"; i; t; ok; f; b; br; bd; a; ar] =>
      match atom_nat i, decode_wtag t, atom_bool ok, decode_fault f, decode_tree b with
      | Some i, Some t, Some ok, Some f, Some b =>
          match atom_N br, decode_tree bd, decode_tree a, atom_N ar with
          | Some br, Some bd, Some a, Some ar => Some (RPatch i t ok f b br bd a ar)
          | _, _, _, _ => None
          end
      | _, _, _, _, _ => None
      end
  | _ => None
  end.

Definition decode_status (x : sexp) : option status :=
  match x with
  | Atom "ok" => Some SOk
  | Atom "conflict" => Some SConflict
  | Atom "err" => Some SErr
  | Atom "panic" => Some SPanic
  | Atom "other" => Some SOther
  | _ => None
  end.

Definition decode (x : sexp) : option case :=
  match x with
  | SList [Atom "c14"; init; irev; ops; sched; reqs; out; final; frev; clean] =>
      match decode_tree init, atom_N irev, slist_of decode_op ops, slist_of decode_slot sched with
      | Some init, Some irev, Some ops, Some sched =>
          match slist_of decode_req reqs, slist_of decode_status out, decode_tree final with
          | Some reqs, Some out, Some final =>
              match atom_N frev, atom_bool clean with
              | Some frev, Some clean => Some (mkCase init irev ops sched reqs out final frev clean)
              | _, _ => None
              end
          | _, _, _ => None
          end
      | _, _, _, _ => None
      end
  | _ => None
  end.

Definition verdict (c : case) : N :=
  verdict_bits (mismatch c) (spec_fail_new c) (spec_fail_known c) (nontrivial c).

Definition run_line : string -> string := run_with decode verdict.
