(* Corr/C14.v — case type and predicates evaluated by the correspondence check of C14.
   A case = prior history (initial definition and revision), the commands, the schedule (interleaving of their
   GET / PATCH steps), and what the gated fake backend and the commands reported when the real CLI ran it. *)
From Verif Require Import Base.Bytes Model.Occ Model.OccSrc.

Inductive wtag := WNone | WRev (n : N) | WBad.

Inductive req :=
| RGet (i : nat) (def : tree) (rev : N)
| RPatch (i : nat) (t : wtag) (ok : bool) (before : tree) (brev : N) (body : tree) (after : tree) (arev : N).

Inductive status := SOk | SConflict | SErr | SPanic | SOther.

Record case := mkCase {
  c_init : tree; c_irev : N;
  c_ops : list op;
  c_sched : list nat;
  (* implementation *)
  c_reqs : list req;
  c_out : list status;
  c_final : tree; c_frev : N;
  c_clean : bool            (* no unexpected request, nothing had to be un-gated *)
}.

(* ---- equality tests ---- *)
Fixpoint tree_eqb (a b : tree) : bool :=
  match a, b with
  | TNull, TNull => true
  | TLeaf x, TLeaf y => String.eqb x y
  | TNode ka, TNode kb =>
      (fix go (la lb : list (string * tree)) : bool :=
         match la, lb with
         | [], [] => true
         | (k1, v1) :: ra, (k2, v2) :: rb => String.eqb k1 k2 && tree_eqb v1 v2 && go ra rb
         | _, _ => false
         end) ka kb
  | _, _ => false
  end.

Definition wtag_eqb (a b : wtag) : bool :=
  match a, b with
  | WNone, WNone | WBad, WBad => true
  | WRev x, WRev y => x =? y
  | _, _ => false
  end.

Definition req_eqb (a b : req) : bool :=
  match a, b with
  | RGet i d r, RGet j e s => Nat.eqb i j && tree_eqb d e && (r =? s)
  | RPatch i t ok b br bd a ar, RPatch j t' ok' b' br' bd' a' ar' =>
      Nat.eqb i j && wtag_eqb t t' && Bool.eqb ok ok' && tree_eqb b b' && (br =? br') && tree_eqb bd bd'
      && tree_eqb a a' && (ar =? ar')
  | _, _ => false
  end.

Definition status_eqb (a b : status) : bool :=
  match a, b with
  | SOk, SOk | SConflict, SConflict | SErr, SErr | SPanic, SPanic | SOther, SOther => true
  | _, _ => false
  end.

Fixpoint list_eqb {A} (eqb : A -> A -> bool) (a b : list A) : bool :=
  match a, b with
  | [], [] => true
  | x :: r, y :: s => eqb x y && list_eqb eqb r s
  | _, _ => false
  end.

(* ---- the model's prediction ---- *)
Definition model_cmds (c : case) : list (command tree) := map cli_command (c_ops c).

Definition model_run (c : case) : state tree :=
  run (model_cmds c) (c_sched c) (init_state (model_cmds c) (mkStore (c_init c) (c_irev c))).

Definition req_of_event (e : event tree) : req :=
  match e with
  | EvGet i s => RGet i (s_def s) (s_rev s)
  | EvPatch i t ok b body a =>
      RPatch i (match t with None => WNone | Some r => WRev r end) ok (s_def b) (s_rev b) body (s_def a) (s_rev a)
  end.

Definition status_of_phase (p : phase tree) : status :=
  match p with
  | PDone OOk | PDone ONoWrite => SOk
  | PDone OConflict => SConflict
  | PDone OErr => SErr
  | PDone OPanic => SPanic
  | _ => SOther
  end.

Definition mismatch (c : case) : bool :=
  let fin := model_run c in
  negb (c_clean c
        && list_eqb req_eqb (c_reqs c) (map req_of_event (st_trace fin))
        && list_eqb status_eqb (c_out c) (map status_of_phase (st_ph fin))
        && tree_eqb (c_final c) (s_def (st_store fin))
        && (c_frev c =? s_rev (st_store fin))).

(* ---- the specification, evaluated on what the implementation did (no use of [run]) ---- *)
Definition is_rmw (o : op) : bool := match o with OpFile _ => false | _ => true end.

Fixpoint get_of (i : nat) (rs : list req) : option (tree * N) :=
  match rs with
  | [] => None
  | RGet j d r :: rest => if Nat.eqb i j then Some (d, r) else get_of i rest
  | _ :: rest => get_of i rest
  end.

Definition patch_by (i : nat) (want_ok : bool) (r : req) : bool :=
  match r with RPatch j _ ok _ _ _ _ _ => Nat.eqb i j && Bool.eqb ok want_ok | _ => false end.

(* one request respects the property *)
Definition req_ok (ops : list op) (rs : list req) (r : req) : bool :=
  match r with
  | RGet _ _ _ => true
  | RPatch i t ok before brev body after arev =>
      match nth_error ops i with
      | None => false
      | Some o =>
          (* the update of a read-modify-write command carries the tag its own GET returned *)
          (if is_rmw o then match get_of i rs with Some (_, g) => wtag_eqb t (WRev g) | None => false end
           else true)
          &&
          (if ok then
             (* applied, and to the definition current at that moment *)
             match edit_of o before with
             | EUpd b' => tree_eqb b' body && tree_eqb after body && (arev =? brev + 1)
             | _ => false
             end
           else
             (* rejected: nothing changed *)
             tree_eqb after before && (arev =? brev))
      end
  end.

(* the exit status of command [i] agrees with what happened to its update *)
Definition status_ok (ops : list op) (rs : list req) (i : nat) (s : status) : bool :=
  let applied := existsb (patch_by i true) rs in
  let rejected := existsb (patch_by i false) rs in
  match s with
  | SOk =>
      applied
      || (negb rejected
          && match nth_error ops i, get_of i rs with
             | Some o, Some (d, _) => is_rmw o && match edit_of o d with ENoWrite => true | _ => false end
             | _, _ => false
             end)
  | SConflict => rejected && negb applied
  | SErr | SPanic => negb applied
  | SOther => false
  end.

Fixpoint statuses_ok (ops : list op) (rs : list req) (i : nat) (out : list status) : bool :=
  match out with
  | [] => true
  | s :: rest => status_ok ops rs i s && statuses_ok ops rs (S i) rest
  end.

(* the commands whose update was applied, in write order *)
Fixpoint applied_log (rs : list req) : list nat :=
  match rs with
  | [] => []
  | RPatch i _ true _ _ _ _ _ :: rest => i :: applied_log rest
  | _ :: rest => applied_log rest
  end.

Definition apply_op (ops : list op) (d : tree) (i : nat) : tree :=
  match nth_error ops i with
  | Some o => match edit_of o d with EUpd d' => d' | _ => d end
  | None => d
  end.

Definition spec_fail (c : case) : bool :=
  negb (forallb (req_ok (c_ops c) (c_reqs c)) (c_reqs c)
        && (Nat.eqb (length (c_out c)) (length (c_ops c)))
        && statuses_ok (c_ops c) (c_reqs c) 0 (c_out c)
        (* the final definition is the fold of the edits of exactly the applied commands, in write order *)
        && tree_eqb (c_final c) (fold_left (apply_op (c_ops c)) (applied_log (c_reqs c)) (c_init c))
        && (c_frev c =? c_irev c + N.of_nat (length (applied_log (c_reqs c))))).

Definition known (c : case) : bool := false.

Definition spec_fail_new (c : case) : bool := spec_fail c && negb (known c).
Definition spec_fail_known (c : case) : bool := spec_fail c && known c.

(* at least two updates reached the backend *)
Definition nontrivial (c : case) : bool :=
  Nat.leb 2 (length (filter (fun r => match r with RPatch _ _ _ _ _ _ _ _ => true | _ => false end) (c_reqs c))).

(* ---- wire format ---- *)
From Verif Require Import Base.Wire.

Fixpoint decode_tree (x : sexp) : option tree :=
  match x with
  | Atom "n" => Some TNull
  | SList [Atom "s"; v] => match atom_str v with Some s => Some (TLeaf s) | None => None end
  | SList (Atom "m" :: kids) =>
      match
        (fix go (l : list sexp) : option (list (string * tree)) :=
           match l with
           | [] => Some []
           | SList [k; v] :: r =>
               match atom_str k, decode_tree v, go r with
               | Some k, Some v, Some r => Some ((k, v) :: r)
               | _, _, _ => None
               end
           | _ => None
           end) kids
      with Some l => Some (TNode l) | None => None end
  | _ => None
  end.

Definition decode_op (x : sexp) : option op :=
  match x with
  | SList [Atom "set"; p; v] =>
      match slist_of atom_str p, decode_tree v with Some p, Some v => Some (OpSet p v) | _, _ => None end
  | SList [Atom "rm"; p] => match slist_of atom_str p with Some p => Some (OpRm p) | None => None end
  | SList [Atom "edit"; k; v] =>
      match atom_str k, atom_str v with Some k, Some v => Some (OpEdit k v) | _, _ => None end
  | SList [Atom "abort"] => Some OpAbort
  | SList [Atom "file"; d] => match decode_tree d with Some d => Some (OpFile d) | None => None end
  | _ => None
  end.

Definition decode_wtag (x : sexp) : option wtag :=
  match x with
  | Atom "none" => Some WNone
  | Atom "bad" => Some WBad
  | _ => match atom_N x with Some n => Some (WRev n) | None => None end
  end.

Definition decode_req (x : sexp) : option req :=
  match x with
  | SList [Atom "get"; i; d; r] =>
      match atom_nat i, decode_tree d, atom_N r with
      | Some i, Some d, Some r => Some (RGet i d r) | _, _, _ => None end
  | SList [Atom "patch"; i; t; ok; b; br; bd; a; ar] =>
      match atom_nat i, decode_wtag t, atom_bool ok, decode_tree b with
      | Some i, Some t, Some ok, Some b =>
          match atom_N br, decode_tree bd, decode_tree a, atom_N ar with
          | Some br, Some bd, Some a, Some ar => Some (RPatch i t ok b br bd a ar)
          | _, _, _, _ => None
          end
      | _, _, _, _ => None
      end
  | _ => None
  end.

Definition decode_status (x : sexp) : option status :=
  match x with
  | Atom "ok" => Some SOk
  | Atom "conflict" => Some SConflict
  | Atom "err" => Some SErr
  | Atom "panic" => Some SPanic
  | Atom "other" => Some SOther
  | _ => None
  end.

Definition decode (x : sexp) : option case :=
  match x with
  | SList [Atom "c14"; init; irev; ops; sched; reqs; out; final; frev; clean] =>
      match decode_tree init, atom_N irev, slist_of decode_op ops, slist_of atom_nat sched with
      | Some init, Some irev, Some ops, Some sched =>
          match slist_of decode_req reqs, slist_of decode_status out, decode_tree final with
          | Some reqs, Some out, Some final =>
              match atom_N frev, atom_bool clean with
              | Some frev, Some clean => Some (mkCase init irev ops sched reqs out final frev clean)
              | _, _ => None
              end
          | _, _, _ => None
          end
      | _, _, _, _ => None
      end
  | _ => None
  end.

Definition verdict (c : case) : N :=
  verdict_bits (mismatch c) (spec_fail_new c) (spec_fail_known c) (nontrivial c).

Definition run_line : string -> string := run_with decode verdict.
