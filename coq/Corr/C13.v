(* Corr/C13.v — case type and predicates evaluated by the correspondence check of C13. *)
From Verif Require Import Base.Bytes Model.Redactor Model.RedactorCollect Src.SrcRedactor.
From Coq Require Import Arith.

Definition params : rparams :=
  {| rp_min_len := N.to_nat min_secret_len; rp_placeholder := chars secret_placeholder |}.

Inductive obs := OOut (b : string) | OPanic.

(* what the library answered: a list of (start, length), or a panic *)
Inductive lobs := LMatches (l : list (nat * nat)) | LPanic.

(* what was observed of a whole `esc run`: the arguments the command received (None: it was not run), what esc
   forwarded on the stream the command wrote its arguments and script to, what it forwarded on the other stream
   (where the command wrote script2), and whether esc itself reported an error *)
Record cmd_obs := { co_args : option (list string); co_main : obs; co_other : obs; co_err : bool }.

Inductive case :=
| CRun (secrets chunks : list string) (impl : obs)
| CLib (pats : list string) (text ph : string) (findall overlapping : lobs) (replace : obs)
(* the whole `esc run` command: opened environment, arguments, what the command prints after its arguments;
   observed: the arguments the command received (None: it did not run) and what esc forwarded *)
| CCmd (root : evalue) (args : list (list part)) (e : child_end) (script script2 : string) (o : cmd_obs).

Definition bl (l : list string) : list bytes := map chars l.

Definition result_obs_eqb (r : result) (o : obs) : bool :=
  match r, o with
  | Out b, OOut s => bytes_eqb b (chars s)
  | Panic, OPanic => true
  | _, _ => false
  end.

Definition pair_eqb (a b : nat * nat) : bool := Nat.eqb (fst a) (fst b) && Nat.eqb (snd a) (snd b).

Fixpoint pairs_eqb (a b : list (nat * nat)) : bool :=
  match a, b with
  | [], [] => true
  | x :: a', y :: b' => pair_eqb x y && pairs_eqb a' b'
  | _, _ => false
  end.

Definition matches_obs_eqb (ms : list amatch) (o : lobs) : bool :=
  match o with
  | LMatches l => pairs_eqb (map (fun m => (m_start m, m_len m)) ms) l
  | LPanic => false
  end.

(* no two reported occurrences share a byte (identical ones, from duplicate patterns, aside) *)
Definition apart (a b : amatch) : bool :=
  (Nat.leb (m_end a) (m_start b)) || (Nat.leb (m_end b) (m_start a))
  || (Nat.eqb (m_start a) (m_start b) && Nat.eqb (m_len a) (m_len b)).

Fixpoint all_apart (ms : list amatch) : bool :=
  match ms with
  | [] => true
  | m :: r => forallb (apart m) r && all_apart r
  end.

(* model-internal cross-checks that ride along with every case (they do not look at the implementation):
   the two-array marking as coded = the one-pass flags the proofs use, on every line of the stream *)
Definition marks_agree (ph : bytes) (pats : list bytes) (s : bytes) : bool :=
  let (ls, r) := split_lines s in
  forallb (fun l => bytes_eqb (redact_marks ph pats l) (redact ph pats l)) (ls ++ [r]).

Fixpoint list_bytes_eqb (a b : list bytes) : bool :=
  match a, b with
  | [], [] => true
  | x :: a', y :: b' => bytes_eqb x y && list_bytes_eqb a' b'
  | _, _ => false
  end.

(* the case stays inside the modelled class of strconv.Quote (7-bit strings wherever Quote is applied): then the
   argument texts and every secret text of the model are exact *)
Definition cmd_modelled (root : evalue) (args : list (list part)) : bool :=
  forallb (forallb (fun p => match p with
                             | PText _ => true
                             | PRef path => match get_path root path with Some v => quotable v | None => true end
                             end)) args.

(* ---- secret texts that are exact whatever the class: a scalar is never quoted, so its string form is exact for all
        byte strings; a composite's text needs Quote and is exact when the composite is [quotable] ---- *)
Definition is_scalar (v : evalue) : bool := match v with VArr _ _ | VObj _ _ => false | _ => true end.

Fixpoint exact_secrets (v : evalue) : list bytes :=
  (if is_secret v && (is_scalar v || quotable v) then [to_string v] else []) ++
  match v with
  | VArr _ l => flat_map exact_secrets l
  | VObj _ l => flat_map (fun kv => match kv with (_, x) => exact_secrets x end) l
  | _ => []
  end.

(* every secret node of [v] has an exact text, i.e. [exact_secrets v] is ALL the secrets of v *)
Fixpoint secrets_exact (v : evalue) : bool :=
  (negb (is_secret v) || is_scalar v || quotable v) &&
  match v with
  | VArr _ l => forallb secrets_exact l
  | VObj _ l => forallb (fun kv => match kv with (_, x) => secrets_exact x end) l
  | _ => true
  end.

Definition ref_values (root : evalue) (args : list (list part)) : list evalue :=
  flat_map (fun a => flat_map (fun p => match p with
                                        | PText _ => []
                                        | PRef path => match get_path root path with Some v => [v] | None => [] end
                                        end) a) args.

Definition cmd_exact_secrets (root : evalue) (args : list (list part)) : list bytes :=
  projection_secrets root (chars "environmentVariables")
  ++ projection_secrets root (chars "files")
  ++ flat_map exact_secrets (ref_values root args).

Definition cmd_secrets_exact (root : evalue) (args : list (list part)) : bool :=
  forallb secrets_exact (ref_values root args).

(* the marking loops as coded are quadratic in the line length: the cross-check rides along on short streams only
   (C13_redact_as_coded proves the equality for every input) *)
Definition marks_bound : nat := 4096.

Definition mismatch (c : case) : bool :=
  match c with
  | CRun secrets chunks impl =>
      (* lines of every length are compared: [run_fast] is the linear-time twin of [run] (C13_fast_run_is_run) *)
      negb (result_obs_eqb (Out (run_fast params (bl secrets) (bl chunks))) impl)
      || (Nat.leb (length (concat (bl chunks))) marks_bound
          && negb (marks_agree (rp_placeholder params) (new_replacer params (bl secrets)) (concat (bl chunks))))
  | CLib pats text ph fa ov rep =>
      let ps := bl pats in
      let t := chars text in
      negb (matches_obs_eqb (lib_find_all ps t) fa)
      || negb (matches_obs_eqb (lib_overlapping ps t) ov)
      || negb (result_obs_eqb (lib_replace_all (chars ph) ps t) rep)
      || negb (bytes_eqb (redact_marks (chars ph) ps t) (redact (chars ph) ps t))
      (* the repair is conservative: where no two occurrences share a byte, the old replacement did not panic
         and produced the same text *)
      || (all_apart (lib_overlapping ps t)
          && negb (match lib_replace_all (chars ph) ps t with
                   | Out o => bytes_eqb o (redact (chars ph) ps t)
                   | Panic => false
                   end))
  | CCmd root args e script script2 o =>
      (* the Write/Close state machine with the lifecycle read from the source (C13_cmd_nothing_withheld_however_it_ends) *)
      let '((m1, _), (m2, _), merr) :=
        cmd_run_sm params arg_secrets_deep redactors_closed_on_every_path root args e
                   [cmd_stream (cmd_args root args) (chars script)] [chars script2] in
      (* whether esc failed and whether the command was run are compared for every case *)
      negb (Bool.eqb merr (co_err o))
      || match co_args o with Some _ => false | None => true end
      (* model-internal: where every secret text is exact, the specification's list is the model's *)
      || (cmd_secrets_exact root args && negb (list_bytes_eqb (cmd_exact_secrets root args) (cmd_secrets true root args)))
      (* argument texts and forwarded bytes need the modelled Value.ToString: inside its class *)
      || (cmd_modelled root args
          && (negb (match co_args o with Some l => list_bytes_eqb (bl l) (cmd_args root args) | None => false end)
              || negb (result_obs_eqb (Out m1) (co_main o))
              || negb (result_obs_eqb (Out m2) (co_other o))))
  end.

(* ---- the specification, evaluated on the implementation's observation alone ---------------------- *)
(* the property's own threshold ("at least three bytes long"), not the one found in the source *)
Definition spec_params : rparams := {| rp_min_len := 3; rp_placeholder := rp_placeholder params |}.

Definition filtered (secrets : list string) : list bytes := new_replacer spec_params (bl secrets).

(* the forwarded text between the copies of the placeholder: with a border-free placeholder its occurrences never
   overlap, so every copy the filter wrote is cut out and each piece consists of bytes forwarded literally and
   contiguously from the input *)
Fixpoint pieces (ph : bytes) (skip : nat) (cur_rev : bytes) (s : bytes) : list bytes :=
  match s with
  | [] => [rev_append cur_rev []]
  | c :: t =>
      match skip with
      | S k => pieces ph k cur_rev t
      | O => if is_prefix ph s then rev_append cur_rev [] :: pieces ph (length ph - 1) [] t
             else pieces ph 0 (c :: cur_rev) t
      end
  end.

(* the secret [p] was forwarded.  If p cannot be spelled with placeholder text (ph_clash = false: the class of
   C13_no_secret_survives_partial) any occurrence in the output counts.  If it can, an occurrence counts when it lies
   between the placeholder copies, i.e. when it is certainly not made of placeholder text: no secret is exempt. *)
Definition forwarded (p out : bytes) : bool :=
  let ph := rp_placeholder params in
  if ph_clash ph p then border_free ph && existsb (contains p) (pieces ph 0 [] out)
  else contains p out.

(* a filtered secret occurs in the forwarded bytes *)
Definition leak (multiline : bool) (secrets : list string) (out : bytes) : bool :=
  existsb (fun p => Bool.eqb (has_inner_newline p) multiline && forwarded p out) (filtered secrets).

(* clean text = no (non-empty) secret occurs in it at all, whatever its length *)
Definition nonempty_secrets (l : list bytes) : list bytes := filter (fun p => negb (Nat.eqb (length p) 0)) l.

Definition clean_changed (secrets chunks : list string) (out : bytes) : bool :=
  let s := concat (bl chunks) in
  negb (existsb (fun p => contains p s) (nonempty_secrets (bl secrets))) && negb (bytes_eqb out s).

(* `cmd` cases: the secrets the property speaks of - secret variables, secret files, every secret value inside a
   value interpolated into the command line - computed from the case alone; every scalar secret whatever its bytes,
   composite secrets when their text is exact *)
Definition spec_secrets (root : evalue) (args : list (list part)) : list bytes :=
  new_replacer spec_params (cmd_exact_secrets root args).

Definition mem_bytes (p : bytes) (l : list bytes) : bool := existsb (bytes_eqb p) l.

(* Class of the defect repaired by fixes/2-run-nested-argument-secrets.patch: a secret that is only nested inside an
   interpolated value, while the source collects the referenced value's own flag only.  It is NOT a recorded known
   finding (the defect is repaired), so failures in it are reported as new; set this to [true] only together with a
   `known: property=C13 id=C13-nested-arg class=Corr.C13.known_nested ...` line, should the repair be dropped. *)
Definition nested_class_recorded : bool := false.

Definition nested_only (root : evalue) (args : list (list part)) (p : bytes) : bool :=
  nested_class_recorded && negb arg_secrets_deep && negb (mem_bytes p (cmd_secrets false root args)).

Definition cmd_leak (cls : bytes -> bool) (root : evalue) (args : list (list part)) (out : bytes) : bool :=
  existsb (fun p => cls p && forwarded p out) (spec_secrets root args).

Definition cmd_stream_impl (iargs : list string) (script : string) : bytes := cmd_stream (bl iargs) (chars script).

(* nothing is withheld: the bytes of what the command wrote that lie inside no occurrence (anywhere in the stream, lines
   disregarded) of any non-empty secret must all be forwarded, in order - whatever the exit status of the command *)
Fixpoint is_subseq (a b : bytes) {struct b} : bool :=
  match b with
  | [] => match a with [] => true | _ => false end
  | y :: b' => match a with
               | [] => true
               | x :: a' => if Ascii.eqb x y then is_subseq a' b' else is_subseq a b'
               end
  end.

Fixpoint keep_uncovered (w : bytes) (fl : list (bool * bool)) : bytes :=
  match w, fl with
  | c :: w', (cv, _) :: fl' => if cv then keep_uncovered w' fl' else c :: keep_uncovered w' fl'
  | _, _ => []
  end.

Definition withheld_from (pats : list bytes) (written out : bytes) : bool :=
  negb (is_subseq (keep_uncovered written (flags pats 0 written)) out).

Definition withheld (root : evalue) (args : list (list part)) (written out : bytes) : bool :=
  withheld_from (nonempty_secrets (cmd_exact_secrets root args)) written out.

(* `run` cases, streams of EVERY length: every written byte that lies inside no occurrence of any (non-empty) secret
   appears in the output, in order *)
Definition withheld_run (secrets chunks : list string) (out : bytes) : bool :=
  withheld_from (nonempty_secrets (bl secrets)) (concat (bl chunks)) out.

(* exactly the bytes outside the secrets are forwarded: where every (non-empty) secret is filtered (>= 3 bytes) and
   line-local, the occurrences the filter must withhold are all the occurrences there are, so the output with the
   placeholder copies cut out has to EQUAL the input with the bytes of the occurrences cut out - not a byte of an
   occurrence forwarded (C13_no_secret_byte_forwarded), nothing else withheld, nothing invented or repeated.
   Judged when the first byte of the placeholder does not occur in the input (then cutting out the copies is exact). *)
Definition stream_flags_fast (pats : list bytes) (s : bytes) : list (bool * bool) :=
  let (ls, r) := lines_rev [] s in concat (map (flags pats 0) ls) ++ flags pats 0 r.

Definition forwarded_inexact (pats : list bytes) (written out : bytes) : bool :=
  let ph := rp_placeholder params in
  forallb (fun p => Nat.leb 3 (length p) && negb (has_inner_newline p)) pats
  && border_free ph
  && negb (match ph with h :: _ => mem_byte h written | [] => true end)
  && negb (bytes_eqb (concat (pieces ph 0 [] out)) (keep_uncovered written (stream_flags_fast pats written))).

(* one stream of a `cmd` case: [written] is what the command wrote to it, [out] what esc forwarded.  The leak oracle
   judges every exact secret text in every case; clean-text and nothing-withheld need ALL the secret texts (a byte
   may be withheld only inside an occurrence of one of them), so they are judged when every secret text is exact *)
Definition cmd_stream_fail_new (root : evalue) (args : list (list part)) (written out : bytes) : bool :=
  cmd_leak (fun p => negb (has_inner_newline p) && negb (nested_only root args p)) root args out
  || (cmd_secrets_exact root args
      && ((negb (existsb (fun p => contains p written) (nonempty_secrets (cmd_exact_secrets root args)))
           && negb (bytes_eqb out written))
          || withheld root args written out
          || forwarded_inexact (nonempty_secrets (cmd_exact_secrets root args)) written out)).

(* failures that no known finding excuses: a panic, clean text changed, a line-local secret forwarded, a byte outside
   every secret withheld *)
Definition spec_fail_new (c : case) : bool :=
  match c with
  | CRun secrets chunks OPanic => true
  | CRun secrets chunks (OOut o) =>
      leak false secrets (chars o) || clean_changed secrets chunks (chars o) || withheld_run secrets chunks (chars o)
      || forwarded_inexact (nonempty_secrets (bl secrets)) (concat (bl chunks)) (chars o)
  | CLib _ _ _ _ _ _ => false
  | CCmd root args e script script2 o =>
      match co_args o, co_main o, co_other o with
      | Some iargs, OOut m, OOut o2 =>
          cmd_stream_fail_new root args (child_wrote e (cmd_stream_impl iargs script)) (chars m)
          || cmd_stream_fail_new root args (child_wrote e (chars script2)) (chars o2)
      | _, _, _ => true
      end
  end.

(* the recorded known finding C13-newline: some filtered secret has a newline before its last byte *)
Definition known (c : case) : bool :=
  match c with
  | CRun secrets _ _ => existsb has_inner_newline (filtered secrets)
  | CLib _ _ _ _ _ _ => false
  | CCmd root args _ _ _ _ => existsb has_inner_newline (spec_secrets root args)
  end.

(* C13-nested-arg: some secret is only nested inside an interpolated value (and the source collects own flags only) *)
Definition known_nested (c : case) : bool :=
  match c with
  | CCmd root args _ _ _ _ => existsb (nested_only root args) (spec_secrets root args)
  | _ => false
  end.

(* ... and such a secret is forwarded *)
Definition spec_fail_known (c : case) : bool :=
  match c with
  | CRun secrets chunks (OOut o) => known c && leak true secrets (chars o)
  | CCmd root args _ _ _ o =>
      match co_args o, co_main o, co_other o with
      | Some _, OOut m, OOut o2 =>
          (known c && (cmd_leak has_inner_newline root args (chars m)
                       || cmd_leak has_inner_newline root args (chars o2)))
          || (known_nested c
              && (cmd_leak (fun p => negb (has_inner_newline p) && nested_only root args p) root args (chars m)
                  || cmd_leak (fun p => negb (has_inner_newline p) && nested_only root args p) root args (chars o2)))
      | _, _, _ => false
      end
  | _ => false
  end.

Definition spec_fail (c : case) : bool := spec_fail_new c || spec_fail_known c.

Definition nontrivial (c : case) : bool :=
  match c with
  | CRun secrets chunks _ => existsb (fun p => contains p (concat (bl chunks))) (filtered secrets)
  | CLib pats text _ _ _ _ => negb (Nat.eqb (length (lib_overlapping (bl pats) (chars text))) 0)
  | CCmd root args e script script2 o =>
      match co_args o with
      | Some iargs =>
          existsb (fun p => contains p (child_wrote e (cmd_stream_impl iargs script))
                            || contains p (child_wrote e (chars script2))) (spec_secrets root args)
      | None => false
      end
  end.

(* ---- wire format ---- *)
From Verif Require Import Base.Wire.

Definition decode_obs (x : sexp) : option obs :=
  match x with
  | SList [Atom "out"; s] => match atom_str s with Some b => Some (OOut b) | None => None end
  | Atom "panic" => Some OPanic
  | _ => None
  end.

Definition decode_pair (x : sexp) : option (nat * nat) :=
  match x with
  | SList [a; b] => match atom_nat a, atom_nat b with Some a, Some b => Some (a, b) | _, _ => None end
  | _ => None
  end.

Definition decode_lobs (x : sexp) : option lobs :=
  match x with
  | Atom "panic" => Some LPanic
  | SList l => match map_opt decode_pair l with Some ps => Some (LMatches ps) | None => None end
  | _ => None
  end.

(* values: (null s) (bool s b) (num s xTEXT) (str s xBYTES) (arr s (v ...)) (obj s ((xKEY v) ...)) *)
Fixpoint decode_value (x : sexp) : option evalue :=
  match x with
  | SList [Atom "null"; s] => match atom_bool s with Some s => Some (VNull s) | None => None end
  | SList [Atom "bool"; s; b] =>
      match atom_bool s, atom_bool b with Some s, Some b => Some (VBool s b) | _, _ => None end
  | SList [Atom "num"; s; t] =>
      match atom_bool s, atom_str t with Some s, Some t => Some (VNum s (chars t)) | _, _ => None end
  | SList [Atom "str"; s; t] =>
      match atom_bool s, atom_str t with Some s, Some t => Some (VStr s (chars t)) | _, _ => None end
  | SList [Atom "arr"; s; SList l] =>
      match atom_bool s,
            (fix go (l : list sexp) : option (list evalue) :=
               match l with
               | [] => Some []
               | y :: r => match decode_value y, go r with Some v, Some t => Some (v :: t) | _, _ => None end
               end) l with
      | Some s, Some vs => Some (VArr s vs) | _, _ => None end
  | SList [Atom "obj"; s; SList l] =>
      match atom_bool s,
            (fix go (l : list sexp) : option (list (bytes * evalue)) :=
               match l with
               | [] => Some []
               | SList [k; y] :: r =>
                   match atom_str k, decode_value y, go r with
                   | Some k, Some v, Some t => Some ((chars k, v) :: t) | _, _, _ => None end
               | _ :: _ => None
               end) l with
      | Some s, Some kvs => Some (VObj s kvs) | _, _ => None end
  | _ => None
  end.

(* path elements: (k xKEY) | (i N);  parts: (t xTEXT) | (r (elem ...)) *)
Definition decode_pelem (x : sexp) : option pelem :=
  match x with
  | SList [Atom "k"; k] => match atom_str k with Some k => Some (PKey (chars k)) | None => None end
  | SList [Atom "i"; n] => match atom_nat n with Some n => Some (PIdx n) | None => None end
  | _ => None
  end.

Definition decode_part (x : sexp) : option part :=
  match x with
  | SList [Atom "t"; t] => match atom_str t with Some t => Some (PText (chars t)) | None => None end
  | SList [Atom "r"; p] => match slist_of decode_pelem p with Some p => Some (PRef p) | None => None end
  | _ => None
  end.

Definition decode_impl_args (x : sexp) : option (option (list string)) :=
  match x with
  | Atom "none" => Some None
  | _ => match slist_of atom_str x with Some l => Some (Some l) | None => None end
  end.

Definition decode_child_end (x : sexp) : option child_end :=
  match x with
  | Atom "ok" => Some ChildExit0
  | Atom "fail" => Some ChildFails
  | Atom "nostart" => Some ChildNoStart
  | _ => None
  end.

Definition decode (x : sexp) : option case :=
  match x with
  | SList [Atom "run"; secrets; chunks; o] =>
      match slist_of atom_str secrets, slist_of atom_str chunks, decode_obs o with
      | Some s, Some c, Some o => Some (CRun s c o) | _, _, _ => None end
  | SList [Atom "lib"; pats; text; ph; fa; ov; rep] =>
      match slist_of atom_str pats, atom_str text, atom_str ph with
      | Some p, Some t, Some h =>
          match decode_lobs fa, decode_lobs ov, decode_obs rep with
          | Some fa, Some ov, Some rep => Some (CLib p t h fa ov rep) | _, _, _ => None end
      | _, _, _ => None end
  | SList [Atom "cmd"; root; args; e; SList [script; script2]; iargs; SList [o; o2; err]] =>
      match decode_value root, slist_of (slist_of decode_part) args, decode_child_end e with
      | Some root, Some args, Some e =>
          match atom_str script, atom_str script2, decode_impl_args iargs with
          | Some script, Some script2, Some ia =>
              match decode_obs o, decode_obs o2, atom_bool err with
              | Some o, Some o2, Some err =>
                  Some (CCmd root args e script script2 {| co_args := ia; co_main := o; co_other := o2; co_err := err |})
              | _, _, _ => None end
          | _, _, _ => None end
      | _, _, _ => None end
  | _ => None
  end.

Definition verdict (c : case) : N :=
  verdict_bits (mismatch c) (spec_fail_new c) (spec_fail_known c) (nontrivial c).

Definition run_line : string -> string := run_with decode verdict.
