(* Corr/C03.v — secret plaintext never reaches redacted output. *)
From Verif Require Import Base.Bytes Base.Wire Model.Chain Model.GoText Model.Eval Model.Redact Corr.EvalWire.

(* the second run of a case of the SHAPE family: the same program with other secret payloads - static secret texts in
   [r2_def] / the environments of [r2_world], provider payloads in the provider table of [r2_world] (same provider
   names, same schemas) - and the value the implementation computed for it *)
Record run2 := { r2_def : envdef; r2_world : world; r2_value : xval }.

Record case := {
  c_name : string; c_def : envdef; c_world : world; c_obs : iobs;
  c_compared : bool;     (* both runs (original and substituted secrets) finished without diagnostics *)
  c_equal : bool;        (* their redacted renderings (JSON, string, environment variables) are byte-identical *)
  c_composite : bool;    (* some provider returns a composite flagged secret whose children are not flagged *)
  c_run2 : option run2
}.

Definition spec_fail (c : case) : bool :=
  (c_compared c && negb (c_equal c)) || match c_obs c with ICrash | IPanic => true | _ => false end.

(* the model's exported value of a run; None: out of fuel / outside the model's fragment / no value *)
Definition model_value (W : world) (name : string) (d : envdef) : option xval :=
  let r := run model_fuel W name d in if ob_oof r then None else ob_value r.

(* the implementation agrees with the model on the first run (value, diagnostics flag, call log) and, where the case
   carries a second run, on the value of the second run *)
Definition mismatch (c : case) : bool :=
  match compare_run (c_world c) (c_name c) (c_def c) (c_obs c) with CmpDiff => true | _ => false end
  || match c_run2 c with
     | Some r => match model_value (r2_world r) (c_name c) (r2_def r) with
                 | Some v => negb (xeq (r2_value r) v)
                 | None => false
                 end
     | None => false
     end.

(* ------------------------------------------------------------------------------------------------ *)
(* every environment definition of a case: the root and what the loader serves *)
Definition all_defs (W : world) (d : envdef) : list envdef :=
  d :: concat (map (fun ne => match snd ne with LoadOk d' => [d'] | _ => [] end) (w_envs W)).

Definition prog_exists (f : expr -> bool) (W : world) (d : envdef) : bool :=
  existsb (fun d' => existsb (fun kv => f (snd kv)) (ed_values d')) (all_defs W d).

(* known finding C03-fromjson-null: esc.FromJSON returns Value{} for JSON null, dropping the secret flag, so a secret JSON
   text "null" versus any other document is visible in redacted output.
   Class: some environment applies fn::fromJSON to an argument that CAN be secret - syntactically: the argument mentions a
   static secret, a ciphertext, a provider or a reference (a fromJSON of a public literal is outside the class) - and some
   static secret is a JSON document containing null. *)
Fixpoint mentions_secret (fuel : nat) (e : expr) : bool :=
  match fuel with
  | O => true
  | S f =>
    match e with
    | ESecretPlain _ | ESecretCipher _ | EOpen _ _ | ESym _ => true
    | EInterp ps => existsb (fun p => match snd p with Some _ => true | None => false end) ps
    | EArr l => existsb (mentions_secret f) l
    | EObj kvs => existsb (fun kv => mentions_secret f (snd kv)) kvs
    | EJoin a b => mentions_secret f a || mentions_secret f b
    | EToJSON a | EFromJSON a | EToString a | EToB64 a | EFromB64 a => mentions_secret f a
    | _ => false
    end
  end.

Fixpoint has_fromjson (fuel : nat) (e : expr) : bool :=
  match fuel with
  | O => false
  | S f =>
    match e with
    | EFromJSON a => mentions_secret f a || has_fromjson f a
    | EArr l => existsb (has_fromjson f) l
    | EObj kvs => existsb (fun kv => has_fromjson f (snd kv)) kvs
    | EJoin a b => has_fromjson f a || has_fromjson f b
    | EToJSON a | EToString a | EToB64 a | EFromB64 a => has_fromjson f a
    | EOpen _ a => has_fromjson f a
    | _ => false
    end
  end.

Fixpoint json_has_null (fuel : nat) (j : json) : bool :=
  match fuel with
  | O => false
  | S f =>
    match j with
    | JNull => true
    | JArr l => existsb (json_has_null f) l
    | JObj m => existsb (fun kv => json_has_null f (snd kv)) m
    | _ => false
    end
  end.

(* a static secret whose text is a JSON document containing null *)
Fixpoint has_null_secret (fuel : nat) (e : expr) : bool :=
  match fuel with
  | O => false
  | S f =>
    match e with
    | ESecretPlain s => match json_parse s with JPOk j => json_has_null wire_fuel j | _ => false end
    | EArr l => existsb (has_null_secret f) l
    | EObj kvs => existsb (fun kv => has_null_secret f (snd kv)) kvs
    | EJoin a b => has_null_secret f a || has_null_secret f b
    | EToJSON a | EFromJSON a | EToString a | EToB64 a | EFromB64 a => has_null_secret f a
    | EOpen _ a => has_null_secret f a
    | _ => false
    end
  end.

Definition fromjson_of_secret (W : world) (d : envdef) : bool := prog_exists (has_fromjson wire_fuel) W d.

Definition known_null (c : case) : bool :=
  (fromjson_of_secret (c_world c) (c_def c) && prog_exists (has_null_secret wire_fuel) (c_world c) (c_def c))
  || match c_run2 c with
     | Some r => fromjson_of_secret (r2_world r) (r2_def r) && prog_exists (has_null_secret wire_fuel) (r2_world r) (r2_def r)
     | None => false
     end.

(* ------------------------------------------------------------------------------------------------ *)
(* known finding C03-secret-shape: the SHAPE of a secret composite (its keys; whether it is a scalar, an array or an
   object) is readable in redacted output once a public object is merged over it - the merged object is not flagged, its
   inherited members are listed by name with the value [secret].
   Class: the two runs' secret payloads differ in shape - a provider's constant output (decidable: [same_shape]), or a
   static secret document decoded by fn::fromJSON ([json_same_shape]) - and the MODEL, which reproduces the finding
   (Properties/C03.v, C03_noninterference_shape_refuted), predicts different redacted renderings for the two runs. *)
Definition all2 {A : Type} (f : A -> A -> bool) : list A -> list A -> bool :=
  fix go (l l' : list A) : bool :=
    match l, l' with
    | [], [] => true
    | x :: r, y :: r' => f x y && go r r'
    | _, _ => false
    end.

Definition scalar_kind_eqb (a b : scalar) : bool :=
  match a, b with
  | SNull, SNull | SBool _, SBool _ | SNum _, SNum _ | SStr _, SStr _ => true
  | _, _ => false
  end.

(* same constructors, same flags at every node, same keys in the same order, same lengths, same kinds of scalars *)
Fixpoint same_shape (a b : xval) : bool :=
  match a, b with
  | XScalar s u x, XScalar s' u' y => Bool.eqb s s' && Bool.eqb u u' && scalar_kind_eqb x y
  | XArr s u l, XArr s' u' l' => Bool.eqb s s' && Bool.eqb u u' && all2 same_shape l l'
  | XObj s u m, XObj s' u' m' =>
      Bool.eqb s s' && Bool.eqb u u'
      && all2 (fun kv kv' => String.eqb (fst kv) (fst kv') && same_shape (snd kv) (snd kv')) m m'
  | _, _ => false
  end.

Fixpoint json_same_shape (a b : json) : bool :=
  match a, b with
  | JNull, JNull | JBool _, JBool _ | JNum _, JNum _ | JStr _, JStr _ => true
  | JArr l, JArr l' => all2 json_same_shape l l'
  | JObj m, JObj m' => all2 (fun kv kv' => String.eqb (fst kv) (fst kv') && json_same_shape (snd kv) (snd kv')) m m'
  | _, _ => false
  end.

(* provider tables, entry by entry: some constant output differs in shape (the class of the theorem
   C03_noninterference_partial) *)
Definition shape_class_provs (ps1 ps2 : list (string * provider)) : bool :=
  existsb (fun pq => match pv_beh (snd (fst pq)), pv_beh (snd (snd pq)) with
                     | PConst v1, PConst v2 => negb (same_shape v1 v2)
                     | _, _ => false
                     end) (combine ps1 ps2).

Definition shape_class (W1 W2 : world) : bool := shape_class_provs (w_provs W1) (w_provs W2).

(* static secrets at the same position of the two programs whose texts are JSON documents of different shape *)
Fixpoint docs_differ (fuel : nat) (e1 e2 : expr) : bool :=
  match fuel with
  | O => false
  | S f =>
    match e1, e2 with
    | ESecretPlain s1, ESecretPlain s2 =>
        match json_parse s1, json_parse s2 with
        | JPOk j1, JPOk j2 => negb (json_same_shape j1 j2)
        | _, _ => false
        end
    | EArr l1, EArr l2 => existsb (fun p => docs_differ f (fst p) (snd p)) (combine l1 l2)
    | EObj m1, EObj m2 => existsb (fun p => docs_differ f (snd (fst p)) (snd (snd p))) (combine m1 m2)
    | EJoin a1 b1, EJoin a2 b2 => docs_differ f a1 a2 || docs_differ f b1 b2
    | EToJSON a1, EToJSON a2 | EFromJSON a1, EFromJSON a2 | EToString a1, EToString a2
    | EToB64 a1, EToB64 a2 | EFromB64 a1, EFromB64 a2 => docs_differ f a1 a2
    | EOpen _ a1, EOpen _ a2 => docs_differ f a1 a2
    | _, _ => false
    end
  end.

Definition defs_docs_differ (d1 d2 : envdef) : bool :=
  existsb (fun p => docs_differ wire_fuel (snd (fst p)) (snd (snd p))) (combine (ed_values d1) (ed_values d2)).

Definition prog_docs_differ (W1 : world) (d1 : envdef) (W2 : world) (d2 : envdef) : bool :=
  existsb (fun p => defs_docs_differ (fst p) (snd p)) (combine (all_defs W1 d1) (all_defs W2 d2)).

Definition list_str_eqb (a b : list string) : bool := all2 String.eqb a b.

(* what the model renders for the two runs, redacted: JSON, string, environment variables, temporary files *)
Definition model_renderings_differ (c : case) (r : run2) : bool :=
  match model_value (c_world c) (c_name c) (c_def c), model_value (r2_world r) (c_name c) (r2_def r) with
  | Some v1, Some v2 =>
      negb (String.eqb (json_print wire_fuel (x_redact_json v1)) (json_print wire_fuel (x_redact_json v2))
            && String.eqb (x_redact_string v1) (x_redact_string v2)
            && list_str_eqb (env_vars_redacted v1) (env_vars_redacted v2)
            && list_str_eqb (temp_files_redacted v1) (temp_files_redacted v2))
  | _, _ => false
  end.

Definition known_shape (c : case) : bool :=
  match c_run2 c with
  | Some r =>
      (shape_class (c_world c) (r2_world r)
       || (fromjson_of_secret (c_world c) (c_def c) && prog_docs_differ (c_world c) (c_def c) (r2_world r) (r2_def r)))
      && model_renderings_differ c r
  | None => false
  end.

Definition known (c : case) : bool := known_null c || known_shape c.
(* a failure counts as a RECORDED finding only when the model - which reproduces both findings - predicts exactly what
   the implementation did on this case (first run: value, diagnostics flag, log; second run: value); any further
   deviation makes it a new failure with this input as the replay *)
Definition spec_fail_new (c : case) : bool := spec_fail c && negb (known c && negb (mismatch c)).
Definition spec_fail_known (c : case) : bool := spec_fail c && known c && negb (mismatch c).
Definition nontrivial (c : case) : bool := c_compared c.

Definition dec_run2 (x : sexp) : option (option run2) :=
  match x with
  | Atom "none" => Some None
  | SList [d; w; v] =>
      match dec_envdef d, dec_world w, dec_xval wire_fuel v with
      | Some d, Some w, Some v => Some (Some {| r2_def := d; r2_world := w; r2_value := v |})
      | _, _, _ => None
      end
  | _ => None
  end.

Definition decode (x : sexp) : option case :=
  match x with
  | SList [Atom "c03"; n; d; w; o; cmp; eq; comp; r2] =>
      match atom_str n, dec_envdef d, dec_world w, dec_obs o, dec_run2 r2 with
      | Some n, Some d, Some w, Some o, Some r2 =>
          match atom_bool cmp, atom_bool eq, atom_bool comp with
          | Some a, Some b, Some c => Some {| c_name := n; c_def := d; c_world := w; c_obs := o;
                                              c_compared := a; c_equal := b; c_composite := c; c_run2 := r2 |}
          | _, _, _ => None
          end
      | _, _, _, _, _ => None
      end
  | _ => None
  end.

Definition verdict (c : case) : N :=
  verdict_bits (mismatch c) (spec_fail_new c) (spec_fail_known c) (nontrivial c).

Definition run_line : string -> string := run_with decode verdict.
