(* Corr/C03.v — secret plaintext never reaches redacted output. *)
From Verif Require Import Base.Bytes Base.Wire Model.Chain Model.GoText Model.Eval Corr.EvalWire.

Record case := {
  c_name : string; c_def : envdef; c_world : world; c_obs : iobs;
  c_compared : bool;     (* both runs (original and substituted secrets) finished without diagnostics *)
  c_equal : bool;        (* their redacted renderings (JSON, string, environment variables) are byte-identical *)
  c_composite : bool     (* some provider returns a composite flagged secret whose children are not flagged *)
}.

Definition spec_fail (c : case) : bool :=
  (c_compared c && negb (c_equal c)) || match c_obs c with ICrash | IPanic => true | _ => false end.

Definition mismatch (c : case) : bool :=
  match compare_run (c_world c) (c_name c) (c_def c) (c_obs c) with CmpDiff => true | _ => false end.

(* known finding C03-fromjson-null: esc.FromJSON returns Value{} for JSON null, dropping the secret flag, so a secret JSON
   text "null" versus any other document is visible in redacted output.  Class: the program applies fn::fromJSON. *)
Fixpoint has_fromjson (fuel : nat) (e : expr) : bool :=
  match fuel with
  | O => false
  | S f =>
    match e with
    | EFromJSON _ => true
    | EArr l => existsb (has_fromjson f) l
    | EObj kvs => existsb (fun kv => has_fromjson f (snd kv)) kvs
    | EJoin a b => has_fromjson f a || has_fromjson f b
    | EToJSON a | EToString a | EToB64 a | EFromB64 a => has_fromjson f a
    | EOpen _ a => has_fromjson f a
    | _ => false
    end
  end.

Fixpoint json_has_null (fuel : nat) (j : json) : bool :=
  match fuel with
  | O => false
  | S f =>
    match j with
    | JNull => true
    | JArr l => existsb (json_has_null f) l
    | JObj m => existsb (fun kv => json_has_null f (snd kv)) m
    | _ => false
    end
  end.

(* a static secret whose text is a JSON document containing null *)
Fixpoint has_null_secret (fuel : nat) (e : expr) : bool :=
  match fuel with
  | O => false
  | S f =>
    match e with
    | ESecretPlain s => match json_parse s with JPOk j => json_has_null wire_fuel j | _ => false end
    | EArr l => existsb (has_null_secret f) l
    | EObj kvs => existsb (fun kv => has_null_secret f (snd kv)) kvs
    | EJoin a b => has_null_secret f a || has_null_secret f b
    | EToJSON a | EFromJSON a | EToString a | EToB64 a | EFromB64 a => has_null_secret f a
    | EOpen _ a => has_null_secret f a
    | _ => false
    end
  end.

Definition known (c : case) : bool :=
  existsb (fun kv => has_fromjson wire_fuel (snd kv)) (ed_values (c_def c))
  && existsb (fun kv => has_null_secret wire_fuel (snd kv)) (ed_values (c_def c)).
(* a failure counts as the RECORDED finding only when the model - which reproduces that finding - predicts exactly what the
   implementation did on this case; any further deviation makes it a new failure with this input as the replay *)
Definition spec_fail_new (c : case) : bool := spec_fail c && negb (known c && negb (mismatch c)).
Definition spec_fail_known (c : case) : bool := spec_fail c && known c && negb (mismatch c).
Definition nontrivial (c : case) : bool := c_compared c.

Definition decode (x : sexp) : option case :=
  match x with
  | SList [Atom "c03"; n; d; w; o; cmp; eq; comp] =>
      match atom_str n, dec_envdef d, dec_world w, dec_obs o with
      | Some n, Some d, Some w, Some o =>
          match atom_bool cmp, atom_bool eq, atom_bool comp with
          | Some a, Some b, Some c => Some {| c_name := n; c_def := d; c_world := w; c_obs := o;
                                              c_compared := a; c_equal := b; c_composite := c |}
          | _, _, _ => None
          end
      | _, _, _, _ => None
      end
  | _ => None
  end.

Definition verdict (c : case) : N :=
  verdict_bits (mismatch c) (spec_fail_new c) (spec_fail_known c) (nontrivial c).

Definition run_line : string -> string := run_with decode verdict.
