(* Corr/C06Schema.v — the schema clause of C06:

     "when providers return exactly what their output schema declares, the schema reported by check accepts the value
      the opened environment produces."

   The oracle looks at the IMPLEMENTATION alone: the schema eval.CheckEnvironment returned (Environment.Schema, as JSON,
   read into Model/Schema.v's [schema] by the reader of Corr/C08.v), the value eval.EvalEnvironment returned (plain JSON,
   secrets shown), whether the open run had diagnostics or unknown values, and whether the providers the open run called
   returned values their declared output schemas accept.  The judge is [vspec] (Model/Validate.v): the hand-written JSON
   Schema 2020-12 specification C08's theorems are about.  No evaluator model is involved in [sfail].

   What the reader projects away from esc's schema JSON (lib/verif/props/c06_schema_cases.py, clean_schema): the annotation
   keywords title / description / default / deprecated / examples / secret (they assert nothing) and `"type": ""`, which is
   how esc prints a schema without `type` (the Go field has no omitempty; Model/Schema.v: k_type = None).  A schema or value
   using anything else Model/Schema.v has no place for ($ref/$defs below the root, non-integral numerals, unknown keywords)
   arrives as [SUnsup]/[VUnsup]: the case is OUTSIDE (never guessed).

   Second part of the file: measurement of the evaluator MODEL's schema (Model/Chain.v [top_sch] of the root chain) against
   the implementation's, on the model's vocabulary ([project]). *)
From Verif Require Import Base.Bytes Base.Wire Model.Schema Model.Validate.
From Verif Require Corr.C08.
From Verif Require Model.Chain Model.Eval Corr.EvalWire.

(* ------------------------------------------------------------------------------------------------------------------ *)
(* observation                                                                                                          *)
Inductive sobs := SNone | SUnsup | SSch (D : defs) (s : schema).
Inductive vobs := VNone | VUnsup | VVal (v : json).

(* a provider of the world: declared output schema (None: not representable), the constant it returns (None: echo / fail) *)
Record pdecl := { pd_name : string; pd_out : option (defs * schema); pd_const : option json }.

Record scase := {
  s_conform : bool;        (* every provider the open run called returned what its output schema declares *)
  s_errors : bool;         (* the open run reported an error diagnostic *)
  s_unknowns : bool;       (* the opened value contains an unknown value *)
  s_check : sobs;          (* Environment.Schema of CheckEnvironment, showSecrets = false *)
  s_show : sobs;           (* Environment.Schema of CheckEnvironment, showSecrets = true *)
  s_value : vobs;          (* the opened value *)
  s_provs : list pdecl;
  s_open : sobs            (* Environment.Schema of EvalEnvironment: only compared with the model's (sch_mismatch) *)
}.

(* fuel of this file's own schema walks (the model's helpers compute theirs: Chain.sch_depth) *)
Definition corr_sch_fuel : nat := 64.

Definition vfuel : nat := C08.fuel.
Definition valid (D : defs) (s : schema) (v : json) : option bool := vspec C08.re_lit D vfuel s v.

(* the clause's hypothesis *)
Definition in_hyp (c : scase) : bool := s_conform c && negb (s_errors c) && negb (s_unknowns c).

Definition rejects (o : sobs) (v : json) : bool :=
  match o with SSch D s => match valid D s v with Some false => true | _ => false end | _ => false end.

Definition decides (o : sobs) (v : json) : bool :=
  match o with SSch D s => match valid D s v with Some _ => true | None => false end | _ => false end.

(* THE ORACLE: inside the hypothesis, a schema check reported rejects the opened value *)
Definition sfail (c : scase) : bool :=
  in_hyp c && match s_value c with VVal v => rejects (s_check c) v || rejects (s_show c) v | _ => false end.

(* inside the hypothesis and decided for both check runs *)
Definition decided (c : scase) : bool :=
  in_hyp c && match s_value c with VVal v => decides (s_check c) v && decides (s_show c) v | _ => false end.

(* inside the hypothesis but not decidable with the vocabulary of Model/Schema.v *)
Definition unsupported (c : scase) : bool := in_hyp c && negb (decided c).

(* ------------------------------------------------------------------------------------------------------------------ *)
(* known findings: seven defects of esc's schema PRODUCER (exact programs: selftest/witness/C06-schema-*.json).
   Each class is a conjunction of
     (i)  a precondition on the INPUT under which the defect can show at all, and
     (ii) "the reported schema accepts the opened value once the symptom of exactly that defect is neutralised"
          (a relaxation of the reported schema).
   A failure is known iff the relaxations whose preconditions hold make BOTH check schemas accept; anything left is new.

   A  merge-required   eval/value.go mergedSchema builds schema.Record(...): every property name of base and top becomes
                       `required`, so a provider's declared-but-optional property is required after any merge with a base
                       (evalEnvironment re-merges the root with its base, so importing is enough).
                       pre: a merged import exists and a provider declares a property it does not require.
                       relax: drop every `required`.
   B  merge-additional mergedSchema keeps the BASE's property schema for a key the top layer's schema does not declare,
                       although the top layer (a provider output admitted by additionalProperties / a bare object
                       schema) supplies that key.
                       pre: a merged import exists and a provider returns a key its schema does not declare that is also a
                            key of an object literal or a declared property of a provider.
                       relax: the property schemas of exactly those keys, and of the definitions that read one of them
                              (${o.key}: check derives the reader's schema from the key's), become `true`.
   C  absent-is-never  schema/schema.go objectProperty / arrayItem return the nil AdditionalProperties / Items pointer for an
                       undeclared member and union() turns nil into Never: accessing a member the provider's schema neither
                       declares nor forbids gives the schema `false`.
                       pre: a provider's schema has an object node without additionalProperties or an array node without items.
                       relax: `false` in property / prefixItems position becomes `true`.
   D  union-oneof      schema.Property / Item build `oneOf` over the alternatives of an anyOf / oneOf: two alternatives
                       declaring the member with overlapping schemas reject the value (oneOf = exactly one).
                       pre: a provider's schema uses anyOf / oneOf.
                       relax: oneOf is read as anyOf.
   E  merge-open-base  mergedSchema takes the TOP's additionalProperties when the base has none (value.go:406-414), and returns the
                       top schema unchanged when the base's schema is not `type: object`, also when it is `true` (a provider
                       declaring anything, an echo).  In both cases the base may carry members the top does not declare; they
                       survive the merge and the top's additionalProperties (false, or a type) rejects them.
                       The other arm of the same lines: the BASE's additionalProperties is taken over when the top has none,
                       although a top without additionalProperties (a bare `type: object`) supplies members of any type; the
                       symptom also travels to the definitions that READ such a member (${o.user}: check derives the reader's
                       schema from the surviving additionalProperties).
                       pre: a merged import exists, a provider declares `true` or an object node without additionalProperties,
                            and a provider's schema has an object node with additionalProperties.
                       relax: every additionalProperties is dropped, and the property schemas of the definitions that read a
                              key a provider returns without declaring it become `true`.
   F  merge-through-cut value.merge (eval/value.go:254) and evalEnvironment (eval/eval.go:123-130) recompute the schema of an
                       object by merging the PROPERTY SCHEMAS of top and base (mergedSchema, value.go:398-400), while the value
                       of a property follows that property's own chain of bases.  A reference copies its target WITH its chain
                       (copier.copy, value.go:471-478); if that chain holds a non-object layer below an object layer (a: null
                       in an import, a: {val: true} in the importer), the non-object layer cuts the merge with the base of the
                       referencing key (value.keys stops there, value.go:159-164) but the parent's schema merge does not see
                       it: z: ${a} over an imported z: {k: 1} is {val: true}, check and open report properties k, val and
                       required [k, val].  The schema-level face of C01-assoc-ref.
                       pre: decided on the evaluator MODEL, which reproduces the defect: the paths (through object keys) of
                            the root value at which the chain has an object-schema layer over a non-object-schema layer over
                            an object-schema layer AND the schema-level merge (what the model predicts Go reports there)
                            differs from the schema of that chain ([cut_paths]; without a reference the fold over the chain
                            sees the cut and the two agree).  Lines without a world have no such paths.
                       relax: below exactly those paths `required` is dropped (what a layer beneath the cut would have
                              contributed; types, constants and additionalProperties stay).
   G  merge-optional-member  a literal object merged over a member the base MAY have: value.property (value.go:201-217) answers
                       an unknown base with a late-bound access carrying schema.Property(key) - the schema of an optional
                       declared property or the additionalProperties schema - and the literal's schema is merged with it as if
                       the member were there (mergedSchema unites `required`).  When the provider's value has no such member
                       the opened object is the literal alone and lacks what that schema requires.
                       pre: a merged import exists and a provider's schema requires names BELOW a property it does not
                            require or below an additionalProperties.
                       relax: exactly those names are dropped from every `required`. *)
Record relaxation := { r_required : bool; r_never : bool; r_oneof : bool; r_keys : list string; r_addl : bool;
                       r_rkeys : list string;            (* E: definitions reading an undeclared key of a provider *)
                       r_cuts : list (list string);      (* F: paths below which `required` is dropped *)
                       r_reqdrop : list string }.        (* G: names dropped from every `required` *)

Definition mk_relax (rq nv oo : bool) (ks : list string) (ad : bool) : relaxation :=
  {| r_required := rq; r_never := nv; r_oneof := oo; r_keys := ks; r_addl := ad; r_rkeys := []; r_cuts := []; r_reqdrop := [] |}.

Definition kw_set_required (k : keywords) (req : list string) : keywords :=
  mkKw (k_type k) (k_const k) (k_enum k) (k_multipleOf k) (k_maximum k) (k_exclusiveMaximum k) (k_minimum k)
       (k_exclusiveMinimum k) (k_maxLength k) (k_minLength k) (k_pattern k) (k_maxItems k) (k_minItems k) (k_uniqueItems k)
       (k_maxProperties k) (k_minProperties k) req (k_dependentRequired k).

Definition kw_no_required (k : keywords) : keywords :=
  mkKw (k_type k) (k_const k) (k_enum k) (k_multipleOf k) (k_maximum k) (k_exclusiveMaximum k) (k_minimum k)
       (k_exclusiveMinimum k) (k_maxLength k) (k_minLength k) (k_pattern k) (k_maxItems k) (k_minItems k) (k_uniqueItems k)
       (k_maxProperties k) (k_minProperties k) [] (k_dependentRequired k).

Definition never_to_always (r : relaxation) (s : schema) : schema :=
  match s with SNever => if r_never r then SAlways else SNever | _ => s end.

Fixpoint relax (fu : nat) (r : relaxation) (s : schema) : schema :=
  match fu with
  | O => s
  | S f =>
    match s with
    | SNode ref a o pre it ad props k =>
        let a' := map (relax f r) a in
        let o' := map (relax f r) o in
        let pre' := map (fun t => never_to_always r (relax f r t)) pre in
        let props' := map (fun kt => (fst kt, if mem (fst kt) (r_keys r) || mem (fst kt) (r_rkeys r) then SAlways
                                              else never_to_always r (relax f r (snd kt)))) props in
        SNode ref (if r_oneof r then a' ++ o' else a') (if r_oneof r then [] else o') pre'
              (option_map (relax f r) it) (if r_addl r then None else option_map (relax f r) ad) props'
              (if r_required r then kw_no_required k
               else match r_reqdrop r with
                    | [] => k
                    | dr => kw_set_required k (filter (fun n => negb (mem n dr)) (k_required k))
                    end)
    | _ => s
    end
  end.

(* F: the relaxation below the cut paths.  [paths_under k] keeps the paths that start with key k, without that key. *)
Definition paths_under (k : string) (ps : list (list string)) : list (list string) :=
  flat_map (fun p => match p with k' :: r => if String.eqb k k' then [r] else [] | [] => [] end) ps.

Fixpoint relax_at (fu : nat) (ps : list (list string)) (s : schema) : schema :=
  match fu with
  | O => s
  | S f =>
    match ps with
    | [] => s
    | _ =>
      if existsb (fun p => match p with [] => true | _ => false end) ps
      then relax C08.jfuel (mk_relax true false false [] false) s
      else match s with
           | SNode ref a o pre it ad props k =>
               SNode ref a o pre it ad (map (fun kt => (fst kt, relax_at f (paths_under (fst kt) ps) (snd kt))) props) k
           | _ => s
           end
    end
  end.

(* ---- preconditions, computed from the declared provider schemas, their constants, and the definitions ---- *)
Definition sexists (p : schema -> bool) (s : schema) : bool := negb (sall (fun t => negb (p t)) s).

Definition node_declares_optional (s : schema) : bool :=
  match s with
  | SNode _ _ _ _ _ _ props k => existsb (fun kt => negb (mem (fst kt) (k_required k))) props
  | _ => false
  end.

Definition node_open (s : schema) : bool :=
  match s with
  | SNode _ _ _ _ it ad _ k =>
      match k_type k with
      | Some TObj => match ad with None => true | Some _ => false end
      | Some TArr => match it with None => true | Some _ => false end
      | _ => false
      end
  | _ => false
  end.

Definition node_has_addl (s : schema) : bool :=
  match s with SNode _ _ _ _ _ (Some _) _ _ => true | _ => false end.

Definition node_union (s : schema) : bool :=
  match s with SNode _ (_ :: _) _ _ _ _ _ _ => true | SNode _ _ (_ :: _) _ _ _ _ _ => true | _ => false end.

Fixpoint declared_names (fu : nat) (s : schema) : list string :=
  match fu with
  | O => []
  | S f =>
    match s with
    | SNode _ a o pre it ad props _ =>
        map fst props ++ flat_map (fun kt => declared_names f (snd kt)) props
        ++ flat_map (declared_names f) (a ++ o ++ pre)
        ++ match it with Some t => declared_names f t | None => [] end
        ++ match ad with Some t => declared_names f t | None => [] end
    | _ => []
    end
  end.

(* keys of the constant that the schema does not declare at the node they sit under *)
Fixpoint undeclared_keys (fu : nat) (s : schema) (v : json) : list string :=
  match fu with
  | O => []
  | S f =>
    match s with
    | SNode _ a o pre it ad props _ =>
        flat_map (fun t => undeclared_keys f t v) (a ++ o)
        ++ match v with
           | JObj m =>
               flat_map (fun kx => match lookup (fst kx) props with
                                   | Some t => undeclared_keys f t (snd kx)
                                   | None => fst kx :: match ad with Some t => undeclared_keys f t (snd kx) | None => [] end
                                   end) m
           | JArr l =>
               (fix go (pre : list schema) (l : list json) {struct l} : list string :=
                  match l with
                  | [] => []
                  | x :: l' =>
                      match pre with
                      | p :: pre' => undeclared_keys f p x ++ go pre' l'
                      | [] => match it with Some t => undeclared_keys f t x | None => [] end ++ go [] l'
                      end
                  end) pre l
           | _ => []
           end
    | _ => []
    end
  end.

(* keys of object literals in the definitions *)
Fixpoint literal_keys (fu : nat) (e : Eval.expr) : list string :=
  match fu with
  | O => []
  | S f =>
    match e with
    | Eval.EArr l => flat_map (literal_keys f) l
    | Eval.EObj kvs => map fst kvs ++ flat_map (fun kv => literal_keys f (snd kv)) kvs
    | Eval.EJoin a b => literal_keys f a ++ literal_keys f b
    | Eval.EToJSON a | Eval.EFromJSON a | Eval.EToString a | Eval.EToB64 a | Eval.EFromB64 a => literal_keys f a
    | Eval.EOpen _ a => literal_keys f a
    | _ => []
    end
  end.

(* definitions that READ one of the keys [ks]: names of object-literal entries (top-level definitions included) whose
   expression contains a reference with an accessor in [ks].  The schema check derives for such a reader is the schema it
   derived for the key. *)
Definition path_mentions (ks : list string) (p : list Eval.accessor) : bool :=
  existsb (fun a => match a with Eval.AName k | Eval.AKey k => mem k ks | Eval.AIdx _ => false end) p.

Fixpoint mentions (fu : nat) (ks : list string) (e : Eval.expr) : bool :=
  match fu with
  | O => false
  | S f =>
    match e with
    | Eval.ESym p => path_mentions ks p
    | Eval.EInterp parts => existsb (fun tp => match snd tp with Some p => path_mentions ks p | None => false end) parts
    | Eval.EArr l => existsb (mentions f ks) l
    | Eval.EObj kvs => existsb (fun kv => mentions f ks (snd kv)) kvs
    | Eval.EJoin a b => mentions f ks a || mentions f ks b
    | Eval.EToJSON a | Eval.EFromJSON a | Eval.EToString a | Eval.EToB64 a | Eval.EFromB64 a => mentions f ks a
    | Eval.EOpen _ a => mentions f ks a
    | _ => false
    end
  end.

Fixpoint readers (fu : nat) (ks : list string) (e : Eval.expr) : list string :=
  match fu with
  | O => []
  | S f =>
    match e with
    | Eval.EObj kvs =>
        flat_map (fun kv => (if mentions f ks (snd kv) then [fst kv] else []) ++ readers f ks (snd kv)) kvs
    | Eval.EArr l => flat_map (readers f ks) l
    | Eval.EJoin a b => readers f ks a ++ readers f ks b
    | Eval.EToJSON a | Eval.EFromJSON a | Eval.EToString a | Eval.EToB64 a | Eval.EFromB64 a => readers f ks a
    | Eval.EOpen _ a => readers f ks a
    | _ => []
    end
  end.

Definition def_readers (ks : list string) (ds : list Eval.envdef) : list string :=
  match ks with
  | [] => []
  | _ => flat_map (fun d => readers EvalWire.wire_fuel ks (Eval.EObj (Eval.ed_values d))) ds
  end.

Definition has_merge (ds : list Eval.envdef) : bool :=
  existsb (fun d => existsb (fun im => snd im) (Eval.ed_imports d)) ds.

Definition def_keys (ds : list Eval.envdef) : list string :=
  flat_map (fun d => flat_map (fun kv => literal_keys EvalWire.wire_fuel (snd kv)) (Eval.ed_values d)) ds.

Definition prov_any (p : schema -> bool) (c : scase) : bool :=
  existsb (fun pd => match pd_out pd with
                     | Some (D, s) => sexists p s || existsb (fun kt => sexists p (snd kt)) D
                     | None => false
                     end) (s_provs c).

(* G: names a provider's schema requires at or below [s] / below a member the schema does not require *)
Fixpoint req_below (fu : nat) (s : schema) : list string :=
  match fu with
  | O => []
  | S f =>
    match s with
    | SNode _ a o pre it ad props k =>
        k_required k ++ flat_map (fun kt => req_below f (snd kt)) props ++ flat_map (req_below f) (a ++ o ++ pre)
        ++ match it with Some t => req_below f t | None => [] end
        ++ match ad with Some t => req_below f t | None => [] end
    | _ => []
    end
  end.

Fixpoint optional_req (fu : nat) (s : schema) : list string :=
  match fu with
  | O => []
  | S f =>
    match s with
    | SNode _ a o pre it ad props k =>
        flat_map (fun kt => if mem (fst kt) (k_required k) then optional_req f (snd kt) else req_below f (snd kt)) props
        ++ flat_map (optional_req f) (a ++ o ++ pre)
        ++ match it with Some t => optional_req f t | None => [] end
        ++ match ad with Some t => req_below f t | None => [] end
    | _ => []
    end
  end.

Definition relaxation_of (cuts : list (list string)) (ds : list Eval.envdef) (c : scase) : relaxation :=
  let merge := has_merge ds in
  let declared := flat_map (fun pd => match pd_out pd with Some (_, s) => declared_names C08.jfuel s | None => [] end) (s_provs c) in
  let und := flat_map (fun pd => match pd_out pd, pd_const pd with
                                 | Some (_, s), Some v => undeclared_keys C08.jfuel s v
                                 | _, _ => []
                                 end) (s_provs c) in
  let lits := def_keys ds ++ declared in
  let addl := merge && prov_any node_has_addl c
              && (existsb (fun pd => match pd_out pd with Some (_, SAlways) => true | _ => false end) (s_provs c)
                  || prov_any (fun t => match t with
                                        | SNode _ _ _ _ _ None _ k => match k_type k with Some TObj => true | _ => false end
                                        | _ => false
                                        end) c) in
  {| r_required := false;   (* finding C06-schema-merge-required is FIXED (dc852d7): no longer excused *)
     r_never := prov_any node_open c;
     r_oneof := prov_any node_union c;
     r_keys := (let ks := if merge then filter (fun k => mem k lits) und else [] in
                ks ++ def_readers ks ds);
     r_addl := addl;
     r_rkeys := if addl then def_readers und ds else [];
     r_cuts := cuts;
     r_reqdrop := if merge
                  then flat_map (fun pd => match pd_out pd with
                                           | Some (D, s) => optional_req C08.jfuel s
                                                            ++ flat_map (fun kt => optional_req C08.jfuel (snd kt)) D
                                           | None => []
                                           end) (s_provs c)
                  else [] |}.

Definition nonnil {A} (l : list A) : bool := match l with [] => false | _ => true end.

Definition relaxation_nonempty (r : relaxation) : bool :=
  r_required r || r_never r || r_oneof r || r_addl r || nonnil (r_keys r) || nonnil (r_rkeys r) || nonnil (r_cuts r)
  || nonnil (r_reqdrop r).

Definition accepts_relaxed (r : relaxation) (o : sobs) (v : json) : bool :=
  match o with
  | SSch D s => match valid D (relax_at C08.jfuel (r_cuts r) (relax C08.jfuel r s)) v with Some true => true | _ => false end
  | _ => true
  end.

(* [cuts]: the cut paths of class F, computed from the evaluator model by the caller ([cuts_of] below; [] for lines without
   a world) *)
Definition known (cuts : list (list string)) (ds : list Eval.envdef) (c : scase) : bool :=
  let r := relaxation_of cuts ds c in
  relaxation_nonempty r
  && match s_value c with
     | VVal v => accepts_relaxed r (s_check c) v && accepts_relaxed r (s_show c) v
     | _ => false
     end.

(* for the evidence only: the single class that alone explains a known failure (0 = it takes more than one) *)
Definition known_class (cuts : list (list string)) (ds : list Eval.envdef) (c : scase) : N :=
  let r := relaxation_of cuts ds c in
  let only := fun (q : relaxation) =>
                relaxation_nonempty q
                && match s_value c with
                   | VVal v => accepts_relaxed q (s_check c) v && accepts_relaxed q (s_show c) v
                   | _ => false
                   end in
  if only (mk_relax (r_required r) false false [] false) then 1
  else if only (mk_relax false false false (r_keys r) false) then 2
  else if only (mk_relax false (r_never r) false [] false) then 3
  else if only (mk_relax false false (r_oneof r) [] false) then 4
  else if only {| r_required := false; r_never := false; r_oneof := false; r_keys := []; r_addl := r_addl r;
                  r_rkeys := r_rkeys r; r_cuts := []; r_reqdrop := [] |} then 5
  else if only {| r_required := false; r_never := false; r_oneof := false; r_keys := []; r_addl := false;
                  r_rkeys := []; r_cuts := r_cuts r; r_reqdrop := [] |} then 6
  else if only {| r_required := false; r_never := false; r_oneof := false; r_keys := []; r_addl := false;
                  r_rkeys := []; r_cuts := []; r_reqdrop := r_reqdrop r |} then 7
  else 0.

(* [agree]: the model's schema of the root value is what the implementation reported (negb sch_mismatch; true where no model
   is at hand).  A failure counts as a RECORDED finding only then: where the model - which reproduces finding F and, outside
   hist_class, every schema the evaluator builds - does not predict the implementation, the failure is new. *)
Definition fail_new (agree : bool) (cuts : list (list string)) (ds : list Eval.envdef) (c : scase) : bool :=
  sfail c && negb (known cuts ds c && agree).
Definition fail_known (agree : bool) (cuts : list (list string)) (ds : list Eval.envdef) (c : scase) : bool :=
  sfail c && known cuts ds c && agree.

(* ------------------------------------------------------------------------------------------------------------------ *)
(* wire:  (sch conform errors unknowns S1 S2 V (P...) S3)        S3 (schema of the open run) may be missing
            S = none | unsup | same | (s <defs> <schema>)        ("same" only for S2: identical to S1)
            V = none | unsup | <json>
            P = (p <name> unsup|(s <defs> <schema>) none|<json>)                                                        *)
Definition dec_sobs (x : sexp) : option sobs :=
  match x with
  | Atom "none" => Some SNone
  | Atom "unsup" => Some SUnsup
  | SList [Atom "s"; d; s] =>
      match C08.dec_defs d, C08.dec_schema C08.jfuel s with Some d', Some s' => Some (SSch d' s') | _, _ => None end
  | _ => None
  end.

Definition dec_vobs (x : sexp) : option vobs :=
  match x with
  | Atom "none" => Some VNone
  | Atom "unsup" => Some VUnsup
  | _ => option_map VVal (C08.dec_json C08.jfuel x)
  end.

Definition dec_pdecl (x : sexp) : option pdecl :=
  match x with
  | SList [Atom "p"; n; o; v] =>
      match atom_str n, dec_sobs o, match v with Atom "none" => Some None | _ => option_map Some (C08.dec_json C08.jfuel v) end with
      | Some n', Some o', Some v' =>
          Some {| pd_name := n'; pd_out := match o' with SSch D s => Some (D, s) | _ => None end; pd_const := v' |}
      | _, _, _ => None
      end
  | _ => None
  end.

Definition dec_scase_parts (cf er un s1 s2 v : sexp) (ps : list sexp) (s3 : sexp) : option scase :=
  match atom_bool cf, atom_bool er, atom_bool un with
  | Some cf', Some er', Some un' =>
      match dec_sobs s1, match s2 with Atom "same" => dec_sobs s1 | _ => dec_sobs s2 end, dec_vobs v, map_opt dec_pdecl ps,
            dec_sobs s3 with
      | Some a, Some b, Some v', Some ps', Some c =>
          Some {| s_conform := cf'; s_errors := er'; s_unknowns := un'; s_check := a; s_show := b; s_value := v';
                  s_provs := ps'; s_open := c |}
      | _, _, _, _, _ => None
      end
  | _, _, _ => None
  end.

Definition dec_scase (x : sexp) : option scase :=
  match x with
  | SList [Atom "sch"; cf; er; un; s1; s2; v; SList ps] => dec_scase_parts cf er un s1 s2 v ps (Atom "none")
  | SList [Atom "sch"; cf; er; un; s1; s2; v; SList ps; s3] => dec_scase_parts cf er un s1 s2 v ps s3
  | _ => None
  end.

(* ------------------------------------------------------------------------------------------------------------------ *)
(* model vs implementation on schemas (measurement).
   [project] maps esc's schema onto the vocabulary of the evaluator model's [sch]:
     true / false / type null|boolean|number|string / type array + prefixItems + items / type object + properties +
     additionalProperties / oneOf (without type).
   Projected away: const, required (and every other assertion keyword; the evaluator emits none of them).
   Not projectable (counted separately): anyOf, $ref, a typeless node without oneOf, type together with oneOf. *)
Definition type_name (t : jtype) : string :=
  match t with TNull => "null" | TBool => "boolean" | TNum => "number" | TStr => "string" | TArr => "array" | TObj => "object" end.

Fixpoint project (fu : nat) (s : schema) : option Chain.sch :=
  match fu with
  | O => None
  | S f =>
    match s with
    | SAlways => Some Chain.ScAlways
    | SNever => Some Chain.ScNever
    | SNode None [] o pre it ad props k =>
        let popt := fun (x : option schema) =>
                      match x with
                      | None => Some None
                      | Some t => match project f t with Some t' => Some (Some t') | None => None end
                      end in
        match k_type k, o with
        | Some TArr, [] =>
            match map_opt (project f) pre, popt it with
            | Some pre', Some it' => Some (Chain.ScArray pre' it') | _, _ => None end
        | Some TObj, [] =>
            match map_opt (fun kt => match project f (snd kt) with Some t => Some (fst kt, t) | None => None end) props, popt ad with
            | Some props', Some ad' => Some (Chain.ScObject props' ad') | _, _ => None end
        | Some t, [] => Some (Chain.ScType (type_name t))
        | None, _ :: _ => option_map Chain.ScOneOf (map_opt (project f) o)
        | _, _ => None
        end
    | _ => None
    end
  end.

Fixpoint sch_eqb (fu : nat) (a b : Chain.sch) : bool :=
  match fu with
  | O => false
  | S f =>
    let oeq := fun (x y : option Chain.sch) =>
                 match x, y with Some x', Some y' => sch_eqb f x' y' | None, None => true | _, _ => false end in
    let leq := fix leq (x y : list Chain.sch) {struct x} : bool :=
                 match x, y with
                 | [], [] => true
                 | x' :: xr, y' :: yr => sch_eqb f x' y' && leq xr yr
                 | _, _ => false
                 end in
    match a, b with
    | Chain.ScAlways, Chain.ScAlways => true
    | Chain.ScNever, Chain.ScNever => true
    | Chain.ScType x, Chain.ScType y => String.eqb x y
    | Chain.ScArray p i, Chain.ScArray p' i' => leq p p' && oeq i i'
    | Chain.ScObject p ad, Chain.ScObject p' ad' =>
        Nat.eqb (length p) (length p')
        && forallb (fun kt => match Chain.alookup (fst kt) p' with Some t' => sch_eqb f (snd kt) t' | None => false end) p
        && oeq ad ad'
    | Chain.ScOneOf l, Chain.ScOneOf l' => leq l l'
    | _, _ => false
    end
  end.

Definition with_mode (W : Eval.world) (check show : bool) : Eval.world :=
  {| Eval.w_envs := Eval.w_envs W; Eval.w_provs := Eval.w_provs W; Eval.w_ctx := Eval.w_ctx W; Eval.w_check := check;
     Eval.w_show := show; Eval.w_fault := Eval.w_fault W; Eval.w_decrypt := Eval.w_decrypt W |}.

(* the schema evalEnvironment reports (eval/eval.go:123-130), computed from the model's root chain [c] = v :: base:
     s := Never; if v != nil { if v.base != nil { s = mergedSchema(v.base.schema, v.schema) } else { s = v.schema } }
   v.schema is [top_sch c] (the root value's schema after value.merge), v.base.schema is [top_sch] of the rest of the chain.
   [once = true] measures the variant WITHOUT that last merge (plain [top_sch c]), to show what it accounts for. *)
Definition model_root_sch (once : bool) (W : Eval.world) (name : string) (d : Eval.envdef) : option Chain.sch :=
  let '(c, s) := Eval.eval_env W EvalWire.model_fuel "" name d Eval.st0 in
  if Eval.oof s then None
  else Some (match c with
             | [] => Chain.ScNever
             | _ :: [] => Chain.top_sch c
             | _ :: rest => if once then Chain.top_sch c
                            else Chain.merged_schema (Chain.sch_depth (Chain.top_sch c)) (Some (Chain.top_sch rest)) (Chain.top_sch c)
             end).

(* ---- the class in which the model's schema bookkeeping is NOT faithful: schemas that depend on the merge HISTORY ----------
   In Go every *value carries ONE mutable [schema] field.  value.merge (eval/value.go:225-255) ends with
       v.schema = mergedSchema(v.base.schema, v.schema)                                              (value.go:254)
   every time the value is merged - also when its base did not change: the parent's merge re-merges every property
   (value.go:247-251), and for a property that already sits on that base only the structural part returns early
   (value.go:226) while every value above the base is re-merged.  copier.copy (value.go:471-478) hands the already-merged
   schema on to the copy a reference makes (eval.go:637), and evaluateExpr (eval.go:552) merges the copy AGAIN with the base
   of the referencing key.  mergedSchema is idempotent except in one place (value.go:406-414): a non-nil
   additionalProperties of the base is taken over by a top that has none, and two non-nil ones become `true`.  So a value
   that has absorbed its base's additionalProperties and is merged once more reports `true` where one merge reports the
   base's schema, and HOW OFTEN a value has been merged depends on the history:
     (a) a reference copies a value that has absorbed, and the referencing key has a base of its own (any base: `v2: 1` is
         enough) - selftest/witness/C06-model-schema-disagreement.replay.json, minimal: history/min1;
     (b) the memoised expr.value of a member is re-merged IN PLACE when its parent object completes; a reference evaluated
         after that sees the re-merged schema, one evaluated before it (key order) does not - minimal: history/min2 / min2n;
   The model keeps the ORIGINAL schema in every layer, recomputes [chain_sch] and pictures a re-merge by REPEATED layers
   (a member's chain already ends in its base, [property] through the parent appends that base again).  That agrees with Go
   as long as nothing absorbs: the additionalProperties of n layers combine as nil / the one non-nil / `true`, whatever the
   grouping.  It does not follow (a) and (b), and it has an artefact of its own:
     (c) where the repeated layer is UNKNOWN (a provider output not opened), [top_sch] of the repetition is
         mergedSchema(U, U) although Go has ONE value carrying U, and value.property (value.go:201-217) /
         evaluateUnknownAccess (eval.go:762) derive the schema of a member from it: additionalProperties `false` or a type
         reads as `true` below the repetition.
   All three need a value merged over a base from which it takes a non-nil additionalProperties.  [hist_class] is decidable
   on (world, name, definition): the model's run, in the world's mode, memoises a chain one of whose layers is merged over a
   base from which it absorbs a non-nil additionalProperties - at the top or below a property both declare as an object -
   or whose merged schema is changed by merging it with itself (a non-nil additionalProperties other than `true` at the top
   or below properties).  Outside the class every mergedSchema the evaluator applies is idempotent and insensitive to
   regrouping, so neither the history nor the repetition can show.  Measured (lib/verif/props/c06_schema_cases.py,
   history_world: closed / map-like / nested provider records under and over literals, references before and after their
   targets, up to four environments): 480 000 runs, 2 779 disagreements, every one of them inside the class (which holds half
   of that family's runs, and about one run in seven of the other families: literals merged over or under closed provider
   records).  The price: inside the class the additionalProperties arm of mergedSchema is judged by the schema clause's
   oracle alone. *)
Fixpoint sch_absorbs (fu : nat) (base top : Chain.sch) : bool :=
  match fu with
  | O => true
  | S f =>
    match base, top with
    | Chain.ScObject bp ba, Chain.ScObject tp _ =>
        match ba with Some _ => true | None => false end
        || existsb (fun kt => match Chain.alookup (fst kt) bp with Some b => sch_absorbs f b (snd kt) | None => false end) tp
    | _, _ => false
    end
  end.

(* merging the schema with itself changes it: an object reachable through properties has a non-nil additionalProperties
   other than `true` *)
Fixpoint sch_unstable (fu : nat) (s : Chain.sch) : bool :=
  match fu with
  | O => true
  | S f =>
    match s with
    | Chain.ScObject props addl =>
        match addl with Some Chain.ScAlways => false | Some _ => true | None => false end
        || existsb (fun kt => sch_unstable f (snd kt)) props
    | _ => false
    end
  end.

Fixpoint chain_absorbs (c : list Chain.layer) : bool :=
  match c with
  | [] => false
  | l :: rest =>
      match rest with
      | [] => false
      | _ :: _ => sch_absorbs corr_sch_fuel (Chain.top_sch rest) (Chain.l_sch l) || sch_unstable corr_sch_fuel (Chain.top_sch c)
      end
      || chain_absorbs rest
  end.

Definition hist_class (W : Eval.world) (name : string) (d : Eval.envdef) : bool :=
  let '(_, s) := Eval.eval_env W EvalWire.model_fuel "" name d Eval.st0 in
  existsb (fun kv => match snd kv with Some c => chain_absorbs c | None => false end) (Eval.memo s).

(* 0 agree, 1 disagree, 2 the implementation's schema is outside the model's vocabulary, 3 no model schema,
   4 agree only with the last merge of evalEnvironment left out (never expected; kept as a cross-check of the reading above);
   inside [hist_class]: 5 disagree (1 or 4), 6 agree *)
Definition cmp_verdict (W : Eval.world) (name : string) (d : Eval.envdef) (o : sobs) : N :=
  match o with
  | SSch _ s =>
      match project C08.jfuel s with
      | None => 2
      | Some si =>
          if EvalWire.empty_def d then 3
          else match model_root_sch false W name d with
               | None => 3
               | Some sm =>
                   if sch_eqb C08.jfuel sm si then (if hist_class W name d then 6 else 0)
                   else if hist_class W name d then 5
                   else match model_root_sch true W name d with
                        | Some sm1 => if sch_eqb C08.jfuel sm1 si then 4 else 1
                        | None => 1
                        end
               end
      end
  | _ => 3
  end.

(* part of [mismatch] of the main line: OUTSIDE [hist_class] the model's schema of the root value differs from the
   implementation's in one of the three runs.  Schemas outside the model's vocabulary and runs the model gives no schema for
   are skipped. *)
Definition sch_mismatch (W : Eval.world) (name : string) (d : Eval.envdef) (c : scase) : bool :=
  let bad := fun (chk show : bool) (o : sobs) =>
               match cmp_verdict (with_mode W chk show) name d o with 1 | 4 => true | _ => false end in
  bad true false (s_check c) || bad true true (s_show c) || bad false false (s_open c).

(* ---- class F (merge-through-cut), decided on the model -------------------------------------------------------------------
   [has_cut c]: the chain has a layer whose schema is `type: object`, below it one whose schema is not, below that one whose
   schema is again.  [cut_paths rep c]: the paths through object keys at which such a chain sits AND the schema-level merge
   [rep] (the model's prediction of what Go reports at that path: the reported root schema, descended through `properties`)
   differs from [top_sch] of the chain, i.e. the cut is hidden from mergedSchema.  Without a reference the chain of a key is
   the concatenation of the layers of the environments, the fold [chain_sch] is the same merge Go performs, and the two
   agree (C01-assoc shows in the VALUE there, not in the schema). *)
Definition sch_is_object (s : Chain.sch) : bool := match s with Chain.ScObject _ _ => true | _ => false end.

(* st: 0 nothing seen, 1 an object schema seen, 2 an object schema and then a non-object schema seen *)
Fixpoint cut_scan (st : nat) (c : list Chain.layer) : bool :=
  match c with
  | [] => false
  | l :: r =>
      let o := sch_is_object (Chain.l_sch l) in
      match st with
      | O => cut_scan (if o then 1 else 0)%nat r
      | S O => cut_scan (if o then 1 else 2)%nat r
      | _ => o || cut_scan 2%nat r
      end
  end.

Definition has_cut (c : list Chain.layer) : bool := cut_scan 0%nat c.

Fixpoint cut_paths (fu : nat) (rep : Chain.sch) (c : list Chain.layer) : list (list string) :=
  match fu with
  | O => []
  | S f =>
    if has_cut c && negb (sch_eqb C08.jfuel rep (Chain.top_sch c)) then [[]]
    else match rep with
         | Chain.ScObject props _ =>
             flat_map (fun kt => map (cons (fst kt)) (cut_paths f (snd kt) (Chain.property (fst kt) c))) props
         | _ => []
         end
  end.

(* both check runs (the clause judges both schemas) *)
Definition cuts_of (W : Eval.world) (name : string) (d : Eval.envdef) : list (list string) :=
  let one := fun (show : bool) =>
               let W' := with_mode W true show in
               let '(c, s) := Eval.eval_env W' EvalWire.model_fuel "" name d Eval.st0 in
               if Eval.oof s || EvalWire.empty_def d then []
               else match model_root_sch false W' name d with
                    | Some rep => cut_paths corr_sch_fuel rep c
                    | None => []
                    end in
  one false ++ one true.

Definition world_defs (W : Eval.world) (d : Eval.envdef) : list Eval.envdef :=
  d :: concat (map (fun ne => match snd ne with Eval.LoadOk d' => [d'] | _ => [] end) (Eval.w_envs W)).

(* the clause's verdict where a world is at hand: recorded findings count only where the model predicts the schemas *)
Definition fail_new_w (W : Eval.world) (name : string) (d : Eval.envdef) (c : scase) : bool :=
  sfail c && fail_new (negb (sch_mismatch W name d c)) (cuts_of W name d) (world_defs W d) c.
Definition fail_known_w (W : Eval.world) (name : string) (d : Eval.envdef) (c : scase) : bool :=
  sfail c && fail_known (negb (sch_mismatch W name d c)) (cuts_of W name d) (world_defs W d) c.

(* ------------------------------------------------------------------------------------------------------------------ *)
(* line kinds other than the main one of C06:
     (c06s <def> <sch...>)            schema oracle only (worlds the evaluator model has no vocabulary for: providers
                                      declaring anyOf / oneOf); verdict bits as usual, mismatch = false
     (c06q <def...> <sch...>)         classification of the schema part, for the evidence:
                                      0 outside the hypothesis, 1 inside accepted, 2 inside rejected outside the known classes,
                                      4 inside but vocabulary not covered; inside rejected inside the known classes:
                                      5 A alone, 6 B alone, 7 C alone, 8 D alone, 9 E alone, 10 F alone, 11 G alone,
                                      3 several classes together
     (c06qw name def world <sch...>)  the same with the world (class F is decided on the model)
     (c06cmp name def world check show S)   measurement model vs implementation (cmp_verdict)
     (c06h name def world <sch...>)   the model's schema against the implementation's in the three runs and NOTHING else
                                      (family history_world: built at the border of [hist_class]; its worlds also exercise the
                                      model's repeated unknown layers, whose schema mergedSchema(U, U) can change the
                                      diagnostics flag - selftest/witness/C06-model-repeated-unknown-layer.replay.json -
                                      so value, flag and log of this family are not compared): mismatch = [sch_mismatch],
                                      non-trivial = the check run is outside the class, i.e. really compared           *)
Inductive ocase :=
| OSch (d : Eval.envdef) (c : scase)
| OClass (ds : list Eval.envdef) (c : scase)
| OClassW (W : Eval.world) (name : string) (d : Eval.envdef) (c : scase)
| OCmp (W : Eval.world) (name : string) (d : Eval.envdef) (o : sobs)
| OHist (W : Eval.world) (name : string) (d : Eval.envdef) (c : scase).

Definition decode_other (x : sexp) : option ocase :=
  match x with
  | SList [Atom "c06s"; d; s] =>
      match EvalWire.dec_envdef d, dec_scase s with Some d', Some s' => Some (OSch d' s') | _, _ => None end
  | SList [Atom "c06q"; SList ds; s] =>
      match map_opt EvalWire.dec_envdef ds, dec_scase s with Some ds', Some s' => Some (OClass ds' s') | _, _ => None end
  | SList [Atom "c06qw"; n; d; w; s] =>
      match atom_str n, EvalWire.dec_envdef d, EvalWire.dec_world w, dec_scase s with
      | Some n', Some d', Some w', Some s' => Some (OClassW w' n' d' s')
      | _, _, _, _ => None
      end
  | SList [Atom "c06cmp"; n; d; w; chk; show; s] =>
      match atom_str n, EvalWire.dec_envdef d, EvalWire.dec_world w, atom_bool chk, atom_bool show, dec_sobs s with
      | Some n', Some d', Some w', Some c', Some s', Some o' => Some (OCmp (with_mode w' c' s') n' d' o')
      | _, _, _, _, _, _ => None
      end
  | SList [Atom "c06h"; n; d; w; s] =>
      match atom_str n, EvalWire.dec_envdef d, EvalWire.dec_world w, dec_scase s with
      | Some n', Some d', Some w', Some s' => Some (OHist w' n' d' s')
      | _, _, _, _ => None
      end
  | _ => None
  end.

Definition class_code (agree : bool) (cuts : list (list string)) (ds : list Eval.envdef) (c : scase) : N :=
  if negb (in_hyp c) then 0
  else if negb (decided c) then 4
  else if negb (sfail c) then 1
  else if known cuts ds c && agree
       then match known_class cuts ds c with 1 => 5 | 2 => 6 | 3 => 7 | 4 => 8 | 5 => 9 | 6 => 10 | 7 => 11 | _ => 3 end
       else 2.

Definition verdict_other (o : ocase) : N :=
  match o with
  | OSch d c => verdict_bits false (fail_new true [] [d] c) (fail_known true [] [d] c) (decided c)
  | OClass ds c => class_code true [] ds c
  | OClassW W n d c =>
      if sfail c then class_code (negb (sch_mismatch W n d c)) (cuts_of W n d) (world_defs W d) c
      else class_code true [] [] c
  | OCmp W n d o => cmp_verdict W n d o
  | OHist W n d c =>
      (* the schema clause's oracle judges this family too (implementation alone; the classes as everywhere) *)
      verdict_bits (sch_mismatch W n d c) (fail_new_w W n d c) (fail_known_w W n d c)
                   (negb (hist_class (with_mode W true false) n d) || decided c)
  end.
