(* Corr/CryptWire.v — shared by Corr/C12.v and Corr/C04.v: the toy cipher of the harness
   (harness/cmd/implrun/cryptutil.go toyCipher), the model instantiated with the constants read from the source,
   and the wire decoding of yaml node trees. *)
From Verif Require Import Base.Bytes Base.Wire Model.Envelope Model.YamlTree Model.Crypt Src.SrcEnvelope Src.SrcCrypt.

Definition params : env_params :=
  {| ep_magic := envelope_magic; ep_version := envelope_version; ep_min_len := envelope_min_len |}.

(* ---- toy cipher: pad copies of the key byte, then every byte xor key ---- *)
Fixpoint sxor_key (k : N) (s : string) : string :=
  match s with
  | EmptyString => EmptyString
  | String c r => String (ascii_of_N (N.lxor (N_of_ascii c) k)) (sxor_key k r)
  end.

Fixpoint srepeat (n : nat) (c : ascii) : string :=
  match n with O => EmptyString | S n' => String c (srepeat n' c) end.

Definition toy_enc (key : N) (pad : nat) (p : string) : option string :=
  Some (srepeat pad (ascii_of_N key) +++ sxor_key key p).

Definition toy_dec (key : N) (pad : nat) (c : string) : option string :=
  if Nat.leb pad (String.length c) && String.eqb (stake pad c) (srepeat pad (ascii_of_N key))
  then Some (sxor_key key (sdrop pad c)) else None.

(* ---- the model with today's constants; strconv.ParseFloat is not modelled: scalar styles are not compared ---- *)
Definition no_pf (_ : string) : bool := false.

Definition m_encrypt_doc (key : N) (pad : nat) : ynode -> result ynode :=
  encrypt_doc params crypt_fn_secret crypt_key_ciphertext crypt_new_key (toy_enc key pad)
              marshal_null_words marshal_quote_words no_pf.
Definition m_decrypt_doc (key : N) (pad : nat) : ynode -> result ynode :=
  decrypt_doc params crypt_fn_secret crypt_key_ciphertext (toy_dec key pad)
              marshal_null_words marshal_quote_words no_pf.

Definition m_skeleton : ynode -> ynode := skeleton crypt_fn_secret crypt_key_ciphertext.
Definition m_ysecrets : ynode -> list (string + string) := ysecrets crypt_fn_secret crypt_key_ciphertext.

(* Strings yaml.v3 cannot write as a block scalar (Model/YamlTree.v codec_unsafe: unquoted, outside flow, containing LF
   and starting with LF / tab / U+2028 / U+2029).  They were the known-finding class C12-blockscalar / C04-blockscalar
   while MarshalYAML had no guard for them; since fix 9b9d633 the finding is recorded as fixed, so NO allowance is made:
   the model predicts that the content of such a string is preserved like any other and every failure is a violation
   (a weakened or removed guard turns the checks red).  The switch is kept so that the class can be re-activated, which
   must go together with a `known:` line in known-findings.txt. *)
Definition tolerate_block_scalars : bool := false.
Definition codec_tolerated (y : ynode) : bool := tolerate_block_scalars && codec_unsafe y.

Definition err_eqb (a b : rw_error) : bool :=
  match a, b with
  | EDiags, EDiags | ECipher, ECipher | ECrypter, ECrypter | EPanic, EPanic => true
  | _, _ => false
  end.

(* ---- wire: (s xTAG STYLE xVAL xH xL xF) | (q xTAG STYLE xH xL xF (items)) | (m xTAG STYLE xH xL xF (k v ...))
            | (o KIND) ---- *)
Definition dec_meta (tag style val h l f : sexp) : option ymeta :=
  match atom_str tag, atom_N style, atom_str val with
  | Some tag, Some style, Some val =>
      match atom_str h, atom_str l, atom_str f with
      | Some h, Some l, Some f => Some (mkMeta tag style val h l f)
      | _, _, _ => None
      end
  | _, _, _ => None
  end.

Fixpoint dec_tree (x : sexp) : option ynode :=
  match x with
  | SList [Atom "s"; tag; style; val; h; l; f] =>
      match dec_meta tag style val h l f with Some m => Some (YScalar m) | None => None end
  | SList [Atom "q"; tag; style; h; l; f; SList items] =>
      match dec_meta tag style (Atom "x") h l f with
      | Some m =>
          match (fix go (l : list sexp) : option (list ynode) :=
                   match l with
                   | [] => Some []
                   | a :: r => match dec_tree a, go r with Some y, Some t => Some (y :: t) | _, _ => None end
                   end) items with
          | Some ys => Some (YSeq m ys)
          | None => None
          end
      | None => None
      end
  | SList [Atom "m"; tag; style; h; l; f; SList kvs] =>
      match dec_meta tag style (Atom "x") h l f with
      | Some m =>
          match (fix go (l : list sexp) : option (list (ynode * ynode)) :=
                   match l with
                   | [] => Some []
                   | k :: v :: r =>
                       match dec_tree k, dec_tree v, go r with
                       | Some k', Some v', Some t => Some ((k', v') :: t)
                       | _, _, _ => None
                       end
                   | _ => None
                   end) kvs with
          | Some es => Some (YMap m es)
          | None => None
          end
      | None => None
      end
  | SList [Atom "o"; kind] =>
      match atom_N kind with Some k => Some (YOther k (mkMeta "" 0 "" "" "" "")) | None => None end
  | _ => None
  end.

Definition dec_err (x : sexp) : option rw_error :=
  match x with
  | Atom "diags" => Some EDiags
  | Atom "cipher" => Some ECipher
  | Atom "crypter" => Some ECrypter
  | Atom "panic" => Some EPanic
  | _ => None
  end.

(* multiset equality of small string lists *)
Fixpoint remove_one (x : string) (l : list string) : option (list string) :=
  match l with
  | [] => None
  | y :: r => if String.eqb x y then Some r
              else match remove_one x r with Some r' => Some (y :: r') | None => None end
  end.

Fixpoint perm_eqb (a b : list string) : bool :=
  match a with
  | [] => match b with [] => true | _ => false end
  | x :: a' => match remove_one x b with Some b' => perm_eqb a' b' | None => false end
  end.
