(* Corr/C10.v — an imported environment means the same everywhere. *)
From Verif Require Import Base.Bytes Base.Wire Model.Chain Model.Eval Corr.EvalWire.

Record case := {
  c_name : string; c_def : envdef; c_world : world; c_obs : iobs;
  c_seen : list (string * string * iobs)     (* key in the root holding ${imports.X}, X, X evaluated on its own *)
}.

Definition xget (k : string) (v : xval) : option xval :=
  match v with XObj _ _ m => alookup k m | _ => None end.

(* a key of the form "k1/k2" addresses member k2 of the object at k1 (an imported environment read through imports.<mid>) *)
Fixpoint split_slash (s acc : string) : list string :=
  match s with
  | EmptyString => [acc]
  | String c r => if Ascii.eqb c "/"%char then acc :: split_slash r EmptyString else split_slash r (acc +++ String c EmptyString)
  end.

Fixpoint xget_path (ks : list string) (v : xval) : option xval :=
  match ks with
  | [] => Some v
  | k :: r => match xget k v with Some w => xget_path r w | None => None end
  end.

Definition seen_fails (root : xval) (s : string * string * iobs) : bool :=
  let '(key, _, alone) := s in
  match xget_path (split_slash key EmptyString) root, alone with
  | Some a, IObs (Some b) _ _ => negb (xeq a b)
  | Some a, IObs None _ _ => negb (xeq a (XObj false false []))   (* an empty definition evaluates to nothing *)
  | _, _ => true
  end.

(* "... and as the layer it merges": a top-level key that only ONE merged import defines (no other merged import, nor
   the importer itself) reaches the importer exactly as that import has it on its own *)
Definition alone_members (ob : iobs) : list (string * xval) :=
  match ob with IObs (Some (XObj _ _ m)) _ _ => m | _ => [] end.

Definition is_merged (c : case) (x : string) : bool :=
  existsb (fun im => String.eqb (fst im) x && snd im) (ed_imports (c_def c)).

Definition layer_fails (c : case) (root : xval) (s : string * string * iobs) : bool :=
  let '(_, x, alone) := s in
  is_merged c x
  && existsb (fun kv =>
       let k := fst kv in
       negb (existsb (fun kd => String.eqb (fst kd) k) (ed_values (c_def c)))
       && negb (existsb (fun s2 => let '(_, x2, alone2) := s2 in
                          negb (String.eqb x2 x) && is_merged c x2
                          && existsb (fun kv2 => String.eqb (fst kv2) k) (alone_members alone2)) (c_seen c))
       && match xget k root with Some a => negb (xeq a (snd kv)) | None => true end)
     (alone_members alone).

Definition spec_fail (c : case) : bool :=
  match c_obs c with
  | IObs (Some v) _ _ => existsb (seen_fails v) (c_seen c) || existsb (layer_fails c v) (c_seen c)
  | IObs None _ _ => negb (Nat.eqb (length (c_seen c)) 0)
  | ICrash | IPanic => true
  | ILoadErr => false
  end.

Definition mismatch (c : case) : bool :=
  match compare_run (c_world c) (c_name c) (c_def c) (c_obs c) with CmpDiff => true | _ => false end.

Definition known (c : case) : bool := false.
Definition spec_fail_new (c : case) : bool := spec_fail c && negb (known c).
Definition spec_fail_known (c : case) : bool := spec_fail c && known c.
Definition nontrivial (c : case) : bool := negb (Nat.eqb (length (c_seen c)) 0).

Definition decode (x : sexp) : option case :=
  match x with
  | SList [Atom "c10"; n; d; w; o; SList ss] =>
      match atom_str n, dec_envdef d, dec_world w, dec_obs o,
            map_opt (fun s => match s with
                              | SList [k; x; ob] => match atom_str k, atom_str x, dec_obs ob with
                                                    | Some k, Some x, Some ob => Some (k, x, ob) | _, _, _ => None end
                              | _ => None end) ss with
      | Some n, Some d, Some w, Some o, Some ss =>
          Some {| c_name := n; c_def := d; c_world := w; c_obs := o; c_seen := ss |}
      | _, _, _, _, _ => None
      end
  | _ => None
  end.

Definition verdict (c : case) : N :=
  verdict_bits (mismatch c) (spec_fail_new c) (spec_fail_known c) (nontrivial c).

Definition run_line : string -> string := run_with decode verdict.
