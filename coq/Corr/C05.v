(* Corr/C05.v — providers are opened only with complete, valid inputs, once. *)
From Verif Require Import Base.Bytes Base.Wire Model.Chain Model.Eval Corr.EvalWire.
From Verif Require Corr.C08.

(* what the generator knows about each fn::open site: a provider name unique to the site, the environment
   that contains it, and (when the inputs are literals) the inputs it must receive *)
Record site := { s_prov : string; s_env : string; s_inputs : option xval }.

Record case := {
  c_name : string; c_def : envdef; c_world : world; c_obs : iobs; c_sites : list site
}.

(* validity of exported inputs against the harness's input-schema family (JSON Schema semantics) *)
Definition x_type (v : xval) : string :=
  match v with
  | XScalar _ _ SNull => "null" | XScalar _ _ (SBool _) => "boolean" | XScalar _ _ (SNum _) => "number"
  | XScalar _ _ (SStr _) => "string" | XArr _ _ _ => "array" | XObj _ _ _ => "object"
  end.

Definition x_valid (s : in_schema) (v : xval) : bool :=
  match s with
  | InAlways => true
  | InRecord props required closed =>
      match v with
      | XObj _ _ m =>
          forallb (fun r => existsb (fun kv => String.eqb (fst kv) r) m) required
          && forallb (fun kv => match alookup (fst kv) props with
                                | Some ty => String.eqb (x_type (snd kv)) ty
                                | None => negb closed
                                end) m
      | _ => false
      end
  end.

Definition opens (lg : list oev) : list (string * xval * string * string) :=
  concat (map (fun e => match e with OOpen p i r c => [(p, i, r, c)] | _ => [] end) lg).

Definition count_str (s : string) (l : list string) : nat := length (filter (String.eqb s) l).

(* ---- the root environment an Open must be told ----
   environment.go CopyForEnv: a root context named "" or "<yaml>" (esc.AnonymousEnvironmentName) is replaced by the
   name of the environment being entered, so under an anonymous root the "rootest non-anonymous" environment is the
   direct import of the root through which the current environment was reached. *)
Definition anonymous_name (n : string) : bool := String.eqb n "" || String.eqb n "<yaml>".

Definition imports_of (W : world) (n : string) : list string :=
  match alookup n (w_envs W) with Some (LoadOk d) => map fst (ed_imports d) | _ => [] end.

Fixpoint reaches (W : world) (fuel : nat) (a b : string) : bool :=
  match fuel with
  | O => false
  | S f => String.eqb a b || existsb (fun m => reaches W f m b) (imports_of W a)
  end.

Definition root_ok (c : case) (r cur : string) : bool :=
  if anonymous_name (c_name c) then
    (String.eqb cur (c_name c) && String.eqb r (c_name c))
    || (negb (anonymous_name r)
        && existsb (String.eqb r) (map fst (ed_imports (c_def c)))
        && reaches (c_world c) (S (length (w_envs (c_world c)))) r cur)
  else String.eqb r (c_name c).

(* ---- loads: (call number, name) of every LoadEnvironment of the implementation, oldest first.  Every collaborator
   call of the harness is logged, so the position in the log is the call number the fault plan counts. *)
Definition loads_idx (lg : list oev) : list (nat * string) :=
  concat (map (fun p => match snd p with OLoad n => [(fst p, n)] | _ => [] end) (combine (seq 0 (length lg)) lg)).

(* "each imported environment is loaded at most once per evaluation": ALL loads, successful or not.  There is no
   excuse: eval.evaluateImport remembers a failed import (the repair of the former known finding C05-failed-load-retried),
   so a second load of a name - after a failed OR a successful first load - is a violation. *)
Definition spec_load (lg : list oev) : bool :=
  let names := map snd (loads_idx lg) in
  existsb (fun n => negb (Nat.eqb (count_str n names) 1)) names.

(* every clause of the property except the load clause *)
Definition spec_other (c : case) (lg : list oev) : bool :=
  let os := opens lg in
  let W := c_world c in
  (* never while only checking *)
  (w_check W && negb (Nat.eqb (length os) 0))
  || existsb (fun o =>
       let '(p, i, r, cur) := o in
       (* no unknown part *)
       x_has_unknown i
       (* valid for the provider's declared input schema *)
       || match alookup p (w_provs W) with Some pv => negb (x_valid (pv_in pv) i) | None => true end
       (* root and containing environment; exact inputs when the generator knows them *)
       || negb (root_ok c r cur)
       || match filter (fun s => String.eqb (s_prov s) p) (c_sites c) with
          | s :: _ => negb (String.eqb cur (s_env s))
                      || match s_inputs s with Some want => negb (xeq want i) | None => false end
          | [] => true
          end
       (* each fn::open expression at most once *)
       || negb (Nat.eqb (count_str p (map (fun o => fst (fst (fst o))) os)) 1)) os.

Definition spec_fail (c : case) : bool :=
  match c_obs c with
  | IObs _ _ lg => spec_other c lg || spec_load lg
  | ICrash | IPanic => true
  | ILoadErr => false
  end.

Definition mismatch (c : case) : bool :=
  match compare_run (c_world c) (c_name c) (c_def c) (c_obs c) with CmpDiff => true | _ => false end.

(* no known class (C05-failed-load-retried is fixed; Properties/C05.v C05_load_at_most_once holds as stated) *)
Definition known (c : case) : bool := false.
Definition spec_fail_new (c : case) : bool := spec_fail c && negb (known c && negb (mismatch c)).
Definition spec_fail_known (c : case) : bool := spec_fail c && known c && negb (mismatch c).
Definition nontrivial (c : case) : bool :=
  match c_obs c with IObs _ _ lg => negb (Nat.eqb (length (c_sites c)) 0) | _ => false end.

Definition dec_site (x : sexp) : option site :=
  match x with
  | SList [p; e; Atom "none"] =>
      match atom_str p, atom_str e with Some p, Some e => Some {| s_prov := p; s_env := e; s_inputs := None |} | _, _ => None end
  | SList [p; e; v] =>
      match atom_str p, atom_str e, dec_xval wire_fuel v with
      | Some p, Some e, Some v => Some {| s_prov := p; s_env := e; s_inputs := Some v |} | _, _, _ => None end
  | _ => None
  end.

Definition decode (x : sexp) : option case :=
  match x with
  | SList [Atom "c05"; n; d; w; o; SList ss] =>
      match atom_str n, dec_envdef d, dec_world w, dec_obs o, map_opt dec_site ss with
      | Some n, Some d, Some w, Some o, Some ss =>
          Some {| c_name := n; c_def := d; c_world := w; c_obs := o; c_sites := ss |}
      | _, _, _, _, _ => None
      end
  | _ => None
  end.

Definition verdict (c : case) : N :=
  verdict_bits (mismatch c) (spec_fail_new c) (spec_fail_known c) (nontrivial c).

(* ---- the keyword-level gate (shared with C08) --------------------------------------------------------------
   "only if those inputs satisfy the provider's declared input schema": the evaluator model above knows input schemas as
   shapes (types, required, closed records).  For the numeric keywords the same gate is judged by C08's model, the full
   validator (Model/Validate.v): a gate line `(case defs schema value obs)` of C08's wire is decoded with C08's decoder and
   its verdict is used, with NO excused class (the gate cases generated for C05 stay outside C08's known findings, so a
   failure inside one of them is a new failure here). *)
Definition decode2 (x : sexp) : option (case + Corr.C08.case) :=
  match decode x with
  | Some c => Some (inl c)
  | None => option_map inr (Corr.C08.decode x)
  end.

Definition gate_verdict (g : Corr.C08.case) : N :=
  if Corr.C08.undecided g then 16
  else match g with
       | Corr.C08.CGate _ _ _ _ =>
           verdict_bits (Corr.C08.mismatch g) (Corr.C08.spec_fail_new g || Corr.C08.spec_fail_known g) false
                        (Corr.C08.nontrivial g)
       | Corr.C08.CSpec _ _ _ => 16
       end.

Definition verdict2 (c : case + Corr.C08.case) : N :=
  match c with inl c => verdict c | inr g => gate_verdict g end.

Definition run_line : string -> string := run_with decode2 verdict2.
