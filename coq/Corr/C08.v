(* Corr/C08.v — case type and predicates evaluated by the correspondence of C08.
   A case is (root $defs, schema, value, observation of the real gate).  The model is [gate_impl] with the parameters
   srcfacts read from today's source; the specification is [vspec] (JSON Schema 2020-12) evaluated on the pair and
   compared with the IMPLEMENTATION's observation only. *)
From Verif Require Import Base.Bytes Base.Wire Model.Schema Model.Validate Src.SrcValidate.

Definition params : vparams := mkVP strlen_min_chars strlen_max_chars never_reports gate_fallback.

Definition fuel : nat := 64.

(* ---- the regular expressions the generator uses: ^? (literal character | .)* $?  over well-formed UTF-8;
        search semantics (not anchored unless ^ / $), '.' = any character but newline.  Go regexp (RE2), ECMA-262 and
        this matcher agree on that family. ---- *)
Fixpoint uchars (s : string) : list string :=
  match s with
  | EmptyString => []
  | String c r =>
      match uchars r with
      | [] => [String c EmptyString]
      | h :: t =>
          if match r with String c2 _ => is_cont c2 | EmptyString => false end
          then String c h :: t
          else String c EmptyString :: h :: t
      end
  end.

Definition nl : string := String (ascii_of_N 10) EmptyString.

Fixpoint match_here (p : list (option string)) (anch_end : bool) (s : list string) : bool :=
  match p with
  | [] => if anch_end then match s with [] => true | _ => false end else true
  | a :: p' =>
      match s with
      | [] => false
      | c :: s' =>
          match a with None => negb (String.eqb c nl) | Some l => String.eqb l c end && match_here p' anch_end s'
      end
  end.

Fixpoint match_any (p : list (option string)) (anch_end : bool) (s : list string) : bool :=
  match_here p anch_end s || match s with [] => false | _ :: s' => match_any p anch_end s' end.

Definition re_lit (pat s : string) : bool :=
  let pc := uchars pat in
  let '(anch_start, pc1) := match pc with
                            | h :: r => if String.eqb h "^" then (true, r) else (false, pc)
                            | [] => (false, pc)
                            end in
  let '(anch_end, pc2) := match rev pc1 with
                          | h :: r => if String.eqb h "$" then (true, rev r) else (false, pc1)
                          | [] => (false, pc1)
                          end in
  let atoms := map (fun c => if String.eqb c "." then None else Some c) pc2 in
  if anch_start then match_here atoms anch_end (uchars s) else match_any atoms anch_end (uchars s).

(* ---- cases ---- *)
Inductive obs := ORes (opened diag : bool) | OCrash.

Inductive case :=
| CGate (D : defs) (s : schema) (v : json) (o : obs)
| CSpec (D : defs) (s : schema) (v : json).      (* specification only: used to cross-validate [vspec] *)

Definition model (D : defs) (s : schema) (v : json) : option R := gate_impl params re_lit D fuel s v.
Definition spec (D : defs) (s : schema) (v : json) : option bool := vspec re_lit D fuel s v.

(* what the generator must guarantee: a compiled schema, unique object keys, an object at the top (fn::open takes a map) *)
Definition in_scope (D : defs) (s : schema) (v : json) : bool :=
  compiled D s && value_wf v && match v with JObj _ => true | _ => false end.

Definition mismatch (c : case) : bool :=
  match c with
  | CGate D s v o =>
      match model D s v, o with
      | Some (op, dg), ORes op' dg' => negb (Bool.eqb op op' && Bool.eqb dg dg')
      | _, _ => true
      end
  | CSpec _ _ _ => false
  end.

Definition spec_fail (c : case) : bool :=
  match c with
  | CGate D s v o =>
      match spec D s v, o with
      | Some valid, ORes op dg => negb (gate_spec_ok valid op dg)
      | Some _, OCrash => true
      | None, _ => false
      end
  | CSpec _ _ _ => false
  end.

(* decidable classes of the recorded findings *)
Definition known (c : case) : bool :=
  match c with
  | CGate D s v _ => kf_const_null D s || kf_unique_items D s || kf_number_text D s v
  | CSpec _ _ _ => false
  end.

(* a failure is the recorded finding only if the validator model (which reproduces the three findings) predicts exactly what
   the implementation did on this case (DESIGN section 6, rule 2) *)
Definition spec_fail_new (c : case) : bool := spec_fail c && negb (known c && negb (mismatch c)).
Definition spec_fail_known (c : case) : bool := spec_fail c && known c && negb (mismatch c).

Definition nontrivial (c : case) : bool :=
  match c with
  | CGate _ (SNode _ _ _ _ _ _ _ _) _ _ => true
  | _ => false
  end.

(* no verdict: out of scope, out of fuel, unresolved $ref *)
Definition undecided (c : case) : bool :=
  match c with
  | CGate D s v _ => negb (in_scope D s v)
                     || match model D s v with None => true | _ => false end
                     || match spec D s v with None => true | _ => false end
  | CSpec D s v => match spec D s v with None => true | _ => false end
  end.

(* ---- wire format ---- *)
Definition atom_optZ (x : sexp) : option (option Z) :=
  match x with Atom "-" => Some None | _ => match atom_Z x with Some z => Some (Some z) | None => None end end.
Definition atom_optN (x : sexp) : option (option N) :=
  match x with Atom "-" => Some None | _ => match atom_N x with Some n => Some (Some n) | None => None end end.
Definition atom_optstr (x : sexp) : option (option string) :=
  match x with Atom "-" => Some None | _ => match atom_str x with Some s => Some (Some s) | None => None end end.

Definition dec_type (x : sexp) : option (option jtype) :=
  match x with
  | Atom "-" => Some None
  | Atom "null" => Some (Some TNull) | Atom "boolean" => Some (Some TBool) | Atom "number" => Some (Some TNum)
  | Atom "string" => Some (Some TStr) | Atom "array" => Some (Some TArr) | Atom "object" => Some (Some TObj)
  | _ => None
  end.

Fixpoint dec_json (fu : nat) (x : sexp) : option json :=
  match fu with
  | O => None
  | S f =>
    match x with
    | Atom "n" => Some JNull
    | Atom "t" => Some (JBool true)
    | Atom "f" => Some (JBool false)
    | SList [Atom "i"; z; fm] =>
        match atom_Z z, atom_N fm with Some z', Some fm' => Some (JNum z' fm') | _, _ => None end
    | SList [Atom "s"; s] => match atom_str s with Some s' => Some (JStr s') | None => None end
    | SList (Atom "a" :: l) => match map_opt (dec_json f) l with Some l' => Some (JArr l') | None => None end
    | SList (Atom "o" :: l) =>
        match map_opt (fun e => match e with
                                | SList [k; v] => match atom_str k, dec_json f v with
                                                  | Some k', Some v' => Some (k', v') | _, _ => None end
                                | _ => None end) l with
        | Some m => Some (JObj m) | None => None end
    | _ => None
    end
  end.

Definition jfuel : nat := 200.

Definition dec_kw (x : sexp) : option keywords :=
  match x with
  | SList [Atom "k"; ty; co; SList en; mul; mx; xmx; mn; xmn; maxl; minl; pat; maxi; mini; uq; maxp; minp; SList req; SList dep] =>
      match dec_type ty,
            match co with Atom "-" => Some None
                     | SList [Atom "c"; j] => match dec_json jfuel j with Some j' => Some (Some j') | None => None end
                     | _ => None end,
            map_opt (dec_json jfuel) en with
      | Some ty', Some co', Some en' =>
          match atom_optZ mul, atom_optZ mx, atom_optZ xmx, atom_optZ mn, atom_optZ xmn with
          | Some mul', Some mx', Some xmx', Some mn', Some xmn' =>
              match atom_optN maxl, atom_optN minl, atom_optstr pat, atom_optN maxi, atom_optN mini with
              | Some maxl', Some minl', Some pat', Some maxi', Some mini' =>
                  match atom_bool uq, atom_optN maxp, atom_optN minp, map_opt atom_str req,
                        map_opt (fun e => match e with
                                          | SList [k; SList rs] => match atom_str k, map_opt atom_str rs with
                                                                   | Some k', Some rs' => Some (k', rs') | _, _ => None end
                                          | _ => None end) dep with
                  | Some uq', Some maxp', Some minp', Some req', Some dep' =>
                      Some (mkKw ty' co' en' mul' mx' xmx' mn' xmn' maxl' minl' pat' maxi' mini' uq' maxp' minp' req' dep')
                  | _, _, _, _, _ => None
                  end
              | _, _, _, _, _ => None
              end
          | _, _, _, _, _ => None
          end
      | _, _, _ => None
      end
  | _ => None
  end.

Fixpoint dec_schema (fu : nat) (x : sexp) : option schema :=
  match fu with
  | O => None
  | S f =>
    let opt := fun y => match y with
                        | Atom "-" => Some None
                        | _ => match dec_schema f y with Some t => Some (Some t) | None => None end
                        end in
    match x with
    | Atom "T" => Some SAlways
    | Atom "F" => Some SNever
    | SList [Atom "S"; rf; SList a; SList o; SList pre; it; ad; SList props; kw] =>
        match atom_optstr rf, map_opt (dec_schema f) a, map_opt (dec_schema f) o, map_opt (dec_schema f) pre with
        | Some rf', Some a', Some o', Some pre' =>
            match opt it, opt ad,
                  map_opt (fun e => match e with
                                    | SList [k; t] => match atom_str k, dec_schema f t with
                                                      | Some k', Some t' => Some (k', t') | _, _ => None end
                                    | _ => None end) props,
                  dec_kw kw with
            | Some it', Some ad', Some props', Some kw' => Some (SNode rf' a' o' pre' it' ad' props' kw')
            | _, _, _, _ => None
            end
        | _, _, _, _ => None
        end
    | _ => None
    end
  end.

Definition dec_defs (x : sexp) : option defs :=
  match x with
  | SList l => map_opt (fun e => match e with
                                 | SList [k; t] => match atom_str k, dec_schema jfuel t with
                                                   | Some k', Some t' => Some (k', t') | _, _ => None end
                                 | _ => None end) l
  | _ => None
  end.

Definition dec_obs (x : sexp) : option obs :=
  match x with
  | SList [Atom "r"; op; dg] => match atom_bool op, atom_bool dg with Some a, Some b => Some (ORes a b) | _, _ => None end
  | Atom "crash" => Some OCrash
  | _ => None
  end.

Definition decode (x : sexp) : option case :=
  match x with
  | SList [Atom "case"; d; s; v; o] =>
      match dec_defs d, dec_schema jfuel s, dec_json jfuel v, dec_obs o with
      | Some d', Some s', Some v', Some o' => Some (CGate d' s' v' o') | _, _, _, _ => None end
  | SList [Atom "spec"; d; s; v] =>
      match dec_defs d, dec_schema jfuel s, dec_json jfuel v with
      | Some d', Some s', Some v' => Some (CSpec d' s' v') | _, _, _ => None end
  | _ => None
  end.

(* gate cases: the usual bits.  spec cases: bit 1 = "valid" (read back by the cross-validation of [vspec]) *)
Definition verdict (c : case) : N :=
  if undecided c then 16
  else match c with
       | CGate _ _ _ _ => verdict_bits (mismatch c) (spec_fail_new c) (spec_fail_known c) (nontrivial c)
       | CSpec D s v => match spec D s v with Some true => 1 | _ => 0 end
       end.

Definition run_line : string -> string := run_with decode verdict.
