(* Corr/C12.v — case type and predicates of the correspondence check of C12 (secret rewriting preserves the rest
   of the document). *)
From Verif Require Import Base.Bytes Base.Wire Model.Envelope Model.YamlTree Model.Crypt Src.SrcCrypt Corr.CryptWire.

(* what the implementation did *)
Inductive outcome :=
| OOk (out : ynode) (new_diags : N)     (* output text re-read by yaml.v3; load diagnostics the input did not have *)
| OErr (e : rw_error)
| OBad.                                  (* output not readable as one YAML document / unexpected error kind *)

Record case := mkCase {
  c_enc : bool;            (* true: EncryptSecrets, false: DecryptSecrets *)
  c_key : N; c_pad : nat;  (* toy cipher *)
  c_in : ynode;            (* yaml.v3 node tree of the input text *)
  c_out : outcome
}.

Definition model (c : case) : result ynode :=
  if c_enc c then m_encrypt_doc (c_key c) (c_pad c) (c_in c) else m_decrypt_doc (c_key c) (c_pad c) (c_in c).

(* implementation vs model: the re-read output tree must be the model's marshalled tree, up to what re-reading
   does (resolved tags) and presentation (scalar styles, spelling of null) *)
(* outside the part of yaml.v3's emitter that is assumed to round trip (Model/YamlTree.v block_unsafe_value) no
   prediction is made for the re-read tree *)
Definition codec_unsafe_case (c : case) : bool :=
  match model c with ROk y => codec_tolerated y | RErr _ => false end.

Definition mismatch (c : case) : bool :=
  match model c, c_out c with
  | ROk y, OOk out _ => negb (codec_tolerated y) && negb (ynode_eqb (content y) (content out))
  | ROk y, OBad => negb (codec_tolerated y)
  | RErr e, OErr e' => negb (err_eqb e e')
  | _, _ => true
  end.

(* ---- the property, evaluated on the implementation's observation alone ---- *)
(* the accepted subset of the property: core scalar tags only (no timestamps, !!binary, custom tags), no aliases *)
Definition in_subset (c : case) : bool := std_tree (c_in c).

Definition skeleton_differs (c : case) : bool :=
  in_subset c &&
  match c_out c with
  | OOk out _ => negb (ynode_eqb (m_skeleton (c_in c)) (m_skeleton out))
  | OErr _ => false
  | OBad => true
  end.

Definition new_diagnostics (c : case) : bool :=
  in_subset c && match c_out c with OOk _ nd => 0 <? nd | _ => false end.

Definition spec_fail (c : case) : bool := skeleton_differs c || new_diagnostics c.

(* known finding C12-interp: a ciphertext whose plaintext contains an interpolation "${" decrypts to a document
   the checker rejects (plaintext secrets go through the interpolation parser, ciphertexts are literal) *)
Definition opens_to_interpolation (c : case) (s : string + string) : bool :=
  match s with
  | inr repr =>
      match decode_ct params repr with
      | DOk ct => match toy_dec (c_key c) (c_pad c) ct with
                  | Some p => match unescape p with None => true | Some _ => false end
                  | None => false
                  end
      | _ => false
      end
  | inl _ => false
  end.

Definition known_interp (c : case) : bool :=
  negb (c_enc c) && existsb (opens_to_interpolation c) (m_ysecrets (c_in c)).

(* known finding C12-blockscalar: the document to be written contains a string that yaml.v3 cannot emit as a
   block scalar (leading line break or tab); the value changes or the output is unreadable *)
Definition known (c : case) : bool := known_interp c || codec_unsafe_case c.

Definition spec_fail_new (c : case) : bool :=
  (skeleton_differs c && negb (codec_unsafe_case c)) || (new_diagnostics c && negb (known c)).
Definition spec_fail_known (c : case) : bool := spec_fail c && negb (spec_fail_new c).

(* non-trivial: at least one secret is rewritten, or the rewrite is refused *)
Definition nontrivial (c : case) : bool :=
  existsb (fun s : string + string => match s with inl _ => c_enc c | inr _ => negb (c_enc c) end)
          (m_ysecrets (c_in c))
  || match c_out c with OErr _ => true | _ => false end.

(* ---- wire ---- *)
Definition dec_outcome (x : sexp) : option outcome :=
  match x with
  | SList [Atom "ok"; t; nd] =>
      match dec_tree t, atom_N nd with Some y, Some n => Some (OOk y n) | _, _ => None end
  | SList [Atom "err"; e] => match dec_err e with Some e => Some (OErr e) | None => None end
  | Atom "bad" => Some OBad
  | _ => None
  end.

Definition decode (x : sexp) : option case :=
  match x with
  | SList [Atom "c12"; op; key; pad; tin; out] =>
      match atom_bool op, atom_N key, atom_nat pad with
      | Some op, Some key, Some pad =>
          match dec_tree tin, dec_outcome out with
          | Some y, Some o => Some (mkCase op key pad y o)
          | _, _ => None
          end
      | _, _, _ => None
      end
  | _ => None
  end.

Definition verdict (c : case) : N :=
  verdict_bits (mismatch c) (spec_fail_new c) (spec_fail_known c) (nontrivial c).

Definition run_line : string -> string := run_with decode verdict.
