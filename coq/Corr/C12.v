(* Corr/C12.v — case type and predicates of the correspondence check of C12 (secret rewriting preserves the rest
   of the document). *)
From Verif Require Import Base.Bytes Base.Wire Model.Envelope Model.YamlTree Model.Crypt Src.SrcCrypt Corr.CryptWire.
From Verif Require Model.Interp.

(* what the implementation did *)
Inductive outcome :=
| OOk (out : ynode) (new_secret new_other : N)
    (* output text re-read by yaml.v3; load diagnostics the input did not have, split into the class of the known
       finding C12-interp ("secret values must be string literals") and every other diagnostic *)
| OErr (e : rw_error)                    (* an error was returned / a run-time panic was recovered (EPanic) *)
| OBad                                   (* output not readable as one YAML document / unexpected error kind *)
| OCrash.                                (* the call killed the process (fatal stack overflow) or did not return *)

Record case := mkCase {
  c_enc : bool;            (* true: EncryptSecrets, false: DecryptSecrets *)
  c_key : N; c_pad : nat;  (* toy cipher *)
  c_in_diags : N;          (* number of diagnostics eval.LoadYAMLBytes reports for the input text *)
  c_in : ynode;            (* yaml.v3 node tree of the input text *)
  c_ctl : option ynode;    (* control: the tree yaml.v3 ALONE gives back for the input (parse, emit with the same
                              encoder settings, parse), no esc code involved; None on old wire lines *)
  c_out : outcome
}.

Definition model (c : case) : result ynode :=
  if c_enc c then m_encrypt_doc (c_key c) (c_pad c) (c_in c) else m_decrypt_doc (c_key c) (c_pad c) (c_in c).

(* ---- foot comments that yaml.v3 re-attaches -------------------------------------------------------------------
   The property's accepted subset names head and line comments.  Foot comments are generated as well; yaml.v3 gives
   back most of them where they were, with exceptions that have nothing to do with esc (all visible with yaml.v3
   alone: parse, emit, parse):
     (a) the foot comment of a mapping key whose value is a collection (or becomes one: `fn::secret: text` is rewritten
         to a nested mapping) is written without its blank line and re-read as the foot comment of the LAST key inside
         that collection: same text, same place in the text, other node;
     (b) a comment that is separated from its node by a blank line is stored with a trailing line feed, which is
         not written back;
     (c) a head comment of two paragraphs (a blank line inside it) is split: the first paragraph is re-read as the
         foot comment of the preceding sibling;
     (d) the foot comment of a block scalar VALUE is re-read as the head comment of the next key.
   A document with a foot comment, or with a comment that ends in / contains an empty line ([unstable_trivia], decided
   on the INPUT tree; documents with head and line comments only are never in it) is judged by the weak projection
   below instead of node-by-node equality: the tree with head and foot comments erased (line comments kept) must be
   equal, and the sequence of ALL comment lines and scalars in textual order (secret arguments as holes) must be equal.
   So a head / foot comment may only change the node it hangs on among the nodes that meet at the same place of the
   text; it cannot disappear, change, or move across a scalar.  Counted in the evidence (distribution). *)
Definition lf : string := String (ascii_of_N 10) EmptyString.

Fixpoint rtrim_lf_rev (r : string) : string :=      (* r is reversed *)
  match r with
  | String c r' => if (N_of_ascii c =? 10) then rtrim_lf_rev r' else r
  | EmptyString => r
  end.
Definition trim_lf (s : string) : string := rev_string (rtrim_lf_rev (rev_string s)).
Definition ends_lf (s : string) : bool :=
  match rev_string s with String c _ => N_of_ascii c =? 10 | EmptyString => false end.

Definition blank_inside (s : string) : bool := scontains (lf +++ lf) s.
Definition meta_ends_lf (m : ymeta) : bool :=
  ends_lf (y_head m) || ends_lf (y_line m) || ends_lf (y_foot m)
  || blank_inside (y_head m) || blank_inside (y_line m) || blank_inside (y_foot m).
Definition has_foot (m : ymeta) : bool := negb (String.eqb (y_foot m) "").
Definition node_meta (y : ynode) : ymeta :=
  match y with YScalar m | YSeq m _ | YMap m _ | YOther _ m => m end.
Definition is_coll (y : ynode) : bool := match y with YSeq _ _ | YMap _ _ => true | _ => false end.

Fixpoint unstable_trivia (y : ynode) : bool :=
  meta_ends_lf (node_meta y) || has_foot (node_meta y) ||
  match y with
  | YScalar _ | YOther _ _ => false
  | YSeq _ items => existsb unstable_trivia items
  | YMap _ entries =>
      existsb (fun kv : ynode * ynode => let (k, v) := kv in unstable_trivia k || unstable_trivia v) entries
  end.

(* the tree with head and foot comments erased and the line comments trimmed *)
Definition defoot (m : ymeta) : ymeta :=
  mkMeta (y_tag m) (y_style m) (y_value m) "" (trim_lf (y_line m)) "".

Fixpoint defoot_tree (y : ynode) : ynode :=
  match y with
  | YScalar m => YScalar (defoot m)
  | YSeq m items => YSeq (defoot m) (map defoot_tree items)
  | YMap m entries => YMap (defoot m) (map (fun kv : ynode * ynode => let (k, v) := kv in (defoot_tree k, defoot_tree v)) entries)
  | YOther k m => YOther k (defoot m)
  end.

(* comments and scalars in textual order; [holes]: the argument of a secret is one anonymous token *)
(* the non-empty lines of a comment, each as one token *)
Fixpoint lines_acc (kind : string) (s : string) (cur : string) : list string :=      (* cur is reversed *)
  let flush := match cur with EmptyString => [] | _ => [kind +++ rev_string cur] end in
  match s with
  | EmptyString => flush
  | String c r => if N_of_ascii c =? 10 then flush ++ lines_acc kind r EmptyString else lines_acc kind r (String c cur)
  end.
Definition tok (kind : string) (s : string) : list string := lines_acc kind s EmptyString.

Definition before (m : ymeta) : list string := tok "C" (y_head m).
Definition after (m : ymeta) : list string := tok "L" (y_line m) ++ tok "C" (y_foot m).

Definition hole_tokens (t : ymeta) : list string := before t ++ ["HOLE"] ++ after t.

Definition arg_tokens (v : ynode) : option (list string) :=
  match v with
  | YScalar t => Some (hole_tokens t)
  | YMap im [(YScalar k2, YScalar t)] => Some (before im ++ before k2 ++ hole_tokens t ++ after k2 ++ after im)
  | _ => None
  end.

Fixpoint stream (holes : bool) (y : ynode) : list string :=
  match y with
  | YScalar m => before m ++ ["S" +++ (if String.eqb (y_tag (content_scalar m)) tag_null then "" else y_value m)] ++ after m
  | YSeq m items => before m ++ flat_map (stream holes) items ++ after m
  | YMap m entries =>
      match (if holes then ysecret crypt_fn_secret crypt_key_ciphertext y else None), entries with
      | Some _, [(YScalar km, v)] =>
          match arg_tokens v with
          | Some ts => before m ++ before km ++ ["S" +++ y_value km] ++ tok "L" (y_line km) ++ ts ++ tok "C" (y_foot km) ++ after m
          | None => before m ++ after m
          end
      | _, _ =>
          before m
          ++ flat_map (fun kv : ynode * ynode =>
                         let (k, v) := kv in
                         before (node_meta k) ++ ["S" +++ y_value (node_meta k)] ++ tok "L" (y_line (node_meta k))
                         ++ stream holes v ++ tok "C" (y_foot (node_meta k))) entries
          ++ after m
      end
  | YOther _ m => before m ++ after m
  end.

(* all comments erased: what is left to compare for a document whose comments yaml.v3 alone does not give back *)
Definition nocomment (m : ymeta) : ymeta := mkMeta (y_tag m) (y_style m) (y_value m) "" "" "".
Fixpoint defoot_all (y : ynode) : ynode :=
  match y with
  | YScalar m => YScalar (nocomment m)
  | YSeq m items => YSeq (nocomment m) (map defoot_all items)
  | YMap m entries => YMap (nocomment m) (map (fun kv : ynode * ynode => let (k, v) := kv in (defoot_all k, defoot_all v)) entries)
  | YOther k m => YOther k (nocomment m)
  end.

Definition weak_eq (holes : bool) (a b : ynode) : bool :=
  ynode_eqb (defoot_tree a) (defoot_tree b) && list_eqb String.eqb (stream holes a) (stream holes b).

(* The control run: within the unstable class the weak projection is what yaml.v3 alone keeps for almost every
   document, but not for all (seed sweep, seeds 2 and 3: a two-paragraph head comment after a nested sequence is
   re-read with its paragraphs on both sides of the scalar; a foot comment followed by a two-paragraph head comment
   loses a paragraph on re-reading).  Those documents are recognised by running yaml.v3 alone on the input: when the
   control tree itself fails the weak projection against the input, the trivia of that document is not judged
   (counted in the evidence); when it passes, esc's output has to pass as well. *)
Definition yaml_alone_keeps (c : case) : bool :=
  match c_ctl c with
  | Some t => weak_eq false (c_in c) t
  | None => true
  end.

(* strict, or weak for the documents with re-attachable comments *)
Definition same_content (c : case) (y out : ynode) : bool :=
  if unstable_trivia (c_in c)
  then weak_eq false (content y) (content out)
       || (negb (yaml_alone_keeps c) && ynode_eqb (defoot_all (content y)) (defoot_all (content out)))
  else ynode_eqb (content y) (content out).

Definition same_skeleton (c : case) (out : ynode) : bool :=
  if unstable_trivia (c_in c)
  then ynode_eqb (defoot_tree (m_skeleton (c_in c))) (defoot_tree (m_skeleton out))
       && (list_eqb String.eqb (stream true (c_in c)) (stream true out) || negb (yaml_alone_keeps c))
  else ynode_eqb (m_skeleton (c_in c)) (m_skeleton out).

(* implementation vs model: the re-read output tree must be the model's marshalled tree, up to what re-reading
   does (resolved tags) and presentation (scalar styles, spelling of null).  No allowance is left: the class of
   strings yaml.v3 cannot write as block scalars died with fix 9b9d633 (MarshalYAML quotes them, and so does the
   model: Model/YamlTree.v block_guard).  A crash is never predicted. *)
Definition mismatch (c : case) : bool :=
  match model c, c_out c with
  | ROk y, OOk out _ _ => negb (same_content c y out)
  | RErr e, OErr e' => negb (err_eqb e e')
  | _, _ => true
  end.

(* ---- the property, evaluated on the implementation's observation alone ---- *)
(* the accepted subset of the property: core scalar tags only (no timestamps, !!binary, custom tags), no aliases *)
Definition in_subset (c : case) : bool := std_tree (c_in c).

Definition skeleton_differs (c : case) : bool :=
  in_subset c &&
  match c_out c with
  | OOk out _ _ => negb (same_skeleton c out)
  | OErr _ | OCrash => false
  | OBad => true
  end.

Definition new_diag_count (c : case) : N :=
  match c_out c with OOk _ ns no => ns + no | _ => 0 end.

Definition new_diagnostics (c : case) : bool := in_subset c && (0 <? new_diag_count c).

(* a VALID document: it loads without any diagnostic (so every fn::secret is well-formed for the expression parser
   and for rewriteYAML's decoder), and - for decryption - every ciphertext in it is an envelope the decrypter of this
   case opens.  Computed from the input alone (the load diagnostics are the implementation's own report on the input,
   the envelope format and the toy cipher are the harness's). *)
Definition secret_opens (c : case) (s : string + string) : bool :=
  match s with
  | inr repr =>
      match decode_ct params repr with
      | DOk ct => match toy_dec (c_key c) (c_pad c) ct with Some _ => true | None => false end
      | _ => false
      end
  | inl _ => true
  end.

Definition valid_input (c : case) : bool :=
  (c_in_diags c =? 0) && (c_enc c || forallb (secret_opens c) (m_ysecrets (c_in c))).

(* the rewrite of a valid document of the subset must succeed: an error (of any kind) is a failure of the property *)
Definition refused_valid (c : case) : bool :=
  in_subset c && valid_input c && match c_out c with OErr _ => true | _ => false end.

(* a run-time panic or a fatal crash / hang is a failure on every input that is a YAML document at all *)
Definition crashed (c : case) : bool :=
  match c_out c with OErr EPanic | OCrash => true | _ => false end.

Definition spec_fail (c : case) : bool :=
  skeleton_differs c || new_diagnostics c || refused_valid c || crashed c.

(* known finding C12-interp: a ciphertext whose plaintext contains an interpolation "${" decrypts to a document
   the checker rejects (plaintext secrets go through the interpolation parser, ciphertexts are literal).
   DESIGN §6 rule 2: a failure is THAT finding only if (a) it is a decryption, (b) the new diagnostics are exactly one
   "secret values must be string literals" per secret that opens to an interpolation plus the syntax diagnostics the
   interpolation parser reports for those plaintexts, and nothing else, and (c) the model - which reproduces the
   rewrite - predicts exactly the tree the implementation wrote. *)
Definition interp_plaintext (c : case) (s : string + string) : option string :=
  match s with
  | inr repr =>
      match decode_ct params repr with
      | DOk ct => match toy_dec (c_key c) (c_pad c) ct with
                  | Some p => match unescape p with None => Some p | Some _ => None end
                  | None => None
                  end
      | _ => None
      end
  | inl _ => None
  end.

Fixpoint filter_map {A B} (f : A -> option B) (l : list A) : list B :=
  match l with
  | [] => []
  | x :: r => match f x with Some y => y :: filter_map f r | None => filter_map f r end
  end.

(* the part of a document the loader parses as expressions: the value(s) of the top-level key `values`
   (ast.ParseEnvironment; `imports` holds names, unknown top-level keys are not parsed) *)
Definition values_subtrees (y : ynode) : list ynode :=
  match y with
  | YMap _ entries =>
      filter_map (fun kv : ynode * ynode =>
                    let (k, v) := kv in
                    match k with
                    | YScalar km => if String.eqb (y_value km) "values" then Some v else None
                    | _ => None
                    end) entries
  | _ => []
  end.

(* the plaintexts with an interpolation that the loader gets to see, in document order *)
Definition interp_plaintexts (c : case) : list string :=
  filter_map (interp_plaintext c) (flat_map m_ysecrets (values_subtrees (c_in c))).

Definition interp_secrets (c : case) : N := N.of_nat (length (interp_plaintexts c)).

(* each such plaintext draws one "secret values must be string literals" and, when the interpolation is malformed
   ("${a", "${a[}"), the syntax diagnostics of the interpolation parser: their NUMBER is what Model/Interp.v
   (ast.Interpolate, validated by the check of C02) computes *)
Definition interp_syntax_diags (c : case) : N :=
  fold_right N.add 0 (map (fun p => snd (Model.Interp.parse_interp p)) (interp_plaintexts c)).

Definition known_interp (c : case) : bool :=
  negb (c_enc c) && (0 <? interp_secrets c)
  && match c_out c with
     | OOk _ ns no => (ns =? interp_secrets c) && (no =? interp_syntax_diags c)
     | _ => false
     end
  && negb (mismatch c).

Definition known (c : case) : bool := known_interp c.

Definition spec_fail_new (c : case) : bool :=
  skeleton_differs c || (new_diagnostics c && negb (known c)) || refused_valid c || crashed c.
Definition spec_fail_known (c : case) : bool := spec_fail c && negb (spec_fail_new c).

(* non-trivial: at least one secret is rewritten, or the rewrite is refused / dies *)
Definition nontrivial (c : case) : bool :=
  existsb (fun s : string + string => match s with inl _ => c_enc c | inr _ => negb (c_enc c) end)
          (m_ysecrets (c_in c))
  || match c_out c with OErr _ | OCrash => true | _ => false end.

(* ---- wire ---- *)
Definition dec_outcome (x : sexp) : option outcome :=
  match x with
  | SList [Atom "ok"; t; ns; no] =>
      match dec_tree t, atom_N ns, atom_N no with Some y, Some a, Some b => Some (OOk y a b) | _, _, _ => None end
  | SList [Atom "err"; e] => match dec_err e with Some e => Some (OErr e) | None => None end
  | Atom "bad" => Some OBad
  | Atom "crash" => Some OCrash
  | _ => None
  end.

Definition decode (x : sexp) : option case :=
  match x with
  | SList [Atom "c12"; op; key; pad; ind; tin; out] =>
      match atom_bool op, atom_N key, atom_nat pad, atom_N ind with
      | Some op, Some key, Some pad, Some ind =>
          match dec_tree tin, dec_outcome out with
          | Some y, Some o => Some (mkCase op key pad ind y None o)
          | _, _ => None
          end
      | _, _, _, _ => None
      end
  | SList [Atom "c12"; op; key; pad; ind; tin; out; ctl] =>
      match atom_bool op, atom_N key, atom_nat pad, atom_N ind with
      | Some op, Some key, Some pad, Some ind =>
          match dec_tree tin, dec_outcome out with
          | Some y, Some o => Some (mkCase op key pad ind y (dec_tree ctl) o)
          | _, _ => None
          end
      | _, _, _, _ => None
      end
  | _ => None
  end.

Definition verdict (c : case) : N :=
  verdict_bits (mismatch c) (spec_fail_new c) (spec_fail_known c) (nontrivial c).

Definition run_line : string -> string := run_with decode verdict.
