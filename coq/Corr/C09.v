(* Corr/C09.v — evaluation is deterministic. *)
From Verif Require Import Base.Bytes Base.Wire Model.Chain Model.Eval Corr.EvalWire.

Record case := {
  c_model : bool;                 (* compare with the model (false for schemas outside the model's fragment) *)
  c_name : string; c_def : envdef; c_world : world; c_obs : iobs;
  c_repeat_differs : bool;        (* some repetition in the same process produced a different Environment JSON or
                                     a different sorted diagnostic list *)
  c_fresh_differs : bool          (* the same evaluation in a fresh process produced a different result *)
}.

Definition spec_fail (c : case) : bool :=
  c_repeat_differs c || c_fresh_differs c || match c_obs c with ICrash | IPanic => true | _ => false end.

Definition mismatch (c : case) : bool :=
  c_model c && match compare_run (c_world c) (c_name c) (c_def c) (c_obs c) with CmpDiff => true | _ => false end.

Definition known (c : case) : bool := false.
Definition spec_fail_new (c : case) : bool := spec_fail c && negb (known c).
Definition spec_fail_known (c : case) : bool := spec_fail c && known c.
Definition nontrivial (c : case) : bool := match c_obs c with IObs (Some _) _ _ => true | _ => false end.

Definition decode (x : sexp) : option case :=
  match x with
  | SList [Atom "c09"; m; n; d; w; o; r; f] =>
      match atom_bool m, atom_str n, dec_envdef d, dec_world w with
      | Some m, Some n, Some d, Some w =>
          match dec_obs o, atom_bool r, atom_bool f with
          | Some o, Some r, Some f =>
              Some {| c_model := m; c_name := n; c_def := d; c_world := w; c_obs := o;
                      c_repeat_differs := r; c_fresh_differs := f |}
          | _, _, _ => None
          end
      | _, _, _, _ => None
      end
  | _ => None
  end.

Definition verdict (c : case) : N :=
  verdict_bits (mismatch c) (spec_fail_new c) (spec_fail_known c) (nontrivial c).

Definition run_line : string -> string := run_with decode verdict.
