(* Corr/C07.v — evaluation is total: diagnostics, never a crash or a hang. *)
From Verif Require Import Base.Bytes Base.Wire Model.Chain Model.Eval Corr.EvalWire.

Inductive case :=
| CEval (name : string) (d : envdef) (W : world) (o : iobs)
| CRaw (o : list iobs).          (* byte-level / shape-error stream: implementation only, one entry per operation *)

Definition bad_obs (o : iobs) : bool := match o with ICrash | IPanic => true | _ => false end.

(* every declared (non-reserved) key of the root is present in the result: a failed sub-expression yields an
   unknown value instead of aborting the rest of the environment *)
Definition keys_present (d : envdef) (o : iobs) : bool :=
  match o with
  | IObs (Some (XObj _ _ m)) _ _ =>
      forallb (fun kv => reserved (fst kv) || existsb (fun kv' => String.eqb (fst kv) (fst kv')) m) (ed_values d)
  | IObs (Some _) _ _ => false
  | IObs None _ _ => empty_def d
  | _ => true
  end.

(* "... with diagnostics describing the problem": when an environment is OPENED (not merely checked) every value can be
   computed unless something failed, so an unknown value anywhere in the result of a run that reported no error is a
   failure that was swallowed *)
Definition silent_failure (W : world) (o : iobs) : bool :=
  match o with
  | IObs (Some v) false _ =>
      negb (w_check W) && forallb (fun kv => negb (x_has_unknown (snd kv))) (w_ctx W) && x_has_unknown v
  | _ => false
  end.

Definition spec_fail (c : case) : bool :=
  match c with
  | CEval _ d W o => bad_obs o || negb (keys_present d o) || silent_failure W o
  | CRaw os => existsb bad_obs os
  end.

Definition mismatch (c : case) : bool :=
  match c with
  | CEval n d W o => match compare_run W n d o with CmpDiff => negb (bad_obs o) | _ => false end
  | CRaw _ => false
  end.

Definition known (c : case) : bool := false.
Definition spec_fail_new (c : case) : bool := spec_fail c && negb (known c).
Definition spec_fail_known (c : case) : bool := spec_fail c && known c.

(* non-trivial: a fault was actually injected (the run makes more collaborator calls than the fault index), the world
   has a cycle / failing collaborator / error, or the raw document is non-empty *)
Definition nontrivial (c : case) : bool :=
  match c with
  | CEval n d W o =>
      match o with
      | IObs _ e lg => e || match w_fault W with Some k => k <? N.of_nat (length lg) | None => false end
      | _ => true
      end
  | CRaw os => negb (Nat.eqb (length os) 0)
  end.

Definition decode (x : sexp) : option case :=
  match x with
  | SList [Atom "c07"; n; d; w; o] =>
      match atom_str n, dec_envdef d, dec_world w, dec_obs o with
      | Some n, Some d, Some w, Some o => Some (CEval n d w o)
      | _, _, _, _ => None
      end
  | SList [Atom "raw"; SList os] => option_map CRaw (map_opt dec_obs os)
  | _ => None
  end.

Definition verdict (c : case) : N :=
  verdict_bits (mismatch c) (spec_fail_new c) (spec_fail_known c) (nontrivial c).

Definition run_line : string -> string := run_with decode verdict.
