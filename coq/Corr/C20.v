(* Corr/C20.v — case type and predicates of the C20 correspondence.
   A case is a GROUP of calls (they are run concurrently by the implementation runner because the retry loop
   sleeps for real); an item of the group may be a SEQUENCE of calls issued one after the other on one client
   instance.  Each call carries: the operation and its arguments, the server script, what the Python
   generator independently expects on the wire (method, request target, identity of the named resource), and the
   implementation's observation (request log, number of client.Do round trips, result class). *)
From Verif Require Import Base.Bytes Model.Client Src.SrcClient Base.Wire.

Record ccall := mk_ccall {
  cc_op : string; cc_s : list string; cc_n : list (option Z); cc_token : string;
  cc_script : list reply; cc_final : reply;
  (* independent expectation (lib/verif/props/c20.py) *)
  cc_pn : list string;          (* the names that address the resource; the validity hypothesis is checked on them *)
  cc_exp_method : string;       (* "-" = no request expected *)
  cc_exp_target : string;
  cc_ident : string;            (* canonical form of (operation, names, version, flags, query values, body names) *)
  cc_rid : string;              (* canonical form of the RESOURCE addressed, independent of the operation: two
                                   operations related by delegation (GetRevisionNumber / GetEnvironmentRevisionTag,
                                   GetEnvironment without version / EnvironmentExists, ...) have the same one *)
  cc_tag : string;              (* revision tag of a conditional update, "" otherwise *)
  cc_diag : bool;               (* the method returns diagnostics *)
  (* observation; None = the implementation panicked *)
  cc_obs : option call_obs }.

Notation case := (list ccall).

(* ---- equality of observations ---- *)
Fixpoint list_eqb {A} (eqb : A -> A -> bool) (l1 l2 : list A) : bool :=
  match l1, l2 with
  | [], [] => true
  | x :: r1, y :: r2 => eqb x y && list_eqb eqb r1 r2
  | _, _ => false
  end.

Definition kv_eqb (a b : string * string) : bool := String.eqb (fst a) (fst b) && String.eqb (snd a) (snd b).

Definition req_eqb (a b : request) : bool :=
  String.eqb (rq_method a) (rq_method b) && String.eqb (rq_target a) (rq_target b)
  && String.eqb (rq_auth a) (rq_auth b) && String.eqb (rq_etag a) (rq_etag b)
  && String.eqb (rq_ifmatch a) (rq_ifmatch b) && list_eqb kv_eqb (rq_body a) (rq_body b).

Definition result_eqb (a b : result) : bool :=
  match a, b with
  | ROk x, ROk y => list_eqb String.eqb x y
  | RDiags n, RDiags m => Nat.eqb n m
  | RErr c k, RErr d l => String.eqb c d && (k =? l)
  | RPanic, RPanic => true
  | _, _ => false
  end.

Definition obs_eqb (a b : call_obs) : bool :=
  list_eqb req_eqb (co_requests a) (co_requests b) && Nat.eqb (co_attempts a) (co_attempts b)
  && result_eqb (co_result a) (co_result b).

(* ---- the model's prediction ---- *)
Definition model_obs (c : ccall) : option call_obs :=
  if existsb (String.eqb (cc_op c)) client_accessors then
    Some (mk_obs [] 0 (ROk [if String.eqb (cc_op c) "Insecure" then "false" else "true"]))
  else match find_op (cc_op c) client_ops with
       | Some f => Some (run_call f (cc_token c) (cc_s c) (cc_n c) (cc_script c) (cc_final c))
       | None => None
       end.

Definition call_mismatch (c : ccall) : bool :=
  match model_obs c, cc_obs c with
  | Some m, Some o => negb (obs_eqb m o)
  | Some m, None => negb (result_eqb (co_result m) RPanic)
  | None, _ => true
  end.

Definition mismatch (cs : case) : bool := existsb call_mismatch cs.

(* ---- the specification, evaluated on the implementation's observation only ---- *)
Definition names_valid (c : ccall) : bool := forallb valid_name (cc_pn c).

Definition count_non_get (l : list request) : nat :=
  length (filter (fun r => negb (String.eqb (rq_method r) "GET")) l).

Definition first_reply (c : ccall) : reply := nth 0 (cc_script c) (cc_final c).

(* (new, known) failures of one call.  The rule applies to the replies the per-method decoding sees
   ([diag_applicable]: not 429, not 401 on a client without a token - those are answered by httpCall's generic
   "rate limit" / "login" errors, which is what the rule then requires; counted as `diag_outside` in the evidence).
   The known class is exactly that of
   C20-diag-code (body code absent or not 400), and a failure counts as that finding only when the model - which
   reproduces it - predicts exactly what the implementation did on this call (DESIGN section 6, rule 2). *)
Definition diag_applicable (s : N) (token : string) : bool :=
  negb (s =? 429) && negb ((s =? 401) && String.eqb token "").

Definition diag_rule (c : ccall) (o : call_obs) : bool * bool :=
  if cc_diag c && Nat.eqb (length (co_requests o)) 1 then
    match first_reply c with
    | RpResp s (BJson code n) _ _ =>
        if (400 <=? s) && (s <=? 499) && negb (Nat.eqb n 0) then
          if diag_applicable s (cc_token c) then
            let okres := result_eqb (co_result o) (RDiags n) in
            let known := negb (code_or_zero code =? 400) && negb (call_mismatch c) in
            (negb okres && negb known, negb okres && known)
          else
            (* intercepted: the generic failure, never a success and never diagnostics *)
            let expected := if (s =? 401) && String.eqb (cc_token c) "" then RErr "login" 0 else RErr "ratelimit" 0 in
            (negb (result_eqb (co_result o) expected), false)
        else (false, false)
    | _ => (false, false)
    end
  else (false, false).

Definition call_spec_fail (c : ccall) : bool :=
  match cc_obs c with
  | None => true
  | Some o =>
      let reqs := co_requests o in
      (* a request that is not a GET is never submitted twice *)
      Nat.ltb 1 (count_non_get reqs)
      (* GET attempts are bounded by the retry count; what the server sees by twice that (transport replay) *)
      || Nat.ltb (Nat.max 1 max_tries) (co_attempts o)
      || Nat.ltb (2 * Nat.max 1 max_tries - 1) (length reqs)
      (* a failing prefix shorter than the bound is retried until the success arrives *)
      || (names_valid c && String.eqb (cc_exp_method c) "GET" && forallb failing (cc_script c)
          && negb (failing (cc_final c)) && Nat.ltb (length (cc_script c)) (Nat.max 1 max_tries)
          && negb (Nat.eqb (length reqs) (S (length (cc_script c)))))
      (* valid names: every request goes to exactly the expected method and target *)
      || (names_valid c &&
          (if String.eqb (cc_exp_method c) "-" then negb (Nat.eqb (length reqs) 0)
           else Nat.eqb (length reqs) 0
                || existsb (fun r => negb (String.eqb (rq_method r) (cc_exp_method c))
                                     || negb (String.eqb (rq_target r) (cc_exp_target c))) reqs))
      (* token and revision tag *)
      || (negb (String.eqb (cc_token c) "")
          && existsb (fun r => negb (String.eqb (rq_auth r) ("token " +++ cc_token c))) reqs)
      (* the tag header is exactly the tag given to THIS call: in one of the two header slots, nothing in the other;
         both absent when no tag was given (a tag left over from an earlier call of the same client is a failure) *)
      || existsb (fun r => negb ((String.eqb (rq_etag r) (cc_tag c) && String.eqb (rq_ifmatch r) "")
                                 || (String.eqb (rq_etag r) "" && String.eqb (rq_ifmatch r) (cc_tag c)))) reqs
      || fst (diag_rule c o)
  end.

Definition call_spec_known (c : ccall) : bool :=
  match cc_obs c with Some o => snd (diag_rule c o) | None => false end.

(* two calls of one operation with distinct identities must not produce the same request *)
Definition first_req (c : ccall) : option request :=
  match cc_obs c with Some o => hd_error (co_requests o) | None => None end.

Definition same_first_req (a b : ccall) : bool :=
  match first_req a, first_req b with
  | Some x, Some y => String.eqb (rq_method x) (rq_method y) && String.eqb (rq_target x) (rq_target y)
                      && list_eqb kv_eqb (rq_body x) (rq_body y)
  | _, _ => false
  end.

Definition collide (a b : ccall) : bool :=
  String.eqb (cc_op a) (cc_op b) && names_valid a && names_valid b
  && negb (String.eqb (cc_ident a) (cc_ident b)) && same_first_req a b.

(* ACROSS operations: two calls of different operations that address different resources must not produce the same
   request (same verb, same target, same body).  Known finding C20-route-words: it happens when a name is itself a
   route word; the class is read from the operation table (Model.Client.route_words) and - the model reproducing the
   finding - counts only when the model predicts both observations exactly. *)
Definition cross_collide (a b : ccall) : bool :=
  negb (String.eqb (cc_op a) (cc_op b)) && names_valid a && names_valid b
  && negb (String.eqb (cc_rid a) (cc_rid b)) && same_first_req a b.

Definition route_word_name (c : ccall) : bool := existsb is_route_word (cc_pn c).

Definition cross_known (a b : ccall) : bool :=
  cross_collide a b && (route_word_name a || route_word_name b)
  && negb (call_mismatch a) && negb (call_mismatch b).

Definition cross_new (a b : ccall) : bool := cross_collide a b && negb (cross_known a b).

Fixpoint any_pair (p : ccall -> ccall -> bool) (cs : case) : bool :=
  match cs with
  | [] => false
  | c :: r => existsb (p c) r || any_pair p r
  end.

Definition any_collision (cs : case) : bool := any_pair (fun a b => collide a b || cross_new a b) cs.

Definition spec_fail_new (cs : case) : bool := existsb call_spec_fail cs || any_collision cs.
Definition spec_fail_known (cs : case) : bool := existsb call_spec_known cs || any_pair cross_known cs.
Definition spec_fail (cs : case) : bool := spec_fail_new cs || spec_fail_known cs.
Definition known (cs : case) : bool := spec_fail_known cs.

Definition nontrivial (cs : case) : bool :=
  existsb (fun c => match cc_obs c with Some o => negb (Nat.eqb (length (co_requests o)) 0) | None => true end) cs.

(* ---- wire format ---- *)
Definition dec_optN (x : sexp) : option (option N) :=
  match x with
  | Atom "nil" => Some None
  | _ => match atom_N x with Some n => Some (Some n) | None => None end
  end.

Definition dec_optZ (x : sexp) : option (option Z) :=
  match x with
  | Atom "nil" => Some None
  | _ => match atom_Z x with Some n => Some (Some n) | None => None end
  end.

Definition dec_body (x : sexp) : option rbody :=
  match x with
  | Atom "e" => Some BEmpty
  | Atom "k" => Some BOk
  | Atom "t" => Some BText
  | SList [Atom "j"; c; n] =>
      match dec_optN c, atom_nat n with Some c, Some n => Some (BJson c n) | _, _ => None end
  | _ => None
  end.

(* replies outside the modelled region are rejected (the generator never produces them) *)
Definition reply_in_domain (s : N) (b : rbody) : bool :=
  if (400 <=? s) && (s <=? 599) then match b with BOk => false | _ => true end
  else (200 <=? s) && (s <=? 299) && match b with BJson _ _ => false | _ => true end.

Definition dec_reply (x : sexp) : option reply :=
  match x with
  | Atom "r" => Some RpReset
  | SList [Atom "p"; s; b; e; r] =>
      match atom_N s, dec_body b, atom_str e, dec_optN r with
      | Some s, Some b, Some e, Some r => if reply_in_domain s b then Some (RpResp s b e r) else None
      | _, _, _, _ => None
      end
  | _ => None
  end.

Definition dec_kv (x : sexp) : option (string * string) :=
  match x with
  | SList [k; v] => match atom_str k, atom_str v with Some k, Some v => Some (k, v) | _, _ => None end
  | _ => None
  end.

Definition dec_req (x : sexp) : option request :=
  match x with
  | SList [Atom m; t; a; e; i; bf] =>
      match atom_str t, atom_str a, atom_str e with
      | Some t, Some a, Some e =>
          match atom_str i, slist_of dec_kv bf with
          | Some i, Some bf => Some (mk_req m t a e i bf)
          | _, _ => None
          end
      | _, _, _ => None
      end
  | _ => None
  end.

Definition dec_result (x : sexp) : option result :=
  match x with
  | SList (Atom "ok" :: vs) => match map_opt atom_str vs with Some l => Some (ROk l) | None => None end
  | SList [Atom "diags"; n] => match atom_nat n with Some n => Some (RDiags n) | None => None end
  | SList [Atom "err"; Atom c; k] => match atom_N k with Some k => Some (RErr c k) | None => None end
  | Atom "panic" => Some RPanic
  | _ => None
  end.

Definition dec_obs (x : sexp) : option (option call_obs) :=
  match x with
  | Atom "panic" => Some None
  | SList [Atom "obs"; reqs; att; res] =>
      match slist_of dec_req reqs, atom_nat att, dec_result res with
      | Some reqs, Some att, Some res => Some (Some (mk_obs reqs att res))
      | _, _, _ => None
      end
  | _ => None
  end.

Definition dec_call (x : sexp) : option ccall :=
  match x with
  | SList [Atom "call"; Atom op; s; n; tok; script; final; pn; Atom em; et; ident; rid; tag; dg; obs] =>
      match slist_of atom_str s, slist_of dec_optZ n, atom_str tok, slist_of dec_reply script, dec_reply final with
      | Some s, Some n, Some tok, Some script, Some final =>
          match slist_of atom_str pn, atom_str et, atom_str ident, atom_str tag with
          | Some pn, Some et, Some ident, Some tag =>
              match atom_bool dg, dec_obs obs, atom_str rid with
              | Some dg, Some obs, Some rid => Some (mk_ccall op s n tok script final pn em et ident rid tag dg obs)
              | _, _, _ => None
              end
          | _, _, _, _ => None
          end
      | _, _, _, _, _ => None
      end
  | _ => None
  end.

(* an item of a group is a call or a sequence of calls run on ONE client instance; the model's prediction for a
   call does not depend on what ran before it (C20_sequence_requests_independent), so sequences are flattened *)
Definition dec_item (x : sexp) : option (list ccall) :=
  match x with
  | SList (Atom "seq" :: calls) => map_opt dec_call calls
  | _ => match dec_call x with Some c => Some [c] | None => None end
  end.

Definition decode (x : sexp) : option case :=
  match x with
  | SList (Atom "grp" :: items) =>
      match map_opt dec_item items with Some ls => Some (concat ls) | None => None end
  | _ => None
  end.

Definition verdict (c : case) : N :=
  verdict_bits (mismatch c) (spec_fail_new c) (spec_fail_known c) (nontrivial c).

Definition run_line : string -> string := run_with decode verdict.
