(* Base/Bytes.v — Go strings are byte strings: Coq [string] over [ascii].
   Definitions only (executable); lemmas live in Proofs/. *)
From Coq Require Export String Ascii List NArith ZArith Bool.
Export ListNotations.
Open Scope string_scope.
Open Scope list_scope.
Open Scope N_scope.
Notation "a +++ b" := (String.append a b) (at level 60, right associativity).

(* ---- hex transport used by the correspondence files ------------------------------------- *)
Definition hexval (c : ascii) : N :=
  let n := N_of_ascii c in
  if (48 <=? n) && (n <=? 57) then n - 48
  else if (97 <=? n) && (n <=? 102) then n - 87
  else if (65 <=? n) && (n <=? 70) then n - 55
  else 0.

(* [hx "68656c6c6f"] = "hello" *)
Fixpoint hx (s : string) : string :=
  match s with
  | String a (String b r) => String (ascii_of_N (16 * hexval a + hexval b)) (hx r)
  | _ => EmptyString
  end.

Definition hexdigit (n : N) : ascii :=
  ascii_of_N (if n <? 10 then 48 + n else 87 + n).

Fixpoint to_hex (s : string) : string :=
  match s with
  | EmptyString => EmptyString
  | String c r => let n := N_of_ascii c in
      String (hexdigit (n / 16)) (String (hexdigit (n mod 16)) (to_hex r))
  end.

(* ---- list views ---------------------------------------------------------------------------- *)
Fixpoint bytes_of (s : string) : list N :=
  match s with EmptyString => [] | String c r => N_of_ascii c :: bytes_of r end.

Fixpoint of_bytes (l : list N) : string :=
  match l with [] => EmptyString | b :: r => String (ascii_of_N b) (of_bytes r) end.

Fixpoint chars (s : string) : list ascii :=
  match s with EmptyString => [] | String c r => c :: chars r end.

Fixpoint of_chars (l : list ascii) : string :=
  match l with [] => EmptyString | c :: r => String c (of_chars r) end.

Definition slen (s : string) : N := N.of_nat (String.length s).

(* drop / take with nat indices (lengths in the models are small; data-dependent sizes are N
   only where arithmetic is done on them) *)
Fixpoint sdrop (n : nat) (s : string) : string :=
  match n, s with
  | O, _ => s
  | S n', String _ r => sdrop n' r
  | S _, EmptyString => EmptyString
  end.

Fixpoint stake (n : nat) (s : string) : string :=
  match n, s with
  | O, _ => EmptyString
  | S n', String c r => String c (stake n' r)
  | S _, EmptyString => EmptyString
  end.

Definition ascii_eqb (a b : ascii) : bool := Ascii.eqb a b.

(* substring search: does [p] occur in [s]? *)
Fixpoint sprefix (p s : string) : bool :=
  match p, s with
  | EmptyString, _ => true
  | String a p', String b s' => Ascii.eqb a b && sprefix p' s'
  | _, _ => false
  end.

Fixpoint scontains (p s : string) : bool :=
  sprefix p s || match s with EmptyString => false | String _ r => scontains p r end.

(* big-endian 32-bit *)
Definition be32 (n : N) : string :=
  of_bytes [ (n / 16777216) mod 256 ; (n / 65536) mod 256 ; (n / 256) mod 256 ; n mod 256 ].

Definition be32_read (s : string) : N :=
  match bytes_of s with
  | a :: b :: c :: d :: _ => ((a * 256 + b) * 256 + c) * 256 + d
  | _ => 0
  end.
