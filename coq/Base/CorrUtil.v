(* Base/CorrUtil.v — helpers for the generated correspondence shards. *)
From Coq Require Import List NArith.
Import ListNotations.
Open Scope N_scope.

Fixpoint idx_filter_from {A} (i : N) (p : A -> bool) (l : list A) : list N :=
  match l with
  | [] => []
  | x :: r => if p x then i :: idx_filter_from (i + 1) p r else idx_filter_from (i + 1) p r
  end.

(* indices (from 0) of the elements satisfying [p] *)
Definition idx_filter {A} (p : A -> bool) (l : list A) : list N := idx_filter_from 0 p l.
