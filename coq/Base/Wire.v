(* Base/Wire.v — the line format of the correspondence check: one s-expression per line.
   Atoms are runs of characters other than space and parentheses; byte strings travel as hex atoms
   (prefixed with 'x' so that the empty string is a token), numbers as decimal atoms.
   The parser is part of the model side (it is what the extracted runner and the in-Coq shards run). *)
From Verif Require Import Base.Bytes.

Inductive sexp := Atom (s : string) | SList (l : list sexp).

Inductive token := TOpen | TClose | TAtom (s : string).

(* List.rev is quadratic; the wire reader handles long lines *)
Definition fast_rev {A} (l : list A) : list A := rev_append l [].

Fixpoint rev_string_acc (s acc : string) : string :=
  match s with EmptyString => acc | String c r => rev_string_acc r (String c acc) end.
Definition rev_string (s : string) : string := rev_string_acc s EmptyString.

(* tokenizer: [cur] is the reversed atom being read *)
Fixpoint tokenize (s : string) (cur : string) (acc : list token) : list token :=
  let flush acc := match cur with EmptyString => acc | _ => TAtom (rev_string cur) :: acc end in
  match s with
  | EmptyString => fast_rev (flush acc)
  | String c r =>
      if Ascii.eqb c "("%char then tokenize r EmptyString (TOpen :: flush acc)
      else if Ascii.eqb c ")"%char then tokenize r EmptyString (TClose :: flush acc)
      else if Ascii.eqb c " "%char then tokenize r EmptyString (flush acc)
      else tokenize r (String c cur) acc
  end.

(* stack-based reader: each stack frame is the reversed list of items of an open list *)
Fixpoint read_tokens (ts : list token) (stack : list (list sexp)) : option sexp :=
  match ts with
  | [] => match stack with [[x]] => Some x | _ => None end
  | TOpen :: r => read_tokens r ([] :: stack)
  | TClose :: r =>
      match stack with
      | top :: next :: rest => read_tokens r ((SList (fast_rev top) :: next) :: rest)
      | _ => None
      end
  | TAtom a :: r =>
      match stack with
      | top :: rest => read_tokens r ((Atom a :: top) :: rest)
      | [] => None
      end
  end.

Definition parse_sexp (s : string) : option sexp := read_tokens (tokenize s EmptyString []) [[]].

(* ---- field decoders ---- *)
Fixpoint dec_digits (s : string) (acc : N) : option N :=
  match s with
  | EmptyString => Some acc
  | String c r => let n := N_of_ascii c in
      if (48 <=? n) && (n <=? 57) then dec_digits r (acc * 10 + (n - 48)) else None
  end.

Definition atom_N (x : sexp) : option N :=
  match x with Atom (String c r as s) => dec_digits s 0 | _ => None end.

Definition atom_nat (x : sexp) : option nat :=
  match atom_N x with Some n => Some (N.to_nat n) | None => None end.

(* signed decimal *)
Definition atom_Z (x : sexp) : option Z :=
  match x with
  | Atom (String "-"%char r) => match dec_digits r 0 with Some n => Some (Z.opp (Z.of_N n)) | None => None end
  | Atom s => match dec_digits s 0 with Some n => Some (Z.of_N n) | None => None end
  | _ => None
  end.

(* byte string: atom "x<hex>" *)
Definition atom_str (x : sexp) : option string :=
  match x with Atom (String "x"%char r) => Some (hx r) | _ => None end.

Definition atom_bool (x : sexp) : option bool :=
  match x with Atom "t" => Some true | Atom "f" => Some false | _ => None end.

Definition atom_tag (x : sexp) : string := match x with Atom s => s | SList _ => "" end.

Fixpoint map_opt {A B} (f : A -> option B) (l : list A) : option (list B) :=
  match l with
  | [] => Some []
  | x :: r => match f x, map_opt f r with Some y, Some t => Some (y :: t) | _, _ => None end
  end.

Definition slist_of {A} (f : sexp -> option A) (x : sexp) : option (list A) :=
  match x with SList l => map_opt f l | Atom _ => None end.

(* ---- verdict of a case, as printed by the runner: a decimal bit mask
        1 = implementation and model disagree, 2 = specification fails on the implementation's behaviour
        outside every known class, 4 = ... inside a known class, 8 = the case is non-trivial,
        16 = the line could not be parsed ---- *)
Definition verdict_bits (mismatch sfail_new sfail_known nontriv : bool) : N :=
  (if mismatch then 1 else 0) + (if sfail_new then 2 else 0) + (if sfail_known then 4 else 0)
  + (if nontriv then 8 else 0).

Definition N_to_dec_digit (n : N) : ascii := ascii_of_N (48 + n).

Definition show_verdict (n : N) : string :=
  String (N_to_dec_digit (n / 10)) (String (N_to_dec_digit (n mod 10)) EmptyString).

Definition run_with {C} (decode : sexp -> option C) (verdict : C -> N) (line : string) : string :=
  match parse_sexp line with
  | Some x => match decode x with Some c => show_verdict (verdict c) | None => "16" end
  | None => "16"
  end.
