(* Properties/C02.v — references and built-ins denote the reference semantics: the text-level laws.
   Statements only, closed by [exact]; proofs in Proofs/InterpProofs.v and Proofs/GoTextProofs.v.
   Model/Interp.v is the byte-level port of ast/interpolation.go and ast/property.go (parser and printer);
   Model/GoText.v the JSON printer / reader and strconv.Quote; Model/Envelope.v base64. *)
From Verif Require Import Base.Bytes Model.Chain Model.GoText Model.Envelope Model.Eval Model.Interp.
From Verif Require Import Proofs.InterpProofs Proofs.GoTextProofs.
From Verif Require Corr.C02.

(* ====================================================================================================
   1. `$$` is a literal `$`; text without `$$` and `${` passes through
   ==================================================================================================== *)
(* [text_result s] is [] for the empty string and [(s, None)] otherwise *)
Theorem C02_interp_dollar : forall s : string, parse_interp (escape_dollar s) = (text_result s, 0).
Proof. exact interp_dollar. Qed.

Theorem C02_interp_plain : forall s : string, no_marker s = true -> parse_interp s = (text_result s, 0).
Proof. exact interp_plain. Qed.

Example C02_ex_dollar : parse_interp "cost: $$5 and $${not.a.ref} 100$" = ([("cost: $5 and ${not.a.ref} 100$", None)], 0).
Proof. vm_compute. reflexivity. Qed.
Example C02_ex_dollar_hyp : escape_dollar "a$b${c}" = "a$$b$${c}" /\ no_marker "lone $ and trailing $" = true.
Proof. split; vm_compute; reflexivity. Qed.

(* ====================================================================================================
   2. parse_path inverts print_path (PropertyAccess.String), exactly on the printable paths
   ==================================================================================================== *)
(* printable_path p: p is non-empty, starts with a name or a quoted key, and
     every name is non-empty and has no '.', '[', '}' and no byte in 9-13, 32, 0x85, 0xA0 (unicode.IsSpace of the BYTE),
     every quoted key is non-empty and does not end in a backslash (any other bytes, quotes and backslashes included),
     every index is a 64-bit Go int (negative ones print and parse back too). *)
Theorem C02_path_roundtrip : forall (p : path) (rest : string), printable_path p = true ->
  parse_path (print_path p +++ String "}"%char rest) = (p, rest, 0).
Proof. exact path_roundtrip. Qed.

(* the class is exact: apart from the single empty name that `${}` denotes nothing else comes back unchanged and
   without a diagnostic; indeed every diagnostic-free parse returns a printable path *)
Theorem C02_path_roundtrip_exact : forall p : path,
  (forall rest, parse_path (print_path p +++ String "}"%char rest) = (p, rest, 0))
  <-> (printable_path p = true \/ p = [AName EmptyString]).
Proof. exact path_roundtrip_exact. Qed.

Theorem C02_parse_path_output_printable : forall (s : string) (p : path) (rest : string),
  parse_path s = (p, rest, 0) -> printable_path p = true \/ p = [AName EmptyString].
Proof. exact parse_path_output_printable. Qed.

Theorem C02_parse_int_print : forall i : Z, idx_ok i = true -> parse_int (print_Z i) = Some i.
Proof. exact parse_int_print. Qed.

(* the model's fuel never runs out and does not matter *)
Theorem C02_parse_path_total : forall s : string,
  snd (parse_path_fuel (S (String.length s)) true s) = true
  /\ (forall f, (String.length s < f)%nat -> fst (parse_path_fuel f true s) = parse_path s)
  /\ (String.length (snd (fst (parse_path s))) <= String.length s)%nat.
Proof. exact parse_path_total. Qed.

(* a key with a dot, a quote, a non-ASCII character (U+00E9 as C3 A9), a backslash before a quote, a space, ']' and '}' *)
Definition ex_key : string := hx "6b2e22c3a95c22205d7d".
Definition ex_path : path :=
  [AName "root"; AKey ex_key; AIdx 42; AName "x$y-z"; AIdx (-7); AKey "["; AIdx 9223372036854775807].

Example C02_ex_path_printable : printable_path ex_path = true.
Proof. vm_compute. reflexivity. Qed.
Example C02_ex_path_printed :
  print_path ex_path = "root[""" +++ hx "6b2e5c22c3a95c5c22205d7d" +++ """][42].x$y-z[-7][""[""][9223372036854775807]".
Proof. vm_compute. reflexivity. Qed.
Example C02_ex_path_parsed : parse_path (print_path ex_path +++ "} tail") = (ex_path, " tail", 0).
Proof. vm_compute. reflexivity. Qed.

(* outside the class (byte-exact witnesses, all confirmed on the Go parser):
   a key ending in a backslash swallows the closing quote; *)
Example C02_ex_key_backslash :
  key_ok "a\" = false /\ parse_path (print_path [AKey "a\"] +++ "}") = ([AKey "a""]}"], "", 3).
Proof. split; vm_compute; reflexivity. Qed.
(* a name containing U+00E0 (C3 A0) is cut at the byte A0, which unicode.IsSpace(rune(byte)) takes for NBSP:
   `${à}` is a syntax error (finding) *)
Example C02_ex_name_nbsp_byte :
  name_ok (hx "c3a0") = false /\ parse_interp (hx "247bc3a07d") = ([("", Some [AName (hx "c3")]); (hx "a07d", None)], 1).
Proof. split; vm_compute; reflexivity. Qed.
(* `${}` is accepted silently as a reference to the property named "" (finding: the check "property access
   expressions cannot be empty" in InterpolateSyntax is dead code) *)
Example C02_ex_empty_reference : parse_interp "${}" = ([("", Some [AName ""])], 0).
Proof. vm_compute. reflexivity. Qed.
(* indices: sign and leading zeros are accepted and normalised, 2^63 is out of range and becomes a string subscript *)
Example C02_ex_index_forms :
  parse_path "a[+5][007][-0]}" = ([AName "a"; AIdx 5; AIdx 7; AIdx 0], "", 0)
  /\ parse_path "a[9223372036854775808]}" = ([AName "a"; AKey "9223372036854775808"], "", 1)
  /\ idx_ok 9223372036854775808 = false /\ idx_ok (-9223372036854775808) = true.
Proof. repeat split; vm_compute; reflexivity. Qed.

(* ====================================================================================================
   3. parse_interp inverts print_interp up to the normalisation the parser performs
   ==================================================================================================== *)
(* norm_parts merges adjacent texts (a text is glued to the reference that follows it) and drops an empty trailing
   text; parts_normal: a part without reference occurs only last and then has a non-empty text;
   parts_printable: every reference is a printable path *)
Theorem C02_interp_roundtrip_norm : forall ps : list (string * option path), parts_printable ps = true ->
  parse_interp (print_interp ps) = (norm_parts EmptyString ps, 0).
Proof. exact interp_roundtrip_norm. Qed.

Theorem C02_interp_roundtrip : forall ps : list (string * option path),
  parts_printable ps = true -> parts_normal ps = true -> parse_interp (print_interp ps) = (ps, 0).
Proof. exact interp_roundtrip. Qed.

(* and the parser only ever returns normal forms *)
Theorem C02_parse_interp_normal : forall s : string, parts_normal (fst (parse_interp s)) = true.
Proof. exact parse_interp_normal. Qed.

Theorem C02_parse_interp_total : forall s : string,
  snd (parse_interp_fuel (S (String.length s)) s EmptyString) = true
  /\ (forall f, (String.length s < f)%nat -> fst (parse_interp_fuel f s EmptyString) = parse_interp s).
Proof. exact parse_interp_total. Qed.

(* what ast.ParseExpr makes of a string node *)
Theorem C02_string_expr_text : forall s : string, string_expr (escape_dollar s) = (EStr s, 0).
Proof. exact string_expr_text. Qed.

Theorem C02_string_expr_sym : forall p : path, printable_path p = true ->
  string_expr ("${" +++ print_path p +++ "}") = (ESym p, 0).
Proof. exact string_expr_sym. Qed.

Definition ex_parts : list (string * option path) :=
  [("pay $", Some ex_path); ("", Some [AKey "only key"]); (" and $${x} ", Some [AName "b"; AIdx 0]); ("the end$", None)].

Example C02_ex_parts_hyp : parts_printable ex_parts = true /\ parts_normal ex_parts = true.
Proof. split; vm_compute; reflexivity. Qed.
Example C02_ex_parts_parsed : parse_interp (print_interp ex_parts) = (ex_parts, 0).
Proof. vm_compute. reflexivity. Qed.
Example C02_ex_parts_norm :
  norm_parts "" [("a", None); ("$b", None); ("c", Some [AName "x"]); ("", None); ("d", None); ("", None)]
  = [("a$bc", Some [AName "x"]); ("d", None)].
Proof. vm_compute. reflexivity. Qed.

(* ====================================================================================================
   4. fn::fromJSON after fn::toJSON
   ==================================================================================================== *)
(* json_all_ascii: every string and key is 7-bit (the domain on which Model/GoText.v is faithful);
   json_numbers_ok: every number text is a JSON number literal (valid_number);
   json_sorted: every object has strictly increasing keys in byte order (what Value.ToJSON / export produce).
   All three return false when the fuel does not cover the value, so they also say that [f] suffices. *)
Theorem C02_json_roundtrip : forall (f : nat) (j : json),
  json_all_ascii f j = true -> json_numbers_ok f j = true -> json_sorted f j = true ->
  json_parse (json_print f j) = JPOk j.
Proof. exact json_roundtrip. Qed.

(* valid_number recognises exactly the grammar of read_number, written out as four consecutive pieces
   (number_lit: sign, integer part, fraction, exponent), and such a text is read back completely *)
Theorem C02_valid_number_iff : forall t : string, valid_number t = true <-> number_lit (bytes_of t).
Proof. exact valid_number_iff. Qed.

Theorem C02_read_number_lit : forall l rest : list N, number_lit l -> num_stop rest = true ->
  read_number (l ++ rest) = Some (l, rest).
Proof. exact read_number_lit. Qed.

(* value level, one fuel: FromJSON(ToJSON v, sec) is v with every node known and flagged [sec], except that nulls carry
   no flag (x_reflag); x_known: no unknown anywhere and the fuel suffices *)
Theorem C02_json_to_x_of_x_to_json : forall (f : nat) (sec : bool) (v : xval), x_known f v = true ->
  json_to_x f sec (x_to_json f v) = x_reflag f sec v.
Proof. exact json_to_x_of_x_to_json. Qed.

(* text and value level together, with exactly the fuels the evaluator model passes (EToJSON, then EFromJSON) *)
Theorem C02_fromjson_tojson : forall (sec : bool) (v : xval),
  x_has_unknown v = false ->
  let j := x_to_json (S (x_depth v)) v in
  json_all_ascii (S (json_depth j)) j = true -> json_numbers_ok (S (json_depth j)) j = true ->
  json_sorted (S (json_depth j)) j = true ->
  json_parse (json_print (S (json_depth j)) j) = JPOk j
  /\ json_to_x (S (json_depth j)) sec j = x_reflag (S (x_depth v)) sec v.
Proof. exact fromjson_tojson_depth. Qed.

Definition ex_json : json :=
  JObj [("", JNull);
        ("a<b>&c", JArr [JNum "-12.50e+3"; JNum "0"; JStr (hx "01091f225c2f7f") ; JArr []; JObj []]);
        ("b", JObj [("x", JBool true); ("y", JStr "tab	quote"" <html> & \\")]);
        ("c", JArr [JArr [JArr [JBool false]]])].

Example C02_ex_json_hyp :
  json_all_ascii 5 ex_json = true /\ json_numbers_ok 5 ex_json = true /\ json_sorted 5 ex_json = true
  /\ json_depth ex_json = 5%nat.
Proof. repeat split; vm_compute; reflexivity. Qed.
Example C02_ex_json_printed :
  json_print 5 (JArr [JStr (hx "013c"); JNum "1E-07"]) = "[""\u0001\u003c"",1E-07]".
Proof. vm_compute. reflexivity. Qed.
Example C02_ex_json_parsed : json_parse (json_print 5 ex_json) = JPOk ex_json.
Proof. vm_compute. reflexivity. Qed.
Example C02_ex_numbers :
  map valid_number ["0"; "-0"; "10"; "1.5"; "-12.50e+3"; "1E-07"; "01"; "1."; ".5"; "-"; "1e"; "+1"; "1e+"; "0x1"; ""]
  = [true; true; true; true; true; true; false; false; false; false; false; false; false; false; false].
Proof. vm_compute. reflexivity. Qed.
(* unsorted or duplicate keys are outside the theorem: the reader sorts, and keeps the last of two equal keys *)
Example C02_ex_json_unsorted :
  json_parse (json_print 3 (JObj [("b", JNum "1"); ("a", JNum "2"); ("b", JNum "3")])) = JPOk (JObj [("a", JNum "2"); ("b", JNum "3")]).
Proof. vm_compute. reflexivity. Qed.

Definition ex_xval : xval :=
  XObj true false [("k", XArr false false [XScalar true false (SStr "s"); XScalar true false SNull; XScalar false false (SNum "7")]);
                   ("n", XScalar false false (SBool true))].
Example C02_ex_xval_hyp : x_has_unknown ex_xval = false /\ x_known 3 ex_xval = true.
Proof. split; vm_compute; reflexivity. Qed.
Example C02_ex_xval_roundtrip :
  json_to_x 3 true (x_to_json 3 ex_xval)
  = XObj true false [("k", XArr true false [XScalar true false (SStr "s"); XScalar false false SNull; XScalar true false (SNum "7")]);
                     ("n", XScalar true false (SBool true))].
Proof. vm_compute. reflexivity. Qed.

(* ====================================================================================================
   5. fn::fromBase64 after fn::toBase64, in the evaluator
   ==================================================================================================== *)
(* e evaluates (with fuel f, in the state the two builtins leave it) to a chain whose top layer is a known string and
   which contains no unknown; the memo cell of the inner builtin is fresh.  Then the composite evaluates to that string
   with the same secrecy, and reports, logs and calls nothing of its own. *)
Theorem C02_b64_roundtrip_value :
  forall (W : world) (f : nat) (E : ectx) (e : expr) (xbase : chain) (id : eid) (s s2 : st)
         (v vrest : chain) (sec0 : bool) (sc : sch) (str : string),
  let id0 := (fst id, snd id ++ [IIdx 0]) in
  let id00 := (fst id0, snd id0 ++ [IIdx 0]) in
  memo_get id0 (memo s) = None ->
  eval_expr W f E e false [] id00 (snd (memo_set id0 None s)) = (v, s2) ->
  v = LScalar sec0 false sc (SStr str) :: vrest ->
  contains_unknowns v = false ->
  let '(r, s') := eval_repr W (S (S (S (S (S f))))) E (EFromB64 (EToB64 e)) xbase id s in
  r = [str_layer (contains_secrets v) false str]
  /\ nerr s' = nerr s2 /\ log s' = log s2 /\ calls s' = calls s2 /\ oof s' = oof s2.
Proof. exact b64_roundtrip_value. Qed.

Definition ex_world : world :=
  {| w_envs := []; w_provs := []; w_ctx := []; w_check := false; w_show := false; w_fault := None;
     w_decrypt := fun _ _ => None |}.
Definition ex_ectx : ectx :=
  {| ec_name := "env"; ec_root := "env"; ec_values := []; ec_base := []; ec_imports := []; ec_context := [] |}.
Example C02_ex_b64 :
  fst (eval_repr ex_world 10 ex_ectx (EFromB64 (EToB64 (ESecretPlain (hx "00ff68c3a9")))) [] ("env", [IKey "k"]) st0)
  = [str_layer true false (hx "00ff68c3a9")].
Proof. vm_compute. reflexivity. Qed.

(* ====================================================================================================
   6. the string form (fn::toString, interpolation) against the JSON form
   ==================================================================================================== *)
(* for a value that entered as a single layer (provider output, fn::fromJSON result, context) the string form is the
   specification string Corr.C02.jstring of its JSON rendering, no unknown is reported, and it is secret iff it was
   unexported as secret or something in it is secret.  x_sorted: objects have strictly increasing keys. *)
Theorem C02_to_string_unexport : forall (f : nat) (v : xval) (xs : bool),
  x_known f v = true -> x_sorted f v = true ->
  forall F1 F2, (f <= F1)%nat -> (f <= F2)%nat ->
  to_string F1 (unexport f xs v) = (Corr.C02.jstring F2 (x_to_json f v), false, (xs || x_any (fun s _ => s) f v)%bool).
Proof. exact to_string_unexport. Qed.

Example C02_ex_to_string :
  x_sorted 3 ex_xval = true
  /\ to_string (ts_need (unexport 3 false ex_xval)) (unexport 3 false ex_xval) = ("""k""=""\""s\"",\""\"",\""7\"""",""n""=""true""", false, true).
Proof. split; vm_compute; reflexivity. Qed.

(* the full claim, for every chain, is false of the model and of the implementation (known finding C02-tostring):
   {a: "1"} merged over the base {b: "2"} exports a and b, its string form shows a only *)
Theorem C02_tostring_inherited_refuted : ~ tostring_agrees_statement.
Proof. exact tostring_inherited_refuted. Qed.

Example C02_ex_inherited :
  export big_fuel inherit_chain = Some inherit_value
  /\ to_string (ts_need inherit_chain) inherit_chain = ("""a""=""1""", false, false)
  /\ Corr.C02.jstring (S (x_depth inherit_value)) (x_to_json (S (x_depth inherit_value)) inherit_value)
     = """a""=""1"",""b""=""2""".
Proof. exact (conj inherit_export (conj inherit_to_string inherit_jstring)). Qed.

(* ====================================================================================================
   7. strconv.Quote (the model's go_quote; faithful to Go on 7-bit input)
   ==================================================================================================== *)
Theorem C02_go_quote_first : forall s : string, exists r, go_quote s = String """"%char r.
Proof. exact go_quote_first. Qed.

Theorem C02_go_quote_last : forall s : string, exists r, go_quote s = r +++ """".
Proof. exact go_quote_last. Qed.

Theorem C02_go_quote_ascii : forall s : string, is_ascii7 s = true -> is_ascii7 (go_quote s) = true.
Proof. exact go_quote_ascii. Qed.

Theorem C02_go_unquote_quote : forall s : string, go_unquote (go_quote s) = Some s.
Proof. exact go_unquote_quote. Qed.

Theorem C02_go_quote_inj : forall a b : string, go_quote a = go_quote b -> a = b.
Proof. exact go_quote_inj. Qed.

Example C02_ex_go_quote :
  go_quote (hx "61220a5c077f1b") = """a\""\n\\\a\x7f\x1b""" /\ is_ascii7 (hx "61220a5c077f1b") = true.
Proof. split; vm_compute; reflexivity. Qed.
