From Verif Require Import Model.Chain.
Example C02_placeholder : 1 = 1. Proof. reflexivity. Qed.
