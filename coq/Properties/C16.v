(* Properties/C16.v — Temporary secret files never outlive the command (`esc run`).
   Only statements closed by [exact]; the proofs live in Proofs/TempFiles*.v.

   Reading guide.  [run_command plan name_of P st cfg] is the model of RunE of `esc run` (Model/TempFiles.v):
   [plan kind i] says whether the i-th file-system/process operation of that kind is made to fail, [name_of n] is
   the name the file system gives to its n-th temporary file, [P] are the facts srcfacts read from the Go source,
   [st] the file system before the command, [cfg] the environment (files, environmentVariables), the process
   environment and what the child does.  All theorems hold for EVERY plan (any set of failing operations, not
   only a single one), every number of entries, and every naming scheme that never repeats a name. *)
From Verif Require Import Base.Bytes Model.TempFiles Src.SrcTempFiles.
From Verif Require Import Proofs.TempFilesOps Proofs.TempFilesProofs Proofs.TempFilesTop.

(* what the Go source says today, as read by srcfacts on this run *)
Definition src_params : tf_params :=
  mk_tf_params src_remove_on_write_fail src_rollback src_defer_cleanup src_close_checked src_unknown_path.

(* the same with the error of Close dropped (contract.IgnoreClose), i.e. createTemporaryFile as found *)
Definition as_found_params : tf_params :=
  mk_tf_params src_remove_on_write_fail src_rollback src_defer_cleanup false src_unknown_path.

(* names given by the file system of the correspondence harness *)
Definition std_name : nat -> string := temp_name src_temp_dir src_temp_pattern.

Definition injective (f : nat -> string) : Prop := forall a b, f a = f b -> a = b.
Definition fresh_from (name_of : nat -> string) (m0 : fmap) (n0 : nat) : Prop :=
  forall n, (n0 <= n)%nat -> lookup (name_of n) m0 = None.

(* side conditions on the shape of the clean-up code, discharged by computation on the extracted facts:
   the write-failure path removes the file, createTemporaryFiles rolls back, RunE defers the clean-up *)
Theorem C16_src_shape_ok :
  tp_remove_on_write_fail src_params = true /\ tp_rollback src_params = true /\ tp_defer_cleanup src_params = true.
Proof. exact (conj eq_refl (conj eq_refl eq_refl)). Qed.

(* PrepareEnvironment cannot fail any more once createTemporaryFiles has succeeded (the model has no such exit: the
   caller learns the paths only from the successful return, so a later error return would orphan the files) *)
Theorem C16_src_prepare_has_no_late_error : src_prepare_no_late_error = true.
Proof. exact eq_refl. Qed.

(* ---- all_removed_on_return --------------------------------------------------------------------------------
   Whatever fails and whatever the child does (exit 0, exit 1, cannot start, deletes its files): a file that is in
   the file system when `esc run` returns was there before with the same content, or its own Remove was made to
   fail. *)
Theorem C16_all_removed_on_return :
  forall (plan : kind -> nat -> bool) (name_of : nat -> string) (m0 : fmap) (n0 : nat) (cfg : run_cfg) (q c : string),
    injective name_of -> fresh_from name_of m0 n0 ->
    let out := run_command plan name_of src_params (init_fs m0 n0) cfg in
    lookup q (fs_files (o_fs out)) = Some c ->
    lookup q m0 = Some c \/ In (EvRemove q RmFault) (fs_trace (o_fs out)).
Proof.
  exact (fun plan name_of m0 n0 cfg q c Hi Hf =>
           all_removed_on_return plan name_of src_params Hi C16_src_shape_ok m0 n0 Hf cfg q c).
Qed.

(* Unless the child itself deletes files: every path whose Remove was not made to fail is exactly as before the
   command (present with the old content, or absent); in particular no old file is touched, and when no Remove
   fails the file system is back to what it was. *)
Theorem C16_nothing_else_is_touched :
  forall (plan : kind -> nat -> bool) (name_of : nat -> string) (m0 : fmap) (n0 : nat) (cfg : run_cfg),
    injective name_of -> fresh_from name_of m0 n0 ->
    let out := run_command plan name_of src_params (init_fs m0 n0) cfg in
    rc_unlink cfg = false \/ o_child out = None ->
    (forall q, ~ In (EvRemove q RmFault) (fs_trace (o_fs out)) -> lookup q (fs_files (o_fs out)) = lookup q m0) /\
    (forall q c, lookup q m0 = Some c -> lookup q (fs_files (o_fs out)) = Some c) /\
    ((forall i, plan KRemove i = false) -> forall q, lookup q (fs_files (o_fs out)) = lookup q m0).
Proof.
  exact (fun plan name_of m0 n0 cfg Hi Hf =>
           nothing_else_is_touched plan name_of src_params Hi C16_src_shape_ok m0 n0 Hf cfg).
Qed.

(* ---- exported_under_keys -------------------------------------------------------------------------------------
   When the child is started, its environment is os.Environ() ++ environmentVariables ++ files, both in key
   order; every projected file entry is exported as KEY=path; the paths are pairwise different new files; and
   apart from them the child sees the file system as it was.  The content of each file is the projected value —
   or, only while the source drops the error of Close and the plan makes a Close fail, its first half. *)
Theorem C16_exported_under_keys :
  forall (plan : kind -> nat -> bool) (name_of : nat -> string) (m0 : fmap) (n0 : nat) (cfg : run_cfg) (cv : child_view),
    injective name_of -> fresh_from name_of m0 n0 ->
    o_child (run_command plan name_of src_params (init_fs m0 n0) cfg) = Some cv ->
    let fes := projection (rc_files cfg) in
    exists ps, length ps = length fes /\ NoDup ps /\
      cv_env cv = rc_base cfg ++ map (fun e => kv (pe_key e) (pe_val e)) (projection (rc_vars cfg))
                  ++ map (fun ep => kv (pe_key (fst ep)) (snd ep)) (combine fes ps) /\
      Forall2 (fun e p => exists c, lookup p (cv_files cv) = Some c /\
                 (c = pe_val e \/
                  (tp_close_checked src_params = false /\ (exists i, plan KClose i = true) /\ c = partial (pe_val e))))
              fes ps /\
      (forall p, In p ps -> lookup p m0 = None) /\
      (forall q, ~ In q ps -> lookup q (cv_files cv) = lookup q m0).
Proof.
  exact (fun plan name_of m0 n0 cfg cv Hi Hf => child_view_exact plan name_of src_params Hi m0 n0 Hf cfg cv).
Qed.

(* ---- files_hold_projected_values ------------------------------------------------------------------------------
   Full statement: for every entry the child finds KEY=path in its environment and the file holds exactly the
   projected value.  It holds outside the class "the source drops the error of Close AND the plan contains a
   failing Close" ... *)
Theorem C16_files_hold_projected_values_partial :
  forall (plan : kind -> nat -> bool) (name_of : nat -> string) (m0 : fmap) (n0 : nat) (cfg : run_cfg) (cv : child_view)
         (e : pentry),
    injective name_of -> fresh_from name_of m0 n0 ->
    tp_close_checked src_params = true \/ (forall i, plan KClose i = false) ->
    o_child (run_command plan name_of src_params (init_fs m0 n0) cfg) = Some cv ->
    In e (projection (rc_files cfg)) ->
    exists p, In (kv (pe_key e) p) (cv_env cv) /\ lookup p (cv_files cv) = Some (pe_val e) /\ lookup p m0 = None.
Proof.
  exact (fun plan name_of m0 n0 cfg cv e Hi Hf =>
           files_hold_projected_values plan name_of src_params Hi m0 n0 Hf cfg cv e).
Qed.

(* ... and is refuted inside it by the code as found: one file, the first Close fails (a failed write-back),
   the error is dropped, and the child is started on a file holding "hun" instead of "hunter2". *)
Definition refuting_cfg : run_cfg :=
  mk_run_cfg true OpenOk true false [] [mk_entry "KEY" (VStr "hunter2") true] [].

Theorem C16_files_hold_projected_values_refuted :
  exists cv, o_child (run_command (plan_of [(KClose, 0%nat)]) std_name as_found_params (init_fs [] 0) refuting_cfg)
             = Some cv /\
    cv_env cv = ["KEY=temp/esc-temp-0"] /\ cv_files cv = [("temp/esc-temp-0", "hun")].
Proof. exact (ex_intro _ _ (conj eq_refl (conj eq_refl eq_refl))). Qed.

(* the entries that are materialised are exactly the scalar entries of `files`, rendered by Value.ToString *)
Theorem C16_projection_is_the_scalar_entries :
  forall (l : list entry) (pe : pentry),
    In pe (projection l) <->
    exists e, In e l /\ project (e_val e) = Some (pe_val pe) /\ pe_key pe = e_key e /\ pe_secret pe = e_secret e.
Proof. exact (fun l pe => projection_In pe l). Qed.

(* ---- kth_failure_rolls_back_and_runs_nothing ---------------------------------------------------------------
   [file_ok plan P i]: CreateTemp #i and Write #i are not made to fail (and, for the repaired source, Close #i).
   If the first k files can be written and the k-th cannot (k = 0 .. n-1, any n): the command fails, the child is
   not started and nothing is ever run, a Remove is issued for each of the k files already written, whatever is
   left behind had its own Remove fail, and if no Remove fails the file system is exactly what it was. *)
Theorem C16_kth_failure_rolls_back_and_runs_nothing :
  forall (plan : kind -> nat -> bool) (name_of : nat -> string) (m0 : fmap) (n0 : nat) (cfg : run_cfg) (k : nat),
    injective name_of -> fresh_from name_of m0 n0 ->
    rc_found cfg = true -> rc_open cfg = OpenOk ->
    (k < length (projection (rc_files cfg)))%nat ->
    (forall i, (i < k)%nat -> file_ok plan src_params i = true) -> file_ok plan src_params k = false ->
    let out := run_command plan name_of src_params (init_fs m0 n0) cfg in
    o_err out = EPrepare /\ o_child out = None /\
    (forall e, In e (fs_trace (o_fs out)) -> ~ is_run e) /\
    (forall i, (i < k)%nat -> exists r, In (EvRemove (name_of (n0 + i)%nat) r) (fs_trace (o_fs out))) /\
    (forall q c, lookup q (fs_files (o_fs out)) = Some c ->
                 lookup q m0 = Some c \/ In (EvRemove q RmFault) (fs_trace (o_fs out))) /\
    ((forall i, plan KRemove i = false) -> forall q, lookup q (fs_files (o_fs out)) = lookup q m0).
Proof.
  exact (fun plan name_of m0 n0 cfg k Hi Hf =>
           kth_failure_rolls_back_and_runs_nothing plan name_of src_params Hi C16_src_shape_ok m0 n0 Hf cfg k).
Qed.

(* If every file can be written: the child is started with exactly the expected environment and the command
   reports the child's exit — unless Run itself fails (the child cannot be started); the clean-up theorems above
   cover all three endings. *)
Theorem C16_child_started_when_all_files_ok :
  forall (plan : kind -> nat -> bool) (name_of : nat -> string) (m0 : fmap) (n0 : nat) (cfg : run_cfg),
    injective name_of -> fresh_from name_of m0 n0 ->
    rc_found cfg = true -> rc_open cfg = OpenOk ->
    (forall i, (i < length (projection (rc_files cfg)))%nat -> file_ok plan src_params i = true) ->
    let out := run_command plan name_of src_params (init_fs m0 n0) cfg in
    let ps := map name_of (seq n0 (length (projection (rc_files cfg)))) in
    if plan KRun 0%nat then o_err out = EStart /\ o_child out = None
    else o_err out = (if rc_exit_ok cfg then EOk else EExit) /\
         exists cv, o_child out = Some cv /\
           cv_env cv = rc_base cfg ++ map (fun e => kv (pe_key e) (pe_val e)) (projection (rc_vars cfg))
                       ++ map (fun ep => kv (pe_key (fst ep)) (snd ep)) (combine (projection (rc_files cfg)) ps).
Proof.
  exact (fun plan name_of m0 n0 cfg Hi Hf =>
           child_started_iff_all_files_ok plan name_of src_params Hi C16_src_shape_ok m0 n0 Hf cfg).
Qed.

(* command not found / environment cannot be opened / it has diagnostics: no file-system operation at all *)
Theorem C16_nothing_created_without_command_or_environment :
  forall (plan : kind -> nat -> bool) (name_of : nat -> string) (m0 : fmap) (n0 : nat) (cfg : run_cfg),
    rc_found cfg = false \/ rc_open cfg <> OpenOk ->
    let out := run_command plan name_of src_params (init_fs m0 n0) cfg in
    o_fs out = init_fs m0 n0 /\ o_child out = None.
Proof. exact (fun plan name_of m0 n0 cfg => nothing_created_without_command_or_environment plan name_of src_params m0 n0 cfg). Qed.

(* ---- the hypotheses are satisfiable: the naming scheme and the initial file system of the correspondence ---- *)
Definition creds_fs : fmap := [("home/.pulumi/.esc/credentials.json", "{}")].

Theorem C16_std_name_shape : forall n, std_name n = "temp/esc-temp-" +++ dec_nat n.
Proof. exact (fun n => f_equal (fun s => "temp/esc-temp-" +++ s) (append_nil_r (dec_nat n))). Qed.

Theorem C16_std_name_injective : injective std_name.
Proof.
  exact (fun a b H => prefixed_dec_inj "temp/esc-temp-" a b
                        (eq_trans (eq_sym (C16_std_name_shape a)) (eq_trans H (C16_std_name_shape b)))).
Qed.

Theorem C16_std_fresh : fresh_from std_name creds_fs 0.
Proof.
  exact (fun n _ => eq_ind_r (fun s => lookup s creds_fs = None)
                             (eq_refl : lookup ("temp/esc-temp-" +++ dec_nat n) creds_fs = None) (C16_std_name_shape n)).
Qed.

(* ---- concrete runs (non-vacuity): two files, key order B < a ---- *)
Definition two_files : run_cfg :=
  mk_run_cfg true OpenOk true false ["PATH=/bin"]
    [mk_entry "a" (VStr "plain") false; mk_entry "B" (VStr "s3cr3t") true; mk_entry "obj" VOther false]
    [mk_entry "N" (VNum "42") false].

Example C16_example_success :
  let out := run_command (plan_of []) std_name src_params (init_fs creds_fs 0) two_files in
  o_err out = EOk /\ fs_files (o_fs out) = creds_fs /\
  option_map cv_env (o_child out) = Some ["PATH=/bin"; "N=42"; "B=temp/esc-temp-0"; "a=temp/esc-temp-1"] /\
  option_map (fun cv => lookup "temp/esc-temp-0" (cv_files cv)) (o_child out) = Some (Some "s3cr3t").
Proof. exact (conj eq_refl (conj eq_refl (conj eq_refl eq_refl))). Qed.

(* writing the second file fails: both files removed (two Remove operations), nothing run *)
Example C16_example_second_write_fails :
  let out := run_command (plan_of [(KWrite, 1%nat)]) std_name src_params (init_fs creds_fs 0) two_files in
  file_ok (plan_of [(KWrite, 1%nat)]) src_params 0 = true /\ file_ok (plan_of [(KWrite, 1%nat)]) src_params 1 = false /\
  o_err out = EPrepare /\ o_child out = None /\ fs_files (o_fs out) = creds_fs /\
  count KRemove (fs_trace (o_fs out)) = 2%nat /\ count KRun (fs_trace (o_fs out)) = 0%nat.
Proof.
  exact (conj eq_refl (conj eq_refl (conj eq_refl (conj eq_refl (conj eq_refl (conj eq_refl eq_refl)))))).
Qed.

(* the bound of all_removed_on_return is tight: a file whose own Remove fails does stay *)
Example C16_example_remove_fault_leaks :
  let out := run_command (plan_of [(KCreate, 1%nat); (KRemove, 0%nat)]) std_name src_params (init_fs creds_fs 0) two_files in
  o_err out = EPrepare /\ lookup "temp/esc-temp-0" (fs_files (o_fs out)) = Some "s3cr3t" /\
  In (EvRemove "temp/esc-temp-0" RmFault) (fs_trace (o_fs out)).
Proof. exact (conj eq_refl (conj eq_refl (or_introl eq_refl))). Qed.

(* the child cannot be started: files removed *)
Example C16_example_cannot_start :
  let out := run_command (plan_of [(KRun, 0%nat)]) std_name src_params (init_fs creds_fs 0) two_files in
  o_err out = EStart /\ o_child out = None /\ fs_files (o_fs out) = creds_fs.
Proof. exact (conj eq_refl (conj eq_refl eq_refl)). Qed.
