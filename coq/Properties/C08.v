(* Properties/C08.v — Provider-input validation agrees with JSON Schema (2020-12).
   Only statements closed by [exact]; the proofs live in Proofs/Validate*.v.

   vimpl      = mirror of eval/eval_validate.go (validateElement ...) as coded      (Model/Validate.v)
   gate_impl  = evaluateTypedExpr + the Open condition of evaluateBuiltinOpen: (Open reached, error diagnostic)
   vspec      = JSON Schema 2020-12 semantics of the vocabulary, [None] = out of fuel / unresolved $ref
   re         = the regular-expression matcher (collaborator), any function, used by both sides. *)
From Verif Require Import Base.Bytes Model.Schema Model.Validate Src.SrcValidate Proofs.ValidateBase Proofs.ValidateProofs Proofs.ValidateTotal.

(* what the Go source does today, as read by srcfacts on this run *)
Definition src_params : vparams := mkVP strlen_min_chars strlen_max_chars never_reports gate_fallback.

(* the code before the two repairs (len(v) for string lengths, silent `false` schema) *)
Definition unrepaired_params : vparams := mkVP false false false false.

(* side conditions on the extracted facts, discharged by computation: string lengths are measured in characters and a
   rejection that came without a diagnostic is reported (by either of the two possible repairs) *)
Theorem C08_src_params_ok :
  p_minlen_chars src_params = true /\ p_maxlen_chars src_params = true
  /\ (p_gate_fallback src_params = true \/ p_never_reports src_params = true).
Proof. exact (conj eq_refl (conj eq_refl (or_introl eq_refl))). Qed.

(* MAIN: for every root schema (D = $defs, s) and every value over the vocabulary, whenever JSON Schema gives a verdict
   the Go validator gives the same verdict (with at most the same fuel). *)
Theorem C08_validate_agrees : forall (re : string -> string -> bool) D s v fuel b,
  compiled D s = true -> in_vocabulary D s = true -> numbers_integral D s v = true -> value_wf v = true ->
  vspec re D fuel s v = Some b -> exists d, vimpl src_params re D fuel s v = Some (b, d).
Proof.
  exact (fun re D s v fuel b =>
    validate_agrees src_params re D s v fuel b (proj1 C08_src_params_ok) (proj1 (proj2 C08_src_params_ok))).
Qed.

(* the same statement with the excluded sub-vocabulary named by the decidable classes of the recorded findings *)
Theorem C08_validate_agrees_partial : forall (re : string -> string -> bool) D s v fuel b,
  kf_const_null D s = false -> kf_unique_items D s = false -> kf_number_text D s v = false ->
  compiled D s = true -> value_wf v = true ->
  vspec re D fuel s v = Some b -> exists d, vimpl src_params re D fuel s v = Some (b, d).
Proof.
  exact (fun re D s v fuel b K1 K2 K3 Hc Hw =>
    C08_validate_agrees re D s v fuel b Hc (in_vocabulary_kf D s K1 K2) (numbers_integral_kf D s v K3) Hw).
Qed.

(* both directions on verdicts: the validator never accepts what the standard rejects, nor the converse *)
Theorem C08_validate_verdicts_equal : forall (re : string -> string -> bool) D s v fuel b b' d,
  compiled D s = true -> in_vocabulary D s = true -> numbers_integral D s v = true -> value_wf v = true ->
  vimpl src_params re D fuel s v = Some (b, d) -> vspec re D fuel s v = Some b' -> b = b'.
Proof.
  exact (fun re D s v fuel b b' d Hc Hv Hn Hw Hi Hs =>
    match C08_validate_agrees re D s v fuel b' Hc Hv Hn Hw Hs with
    | ex_intro _ d' E => f_equal fst (eq_trans (eq_sym (f_equal (fun o => match o with Some r => r | None => (b, d) end) Hi))
                                               (f_equal (fun o => match o with Some r => r | None => (b, d) end) E))
    end).
Qed.

(* invalid inputs are reported: a rejection at the gate always carries an error diagnostic *)
Theorem C08_reject_has_diagnostic : forall (re : string -> string -> bool) D s v fuel d,
  gate_impl src_params re D fuel s v = Some (false, d) -> d = true.
Proof.
  exact (fun re D s v fuel d => gate_reject_has_diagnostic src_params re D fuel s v d (proj2 (proj2 C08_src_params_ok))).
Qed.

(* ... and an accepted input produces no validation diagnostic *)
Theorem C08_accept_no_diagnostic : forall (re : string -> string -> bool) D s v fuel d,
  gate_impl src_params re D fuel s v = Some (true, d) -> d = false.
Proof. exact (fun re D s v fuel d => gate_accept_no_diagnostic src_params re D fuel s v d). Qed.

(* the property: valid inputs reach the provider; invalid ones are reported and never reach it *)
Theorem C08_gate_correct : forall (re : string -> string -> bool) D s v fuel valid,
  compiled D s = true -> in_vocabulary D s = true -> numbers_integral D s v = true -> value_wf v = true ->
  vspec re D fuel s v = Some valid ->
  exists opened diag, gate_impl src_params re D fuel s v = Some (opened, diag) /\ opened = valid /\ diag = negb valid.
Proof.
  exact (fun re D s v fuel valid =>
    gate_correct src_params re D s v fuel valid (proj1 C08_src_params_ok) (proj1 (proj2 C08_src_params_ok))
                 (proj2 (proj2 C08_src_params_ok))).
Qed.

(* the hypothesis "vspec ... = Some b" is no restriction for schemas without $ref: fuel above the nesting depth always
   gives a verdict, so there the two validators agree unconditionally (for EVERY value) *)
Theorem C08_spec_total_ref_free : forall (re : string -> string -> bool) D s v fuel,
  ref_free s = true -> (depth s < fuel)%nat -> vspec re D fuel s v <> None.
Proof. exact (fun re D s v fuel => vspec_total_ref_free re D fuel s v). Qed.

Theorem C08_validate_agrees_ref_free : forall (re : string -> string -> bool) D s v fuel,
  ref_free s = true -> (depth s < fuel)%nat ->
  compiled D s = true -> in_vocabulary D s = true -> numbers_integral D s v = true -> value_wf v = true ->
  exists b d, vspec re D fuel s v = Some b /\ vimpl src_params re D fuel s v = Some (b, d).
Proof.
  exact (fun re D s v fuel =>
    validate_agrees_ref_free src_params re D s v fuel (proj1 C08_src_params_ok) (proj1 (proj2 C08_src_params_ok))).
Qed.

(* Go's equalsConst decides JSON-Schema instance equality on well-formed integral values *)
Theorem C08_equals_const_is_instance_equality : forall c v,
  value_wf c = true -> value_integral c = true -> value_wf v = true -> value_integral v = true ->
  equals_const v c = json_eqb v c.
Proof. exact (fun c v H1 H2 H3 H4 => equals_const_spec c v (conj H1 H2) (conj H3 H4)). Qed.

(* ---- where the code really disagrees with the standard: witnesses (outside the classes above nothing disagrees) ---- *)
Definition node (k : keywords) : schema := SNode None [] [] [] None None [] k.

(* `const: null` accepts everything (Const == nil means "no const") *)
Theorem C08_const_null_refuted : forall (P : vparams) (re : string -> string -> bool),
  exists D s v, compiled D s = true /\ numbers_integral D s v = true /\ value_wf v = true
    /\ vspec re D 2 s v = Some false /\ vimpl P re D 2 s v = Some (true, false).
Proof.
  exact (fun P re => ex_intro _ [] (ex_intro _ (node (mkKw None (Some JNull) [] None None None None None None None None None None false None None [] []))
           (ex_intro _ (JNum 1 0) (conj eq_refl (conj eq_refl (conj eq_refl (conj eq_refl eq_refl))))))).
Qed.

(* uniqueItems is declared by the Schema type but never looked at *)
Theorem C08_unique_items_refuted : forall (P : vparams) (re : string -> string -> bool),
  exists D s v, compiled D s = true /\ numbers_integral D s v = true /\ value_wf v = true
    /\ vspec re D 2 s v = Some false /\ vimpl P re D 2 s v = Some (true, false).
Proof.
  exact (fun P re => ex_intro _ [] (ex_intro _ (node (mkKw None None [] None None None None None None None None None None true None None [] []))
           (ex_intro _ (JArr [JNum 1 0; JNum 1 0]) (conj eq_refl (conj eq_refl (conj eq_refl (conj eq_refl eq_refl))))))).
Qed.

(* numbers in const/enum are compared as text: `const: 1.0` rejects 1 *)
Theorem C08_number_text_refuted : forall (P : vparams) (re : string -> string -> bool),
  exists D s v, compiled D s = true /\ in_vocabulary D s = true /\ value_wf v = true
    /\ vspec re D 2 s v = Some true /\ vimpl P re D 2 s v = Some (false, true).
Proof.
  exact (fun P re => ex_intro _ [] (ex_intro _ (node (mkKw None (Some (JNum 1 1)) [] None None None None None None None None None None false None None [] []))
           (ex_intro _ (JNum 1 0) (conj eq_refl (conj eq_refl (conj eq_refl (conj eq_refl eq_refl))))))).
Qed.

(* numbers are rounded to a 64-bit mantissa before they are compared: maximum 2^64 accepts 2^64+1 *)
Theorem C08_big_number_refuted : forall (P : vparams) (re : string -> string -> bool),
  exists D s v, compiled D s = true /\ in_vocabulary D s = true /\ value_wf v = true
    /\ vspec re D 2 s v = Some false /\ vimpl P re D 2 s v = Some (true, false).
Proof.
  exact (fun P re => ex_intro _ [] (ex_intro _ (node (mkKw None None [] None (Some 18446744073709551616%Z) None None None None None None None None false None None [] []))
           (ex_intro _ (JNum 18446744073709551617%Z 0) (conj eq_refl (conj eq_refl (conj eq_refl (conj eq_refl eq_refl))))))).
Qed.

(* the two defects that were repaired, on the code as it was: maxLength 1 rejected the one-character string "é"
   (bytes c3 a9), and a `false` schema rejected without any diagnostic *)
Theorem C08_unrepaired_byte_length_refuted : forall (re : string -> string -> bool),
  exists s v, compiled [] s = true /\ in_vocabulary [] s = true /\ numbers_integral [] s v = true /\ value_wf v = true
    /\ vspec re [] 2 s v = Some true /\ vimpl unrepaired_params re [] 2 s v = Some (false, true).
Proof.
  exact (fun re => ex_intro _ (node (mkKw None None [] None None None None None (Some 1) None None None None false None None [] []))
           (ex_intro _ (JStr (hx "c3a9")) (conj eq_refl (conj eq_refl (conj eq_refl (conj eq_refl (conj eq_refl eq_refl))))))).
Qed.

Theorem C08_unrepaired_silent_false_refuted : forall (re : string -> string -> bool),
  exists s v, vspec re [] 1 s v = Some false /\ gate_impl unrepaired_params re [] 1 s v = Some (false, false).
Proof. exact (fun re => ex_intro _ SNever (ex_intro _ (JObj []) (conj eq_refl eq_refl))). Qed.

(* ---- non-vacuity: the hypotheses hold and both validators give verdicts on a nested schema with $defs (a guarded
        recursive tree), anyOf, oneOf, prefixItems/items, properties/additionalProperties/required, string lengths of
        multi-byte characters and a pattern ---- *)
Definition ex_kw_obj : keywords :=
  mkKw (Some TObj) None [] None None None None None None None None None None false (Some 3) (Some 1) ["name"] [("tags", ["name"])].
Definition ex_name : schema :=
  node (mkKw (Some TStr) None [] None None None None None (Some 2) (Some 1) (Some "x") None None false None None [] []).
Definition ex_num : schema :=
  node (mkKw (Some TNum) None [] (Some 5%Z) (Some 100%Z) None None (Some 0%Z) None None None None None false None None [] []).
Definition ex_tree : schema :=
  SNode None [] [] [] None (Some SNever)
        [("c", SNode None [] [] [] (Some (SNode (Some "tree") [] [] [] None None [] kw0)) None []
                     (mkKw (Some TArr) None [] None None None None None None None None (Some 2) None false None None [] []));
         ("n", ex_num)]
        (mkKw (Some TObj) None [] None None None None None None None None None None false None None [] []).
Definition ex_defs : defs := [("tree", ex_tree)].
Definition ex_schema : schema :=
  SNode None [] [] [] None (Some SNever)
        [("name", ex_name);
         ("tags", SNode None [] [] [node (mkKw (Some TStr) None [] None None None None None None None None None None false None None [] [])]
                        (Some (node (mkKw None None [JNull; JNum 7 0; JStr "k"] None None None None None None None None None None false None None [] [])))
                        None [] (mkKw (Some TArr) None [] None None None None None None None None None None false None None [] []));
         ("t", SNode (Some "tree") [] [] [] None None [] kw0);
         ("u", SNode None [ex_num; ex_name] [node (mkKw (Some TNum) None [] None None None None None None None None None None false None None [] []);
                                             node (mkKw None (Some (JNum 10 0)) [] None None None None None None None None None None false None None [] [])]
                     [] None None [] kw0)]
        ex_kw_obj.
Definition re_sub (p s : string) : bool := scontains p s.

(* {"name": "\u00e9x", "t": {"c": [{"n": 10}, {}], "n": 5}, "u": 15};  "\u00e9x" is c3 a9 78: two characters, three bytes *)
Definition ex_valid : json :=
  JObj [("name", JStr (hx "c3a978"));
        ("t", JObj [("c", JArr [JObj [("n", JNum 10 0)]; JObj []]); ("n", JNum 5 0)]);
        ("u", JNum 15 0)].
(* three characters: longer than maxLength 2 *)
Definition ex_invalid_len : json :=
  JObj [("name", JStr (hx "c3a97879")); ("u", JNum 15 0)].
(* an undeclared property deep inside the recursive definition: rejected by `additionalProperties: false` *)
Definition ex_invalid_deep : json :=
  JObj [("name", JStr "x"); ("t", JObj [("c", JArr [JObj [("c", JArr [JObj [("zz", JNull)]])]])])].
(* u = 10 matches both oneOf branches *)
Definition ex_invalid_oneof : json := JObj [("name", JStr "x"); ("u", JNum 10 0)].

Example C08_example_hypotheses :
  compiled ex_defs ex_schema = true /\ in_vocabulary ex_defs ex_schema = true
  /\ numbers_integral ex_defs ex_schema ex_valid = true /\ value_wf ex_valid = true.
Proof. exact (conj eq_refl (conj eq_refl (conj eq_refl eq_refl))). Qed.

Example C08_example_verdicts :
  vspec re_sub ex_defs 12 ex_schema ex_valid = Some true
  /\ gate_impl src_params re_sub ex_defs 12 ex_schema ex_valid = Some (true, false)
  /\ vspec re_sub ex_defs 12 ex_schema ex_invalid_len = Some false
  /\ gate_impl src_params re_sub ex_defs 12 ex_schema ex_invalid_len = Some (false, true)
  /\ vspec re_sub ex_defs 12 ex_schema ex_invalid_deep = Some false
  /\ gate_impl src_params re_sub ex_defs 12 ex_schema ex_invalid_deep = Some (false, true)
  /\ vspec re_sub ex_defs 12 ex_schema ex_invalid_oneof = Some false
  /\ gate_impl src_params re_sub ex_defs 12 ex_schema ex_invalid_oneof = Some (false, true).
Proof. exact (conj eq_refl (conj eq_refl (conj eq_refl (conj eq_refl (conj eq_refl (conj eq_refl (conj eq_refl eq_refl))))))). Qed.
