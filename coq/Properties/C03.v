From Verif Require Import Model.Chain.
Example C03_placeholder : 1 = 1. Proof. reflexivity. Qed.
