(* Properties/C03.v — secret plaintext never reaches redacted output (non-interference).
   Statements only; proofs in Proofs/NonInterference*.v, renderers in Model/Redact.v.

   Relations (Proofs/NonInterferenceRel.v, NonInterferenceBuiltins.v, NonInterferenceEval.v):
     lo_equiv v1 v2   exported values: same shape (incl. the kind of every scalar), same secret/unknown flags at every
                      node, equal payload at every scalar that is neither flagged secret nor below a flagged node;
     lo_strict v1 v2  the same, but only a scalar's OWN flag frees its payload (what evaluation results satisfy);
     lo_l / lo_c      layers / chains: strict, and schemas equal;
     srel s1 s2       states: memo and import tables related entry by entry, logs related up to the inputs passed
                      to providers, equal [calls];   good s : nerr s = 0 /\ oof s = false;
     mrel R m1 m2     from related states, if BOTH computations end in good states, the results are R-related
                      and the final states are related;
     W_lo W1 W2       worlds equal except: environments are related programs, PConst outputs lo_equiv (SAME SHAPE),
                      decrypters succeed on the same inputs (any plaintexts);
     x_free v1 v2     (Proofs/NonInterferenceShape.v) exported values equal outside the nodes flagged secret; a node flagged
                      secret is related to ANY node flagged secret: other keys, other lengths, scalar versus composite;
     Wfree W1 W2      like W_lo, with PConst outputs x_free: the worlds "differ only in secret plaintexts" of the property;
     C03.shape_class W1 W2   decidable: some PConst output differs in shape ([C03.same_shape]) between the two tables;
     x_lo x1 x2       expressions equal except the texts of ESecretPlain; NO fn::fromJSON.

   Renderings: Value.ToJSON(true) is [x_redact_json], Value.ToString(true) is [x_redact_string]; of the environment-variable
   renderings only the plain `k=v` form of prepare.go (quote=false, shell=false) is MODELLED ([env_vars_redacted],
   [temp_files_redacted]).  The dotenv (`k="v"`) and shell (`export k='v'`) forms differ from it by a quoting function
   applied to the same (flag, text) pairs; they are not restated in Coq - the correspondence compares them byte for byte
   on the implementation through the CLI's own PrepareEnvironment (Redact with Quote / Quote+Shell) in every case. *)
From Verif Require Import Base.Bytes Model.Chain Model.GoText Model.Envelope Model.Eval Model.Redact.
From Verif Require Import Proofs.NonInterferenceRel Proofs.NonInterferenceOps Proofs.NonInterferenceTwins
     Proofs.NonInterferenceMono Proofs.NonInterferenceBuiltins Proofs.NonInterferenceEval
     Proofs.NonInterferenceMain Proofs.NonInterferenceExamples Proofs.NonInterferenceShape.
From Verif Require Corr.C03.

Notation lo_c := (Forall2 lo_l).

(* ---------------- stage 1: the redacting renderers ---------------- *)
Theorem C03_redact_json : forall v1 v2, lo_equiv v1 v2 -> x_redact_json v1 = x_redact_json v2.
Proof. exact redact_lo_equiv. Qed.

Theorem C03_redact_string : forall v1 v2, lo_equiv v1 v2 -> x_redact_string v1 = x_redact_string v2.
Proof. exact redact_string_lo_equiv. Qed.

(* the plain `k=v` lines only (prepare.go getEnvironmentVariables with quote=false, shell=false, redact=true); the
   dotenv and shell forms are exercised on the implementation, not modelled (see the header) *)
Theorem C03_redact_env_vars : forall v1 v2, lo_strict v1 v2 -> env_vars_redacted v1 = env_vars_redacted v2.
Proof. exact env_vars_redacted_lo_strict. Qed.

Theorem C03_redact_temp_files : forall v1 v2, lo_strict v1 v2 -> temp_files_redacted v1 = temp_files_redacted v2.
Proof. exact temp_files_redacted_lo_strict. Qed.

Theorem C03_lo_strict_equiv : forall v1 v2, lo_strict v1 v2 -> lo_equiv v1 v2.
Proof. exact lo_strict_equiv. Qed.

(* GetEnvironmentVariables does not look at the flags of the `environmentVariables` object: lo_equiv is not enough *)
Theorem C03_redact_env_vars_lo_equiv_refuted :
  lo_equiv (ev_val "x") (ev_val "y") /\ env_vars_redacted (ev_val "x") <> env_vars_redacted (ev_val "y").
Proof. exact env_vars_lo_equiv_refuted. Qed.

(* ---------------- stage 2: value operations ---------------- *)
Theorem C03_property : forall k c1 c2, lo_c c1 c2 -> lo_c (property k c1) (property k c2).
Proof. exact property_lo. Qed.

Theorem C03_keys : forall c1 c2, lo_c c1 c2 -> keys c1 = keys c2.
Proof. exact keys_lo. Qed.

Theorem C03_append : forall a1 a2 b1 b2, lo_c a1 a2 -> lo_c b1 b2 -> lo_c (a1 ++ b1) (a2 ++ b2).
Proof. exact app_lo. Qed.

Theorem C03_export : forall f c1 c2, lo_c c1 c2 -> opt_rel lo_strict (export f c1) (export f c2).
Proof. exact export_lo. Qed.

Theorem C03_contains_secrets : forall c1 c2, lo_c c1 c2 -> contains_secrets c1 = contains_secrets c2.
Proof. exact contains_secrets_lo. Qed.

Theorem C03_contains_unknowns : forall c1 c2, lo_c c1 c2 -> contains_unknowns c1 = contains_unknowns c2.
Proof. exact contains_unknowns_lo. Qed.

(* (s1,u1,sec1), (s2,u2,sec2):  u1 = u2, sec1 = sec2, sec1 = false -> s1 = s2 *)
Theorem C03_to_string : forall f c1 c2, lo_c c1 c2 ->
  snd (fst (to_string f c1)) = snd (fst (to_string f c2)) /\
  snd (to_string f c1) = snd (to_string f c2) /\
  (snd (to_string f c1) = false -> fst (fst (to_string f c1)) = fst (fst (to_string f c2))).
Proof. exact to_string_lo. Qed.

Theorem C03_unexport : forall f xs v1 v2, lo_under xs v1 v2 -> lo_c (unexport f xs v1) (unexport f xs v2).
Proof. exact unexport_lo. Qed.

Theorem C03_json_to_x : forall f sec j1 j2, j_lo sec j1 j2 -> lo_strict (json_to_x f sec j1) (json_to_x f sec j2).
Proof. exact json_to_x_lo. Qed.

Theorem C03_value_access : forall f c1 c2 accs, lo_c c1 c2 ->
  lo_c (fst (value_access f c1 accs)) (fst (value_access f c2 accs)) /\
  snd (value_access f c1 accs) = snd (value_access f c2 accs).
Proof. exact value_access_lo. Qed.

Theorem C03_unknown_access : forall c1 c2 accs, lo_c c1 c2 ->
  unknown_access (top_sch c1) accs = unknown_access (top_sch c2) accs /\
  lo_c (fst (unknown_access (top_sch c1) accs)) (fst (unknown_access (top_sch c2) accs)).
Proof. exact unknown_access_lo. Qed.

Theorem C03_validate : forall a c1 c2, lo_c c1 c2 -> validate a c1 = validate a c2.
Proof. exact validate_lo. Qed.

(* a value without any secret flag is determined by the relation *)
Theorem C03_public_determined : forall v1 v2, x_has_secret v1 = false -> lo_strict v1 v2 -> v1 = v2.
Proof. exact x_to_json_public. Qed.

(* ---------------- stage 3: the builtins, one step each ---------------- *)
(* the tails [join_tail] ... are the text of eval_repr after the arguments have been evaluated
   (eval_repr_S : eval_repr W (S f) E x xbase id = repr_body W f E x xbase id, by conversion) *)
Theorem C03_repr_unfold : forall W f E x xbase id, eval_repr W (S f) E x xbase id = repr_body W f E x xbase id.
Proof. exact eval_repr_S. Qed.

Theorem C03_join : forall dr1 dr2 vr1 vr2, tr_rel dr1 dr2 -> tr_rel vr1 vr2 ->
  mrel lo_c (join_tail dr1 vr1) (join_tail dr2 vr2).
Proof. exact join_lo. Qed.

Theorem C03_tojson : forall v1 v2, lo_c v1 v2 -> mrel lo_c (tojson_tail v1) (tojson_tail v2).
Proof. exact tojson_lo. Qed.

Theorem C03_tostring : forall v1 v2, lo_c v1 v2 -> mrel lo_c (tostring_tail v1) (tostring_tail v2).
Proof. exact tostring_lo. Qed.

Theorem C03_tob64 : forall r1 r2, tr_rel r1 r2 -> mrel lo_c (tob64_tail r1) (tob64_tail r2).
Proof. exact tob64_lo. Qed.

(* holds because [mrel] only speaks about runs that both end without diagnostics: a secret argument may decode
   in one run and fail in the other *)
Theorem C03_fromb64 : forall r1 r2, tr_rel r1 r2 -> mrel lo_c (fromb64_tail r1) (fromb64_tail r2).
Proof. exact fromb64_lo. Qed.

(* needs, for a SECRET document, that the two parses (when both succeed) are low-equivalent JSON *)
Theorem C03_fromjson : forall r1 r2, tr_rel r1 r2 ->
  (contains_secrets (fst r1) = true -> fj_ok true (head_str (fst r1)) (head_str (fst r2))) ->
  mrel lo_c (fromjson_tail r1) (fromjson_tail r2).
Proof. exact fromjson_lo. Qed.

Theorem C03_secret_plain : forall s1 s2,
  lo_c (opt_top_sec [str_layer false false s1]) (opt_top_sec [str_layer false false s2]).
Proof. exact secret_plain_lo. Qed.

Theorem C03_secret_cipher : forall W1 W2,
  w_check W1 = w_check W2 -> w_show W1 = w_show W2 -> w_fault W1 = w_fault W2 ->
  (forall e c, opt_rel (fun _ _ => True) (w_decrypt W1 e c) (w_decrypt W2 e c)) ->
  forall E1 E2 repr, ec_name E1 = ec_name E2 -> mrel lo_c (cipher_body W1 E1 repr) (cipher_body W2 E2 repr).
Proof. exact cipher_lo. Qed.

Theorem C03_open : forall W1 W2, w_check W1 = w_check W2 -> w_fault W1 = w_fault W2 ->
  forall E1 E2 id pn prov1 prov2 r1 r2,
  ec_name E1 = ec_name E2 -> ec_root E1 = ec_root E2 -> opt_rel prov_lo prov1 prov2 -> tr_rel r1 r2 ->
  mrel lo_c (open_tail W1 E1 id pn prov1 r1) (open_tail W2 E2 id pn prov2 r2).
Proof. exact open_lo. Qed.

(* interpolation: if the references evaluate to related values, the interpolated strings are related *)
Theorem C03_interpolate : forall W1 W2 f E1 E2, E_lo E1 E2 -> P_access W1 W2 f ->
  forall ps acc1 acc2 unk sec, (sec = false -> acc1 = acc2) ->
  mrel lo_c (interp_go W1 f E1 ps acc1 unk sec) (interp_go W2 f E2 ps acc2 unk sec).
Proof. exact rel_interp_go. Qed.

(* ---------------- stage 4: the evaluator ---------------- *)
(* diagnostics are never retracted (all worlds, fuels, programs, states) *)
Theorem C03_eval_env_mono : forall W f root name d s,
  good (snd (eval_env W f root name d s)) -> good s.
Proof. exact mono_eval_env. Qed.

(* the invariant for the five mutually recursive functions *)
Theorem C03_eval_invariant : forall W1 W2, W_lo W1 W2 -> forall f,
  P_expr W1 W2 f /\ P_repr W1 W2 f /\ P_typed W1 W2 f /\ P_access W1 W2 f /\ P_walk W1 W2 f.
Proof. exact eval_invariant. Qed.

Theorem C03_expr_noninterference : forall W1 W2 fuel E1 E2 x1 x2 xb1 xb2 id s1 s2,
  W_lo W1 W2 -> E_lo E1 E2 -> x_lo x1 x2 -> lo_c xb1 xb2 -> srel s1 s2 ->
  good (snd (eval_expr W1 fuel E1 x1 false xb1 id s1)) -> good (snd (eval_expr W2 fuel E2 x2 false xb2 id s2)) ->
  lo_c (fst (eval_expr W1 fuel E1 x1 false xb1 id s1)) (fst (eval_expr W2 fuel E2 x2 false xb2 id s2)) /\
  srel (snd (eval_expr W1 fuel E1 x1 false xb1 id s1)) (snd (eval_expr W2 fuel E2 x2 false xb2 id s2)).
Proof. exact expr_noninterference. Qed.

Theorem C03_env_noninterference : forall W1 W2 fuel root name d1 d2 s1 s2,
  W_lo W1 W2 -> env_lo d1 d2 -> srel s1 s2 ->
  good (snd (eval_env W1 fuel root name d1 s1)) -> good (snd (eval_env W2 fuel root name d2 s2)) ->
  let r1 := eval_env W1 fuel root name d1 s1 in let r2 := eval_env W2 fuel root name d2 s2 in
  lo_c (fst r1) (fst r2) /\ srel (snd r1) (snd r2) /\
  nerr (snd r1) = nerr (snd r2) /\ calls (snd r1) = calls (snd r2) /\ oof (snd r1) = oof (snd r2).
Proof. exact noninterference_states. Qed.

(* the full intended statement: ALL programs (fn::fromJSON included) and two worlds that differ only in secret plaintexts,
   of ANY shape ([Wfree true]: a provider output flagged secret may be any other value flagged secret) *)
Definition C03_noninterference_statement : Prop :=
  forall W1 W2 fuel name d1 d2,
    Wfree true W1 W2 -> envg_lo true d1 d2 ->
    ob_errors (run fuel W1 name d1) = false -> ob_oof (run fuel W1 name d1) = false ->
    ob_errors (run fuel W2 name d2) = false -> ob_oof (run fuel W2 name d2) = false ->
    exists v1 v2,
      ob_value (run fuel W1 name d1) = Some v1 /\ ob_value (run fuel W2 name d2) = Some v2 /\
      lo_strict v1 v2 /\ lo_equiv v1 v2 /\
      x_redact_json v1 = x_redact_json v2 /\ x_redact_string v1 = x_redact_string v2 /\
      env_vars_redacted v1 = env_vars_redacted v2 /\ temp_files_redacted v1 = temp_files_redacted v2 /\
      Forall2 ev_lo (ob_log (run fuel W1 name d1)) (ob_log (run fuel W2 name d2)).

(* it is false of the model (and of the implementation), for two independent reasons *)
Theorem C03_noninterference_refuted : ~ C03_noninterference_statement.
Proof. exact noninterference_full_refuted. Qed.

(* reason 1, secrets of the SAME shape: fn::fromJSON of a secret document "null" vs "1" (known finding C03-fromjson-null) *)
Theorem C03_noninterference_fromjson_refuted :
  ~ (forall W1 W2 fuel name d1 d2,
       Wg_lo true W1 W2 -> envg_lo true d1 d2 ->
       ob_errors (run fuel W1 name d1) = false -> ob_oof (run fuel W1 name d1) = false ->
       ob_errors (run fuel W2 name d2) = false -> ob_oof (run fuel W2 name d2) = false ->
       ni_conclusion (run fuel W1 name d1) (run fuel W2 name d2)).
Proof. exact noninterference_refuted. Qed.

(* reason 2, NO fn::fromJSON: the SHAPE of a secret payload (known finding C03-secret-shape).  A provider returns the
   secret object {j: v} in one world and {k: v} in the other; the importer merges {extra: x} over it; both runs succeed;
   the redacted JSON renderings are {"cfg":{"extra":"x","j":"[secret]"}} and {"cfg":{"extra":"x","k":"[secret]"}}:
   the keys of a secret composite are part of its plaintext and are shown.  Reproduced on eval.EvalEnvironment. *)
Theorem C03_noninterference_shape_refuted :
  ~ (forall W1 W2 fuel name d1 d2,
       Wfree false W1 W2 -> env_lo d1 d2 ->
       ob_errors (run fuel W1 name d1) = false -> ob_oof (run fuel W1 name d1) = false ->
       ob_errors (run fuel W2 name d2) = false -> ob_oof (run fuel W2 name d2) = false ->
       ni_conclusion (run fuel W1 name d1) (run fuel W2 name d2)).
Proof. exact noninterference_shape_refuted. Qed.

(* proved: every program without fn::fromJSON - imports, providers, decryption, all other builtins included - and every
   pair of worlds that differ only in secret plaintexts, OUTSIDE the decidable class [C03.shape_class] (some constant
   provider output has another shape in the second world).  Both restrictions are necessary (the two refutations). *)
Theorem C03_noninterference_partial :
  forall W1 W2 fuel name d1 d2,
    Wfree false W1 W2 -> C03.shape_class W1 W2 = false -> env_lo d1 d2 ->
    ob_errors (run fuel W1 name d1) = false -> ob_oof (run fuel W1 name d1) = false ->
    ob_errors (run fuel W2 name d2) = false -> ob_oof (run fuel W2 name d2) = false ->
    exists v1 v2,
      ob_value (run fuel W1 name d1) = Some v1 /\ ob_value (run fuel W2 name d2) = Some v2 /\
      lo_strict v1 v2 /\ lo_equiv v1 v2 /\
      x_redact_json v1 = x_redact_json v2 /\ x_redact_string v1 = x_redact_string v2 /\
      env_vars_redacted v1 = env_vars_redacted v2 /\ temp_files_redacted v1 = temp_files_redacted v2 /\
      Forall2 ev_lo (ob_log (run fuel W1 name d1)) (ob_log (run fuel W2 name d2)).
Proof. exact noninterference_shape_partial. Qed.

(* the same theorem in terms of the relation the proof works with: [W_lo] IS [Wfree] outside the class *)
Theorem C03_noninterference_lo_partial :
  forall W1 W2 fuel name d1 d2,
    W_lo W1 W2 -> env_lo d1 d2 ->
    ob_errors (run fuel W1 name d1) = false -> ob_oof (run fuel W1 name d1) = false ->
    ob_errors (run fuel W2 name d2) = false -> ob_oof (run fuel W2 name d2) = false ->
    ni_conclusion (run fuel W1 name d1) (run fuel W2 name d2).
Proof. exact noninterference_partial. Qed.

Theorem C03_Wfree_outside_class_is_W_lo : forall fj W1 W2,
  Wfree fj W1 W2 -> C03.shape_class W1 W2 = false -> Wg_lo fj W1 W2.
Proof. exact Wfree_lo. Qed.

Theorem C03_W_lo_is_Wfree : forall fj W1 W2, Wg_lo fj W1 W2 -> Wfree fj W1 W2.
Proof. exact Wlo_free. Qed.

(* value level: two values that differ only below secret flags and have the same shape are low-equivalent *)
Theorem C03_free_same_shape_lo_equiv : forall v1 v2, x_free v1 v2 -> C03.same_shape v1 v2 = true -> lo_equiv v1 v2.
Proof. exact free_shape_lo. Qed.

(* ---------------- examples ---------------- *)
(* the hypotheses are satisfiable on non-trivial data: different static secret, provider payloads and decrypter;
   imports, a provider, a merge over a secret composite; the unredacted values differ *)
Example C03_two_runs_instance :
  let o1 := run 40 (W_demo "tiger" "u" (Some "a")) "main" (d_demo false "hunter2") in
  let o2 := run 40 (W_demo "lion" "root" (Some "b")) "main" (d_demo false "correct horse") in
  ob_errors o1 = false /\ ob_oof o1 = false /\ ob_errors o2 = false /\ ob_oof o2 = false /\
  ob_value o1 <> ob_value o2 /\ ni_conclusion o1 o2.
Proof. exact two_runs_instance. Qed.

Example C03_hypotheses_satisfiable :
  W_lo (W_demo "tiger" "u" (Some "a")) (W_demo "lion" "root" (Some "b")) /\
  env_lo (d_demo false "hunter2") (d_demo false "correct horse").
Proof. exact (conj (W_demo_lo _ _ _ _ _ _) (d_demo_lo _ _)). Qed.

(* ... and so are those of the main theorem: worlds that differ in secret plaintexts, outside the shape class *)
Example C03_partial_hypotheses_satisfiable :
  Wfree false (W_demo "tiger" "u" (Some "a")) (W_demo "lion" "root" (Some "b")) /\
  C03.shape_class (W_demo "tiger" "u" (Some "a")) (W_demo "lion" "root" (Some "b")) = false /\
  env_lo (d_demo false "hunter2") (d_demo false "correct horse").
Proof. exact (conj (Wlo_free _ _ _ (W_demo_lo _ _ _ _ _ _)) (conj eq_refl (d_demo_lo _ _))). Qed.

(* flag soundness by computation: one secret through interpolation, join, toJSON -> fromJSON, base64 both ways,
   toString, property access into a provider's secret composite, and an object merged over that composite *)
Example C03_flag_soundness :
  let o := run 40 (W_demo "tiger" "u" None) "main" (d_demo true "hunter2") in
  ob_errors o = false /\ ob_oof o = false /\ ob_value o = Some demo_value.
Proof. exact flag_soundness_example. Qed.

Example C03_flag_soundness_redacted :
  x_redact_json demo_value =
  JObj [("b64", JStr "[secret]"); ("back", JStr "[secret]");
        ("cfg", JObj [("extra", JStr "x"); ("pw", JStr "[secret]"); ("user", JStr "[secret]")]);
        ("interp", JStr "[secret]"); ("joined", JStr "[secret]"); ("js", JStr "[secret]");
        ("prop", JStr "[secret]"); ("s", JStr "[secret]"); ("str", JStr "[secret]"); ("unb64", JStr "[secret]")]
  /\ scontains "hunter2" (json_print 10 (x_redact_json demo_value)) = false
  /\ scontains "tiger" (json_print 10 (x_redact_json demo_value)) = false
  /\ scontains "hunter2" (x_redact_string demo_value) = false
  /\ scontains "tiger" (x_redact_string demo_value) = false.
Proof. exact flag_soundness_redacted. Qed.

(* FromJSON drops the flag of null *)
Example C03_fromjson_null_flag_refuted :
  let o := run 20 W_plain "main" (d_fromjson "null") in
  ob_errors o = false /\ ob_oof o = false /\
  ob_value o = Some (XObj false false [("a", XScalar false false SNull)]) /\
  option_map x_has_secret (ob_value o) = Some false.
Proof. exact fromjson_null_flag_refuted. Qed.

(* the shape below a secret node is observable: keys of a secret object after a merge (the witness of
   C03_noninterference_shape_refuted, computed); the pair is inside the class *)
Example C03_shape_witness_in_class : C03.shape_class (W_shape "j") (W_shape "k") = true.
Proof. exact W_shape_in_class. Qed.

Example C03_scalar_vs_composite_leaks :
  let o1 := run 40 (W_payload (XScalar true false (SStr "v"))) "main" d_merge in
  let o2 := run 40 (W_payload (XObj true false [("k", XScalar false false (SStr "v"))])) "main" d_merge in
  ob_errors o1 = false /\ ob_oof o1 = false /\ ob_errors o2 = false /\ ob_oof o2 = false /\
  option_map x_redact_json (ob_value o1) = Some (JObj [("cfg", JObj [("extra", JStr "x")])]) /\
  option_map x_redact_json (ob_value o2) = Some (JObj [("cfg", JObj [("extra", JStr "x"); ("k", JStr "[secret]")])]).
Proof. exact scalar_vs_composite_leaks. Qed.

Example C03_shape_below_secret_matters :
  let o1 := run 40 (W_shape "j") "main" d_merge in
  let o2 := run 40 (W_shape "k") "main" d_merge in
  ob_errors o1 = false /\ ob_oof o1 = false /\ ob_errors o2 = false /\ ob_oof o2 = false /\
  option_map x_redact_json (ob_value o1) =
    Some (JObj [("cfg", JObj [("extra", JStr "x"); ("j", JStr "[secret]")])]) /\
  option_map x_redact_json (ob_value o2) =
    Some (JObj [("cfg", JObj [("extra", JStr "x"); ("k", JStr "[secret]")])]).
Proof. exact shape_below_secret_matters. Qed.

(* the class the ORACLE uses for C03-fromjson-null (Corr/C03.v known_null) is narrower than "the program mentions
   fn::fromJSON": the argument must be able to carry a secret (it mentions a static secret, a ciphertext, a provider or a
   reference), in the root or in any environment the loader serves.  The theorem above still excludes every fn::fromJSON. *)
Example C03_fromjson_class_narrowed :
  C03.fromjson_of_secret W_plain d_fj_public = false
  /\ C03.fromjson_of_secret W_plain (d_fromjson "null") = true
  /\ C03.fromjson_of_secret W_plain d_fj_ref = true
  /\ C03.fromjson_of_secret W_fj_import {| ed_imports := [("base", true)]; ed_values := [] |} = true.
Proof. exact fromjson_class_narrowed. Qed.

Example C03_fromjson_keys_leak :
  let o1 := run 40 (W_json "{""j"":1}") "main" d_merge in
  let o2 := run 40 (W_json "{""k"":1}") "main" d_merge in
  ob_errors o1 = false /\ ob_oof o1 = false /\ ob_errors o2 = false /\ ob_oof o2 = false /\
  option_map x_redact_json (ob_value o1) =
    Some (JObj [("cfg", JObj [("extra", JStr "x"); ("j", JStr "[secret]")])]) /\
  option_map x_redact_json (ob_value o2) =
    Some (JObj [("cfg", JObj [("extra", JStr "x"); ("k", JStr "[secret]")])]).
Proof. exact fromjson_keys_leak. Qed.
