(* Properties/C11.v — Secret envelopes round-trip and reject corruption.
   Only statements closed by [exact]; the proofs live in Proofs/Envelope*.v. *)
From Verif Require Import Base.Bytes Model.Envelope Src.SrcEnvelope Proofs.EnvelopeBase64 Proofs.EnvelopeProofs
  Proofs.EnvelopeCRC.

(* the parameters the Go source has today, as read by srcfacts on this run *)
Definition src_params : env_params :=
  {| ep_magic := envelope_magic; ep_version := envelope_version; ep_min_len := envelope_min_len |}.

(* side conditions on the extracted constants, discharged by computation *)
Theorem C11_src_params_wf : wf_params src_params /\ 12 <= ep_min_len src_params.
Proof. exact (params_check_ok src_params eq_refl). Qed.

(* wrapping any ciphertext (any bytes, any length, including empty) and unwrapping returns the same bytes *)
Theorem C11_roundtrip : forall ct : string, decode_ct src_params (encode_ct src_params ct) = DOk ct.
Proof. exact (fun ct => envelope_roundtrip src_params ct (proj1 C11_src_params_wf)). Qed.

Theorem C11_base64_roundtrip : forall s : string, b64_decode (b64_encode s) = Some s.
Proof. exact b64_decode_encode. Qed.

(* decoding never panics, whatever the input *)
Theorem C11_decode_total : forall repr, decode_ct src_params repr <> DPanic.
Proof. exact (fun r => decode_no_panic src_params r (proj2 C11_src_params_wf)). Qed.

(* cut below the minimum length => rejected *)
Theorem C11_reject_short : forall bin, slen bin < 12 -> forall ct, decode_ct src_params (b64_encode bin) <> DOk ct.
Proof. exact (fun bin H => reject_short src_params bin H). Qed.

Theorem C11_reject_wrong_magic : forall bin, stake 4 bin <> envelope_magic ->
  forall ct, decode_ct src_params (b64_encode bin) <> DOk ct.
Proof. exact (reject_wrong_magic src_params). Qed.

Theorem C11_reject_wrong_version : forall bin, be32_read (sdrop 4 bin) <> envelope_version ->
  forall ct, decode_ct src_params (b64_encode bin) <> DOk ct.
Proof. exact (reject_wrong_version src_params). Qed.

Theorem C11_reject_wrong_checksum : forall bin,
  crc32 (stake (String.length bin - 4) bin) <> be32_read (sdrop (String.length bin - 4) bin) ->
  forall ct, decode_ct src_params (b64_encode bin) <> DOk ct.
Proof. exact (reject_wrong_checksum src_params). Qed.

(* ---- corruption of the binary envelope [env_bin p ct] by xor with a mask [m] of the same length ----
   positions are counted in CRC transmission order (bit j of byte i is 8i+j) *)

(* up to three flipped bits anywhere (trailer included) in an envelope of at most 91639 bits are rejected;
   the bound is the exact Hamming-distance-4 range of CRC-32 (see C11_hd_bound_sharp) *)
Theorem C11_reject_le3_flips : forall ct m : string,
  String.length m = String.length (env_bin src_params ct) -> mask_le3 m = true ->
  forall ct', decode_ct src_params (b64_encode (sxor (env_bin src_params ct) m)) <> DOk ct'.
Proof. exact (mask_le3_rejected src_params). Qed.

(* any burst of at most 32 bits inside the checksummed bytes, for envelopes of EVERY length *)
Theorem C11_reject_burst32_body : forall ct m : string,
  String.length m = String.length (env_bin src_params ct) -> mask_burst32_body m = true ->
  forall ct', decode_ct src_params (b64_encode (sxor (env_bin src_params ct) m)) <> DOk ct'.
Proof. exact (mask_burst32_body_rejected src_params). Qed.

(* any change confined to the four checksum bytes *)
Theorem C11_reject_trailer_change : forall ct m : string,
  String.length m = String.length (env_bin src_params ct) -> mask_in_trailer m = true ->
  forall ct', decode_ct src_params (b64_encode (sxor (env_bin src_params ct) m)) <> DOk ct'.
Proof. exact (mask_in_trailer_rejected src_params). Qed.

(* the whole guaranteed class (<= 3 flips, or a burst of span <= 32 anywhere) except the recorded known finding:
   a burst of MORE than three bits that straddles the boundary between the checksummed bytes and the trailer *)
Theorem C11_reject_guaranteed_partial : forall ct m : string,
  String.length m = String.length (env_bin src_params ct) ->
  guaranteed_mask m = true -> boundary_burst m = false ->
  forall ct', decode_ct src_params (b64_encode (sxor (env_bin src_params ct) m)) <> DOk ct'.
Proof. exact (guaranteed_mask_rejected src_params). Qed.

(* ... and the full statement is false of the wire format: the trailer is stored big-endian, so the classical
   burst guarantee does not hold across the boundary (C11-boundary, a property of the format, not repairable) *)
Theorem C11_burst_boundary_refuted :
  exists ct m ct',
    String.length m = String.length (env_bin std ct)
    /\ burst32 (mask_positions m) = true
    /\ existsb (fun q => q <? 8 * (slen m - 4)) (mask_positions m) = true
    /\ existsb (fun q => 8 * (slen m - 4) <=? q) (mask_positions m) = true
    /\ decode_ct std (b64_encode (sxor (env_bin std ct) m)) = DOk ct'
    /\ ct' <> ct.
Proof. exact burst_boundary_refuted. Qed.

(* the 91639-bit bound is sharp: a weight-3 pattern of 91640 bits is a CRC-32 codeword *)
Theorem C11_hd_bound_sharp :
  8 * N.of_nat (length sharp_pattern) = 91640 /\ popc sharp_pattern = 3%nat
  /\ bit_positions 0 sharp_pattern = [0; 49961; 91639]
  /\ crc_update 0 sharp_pattern = 0.
Proof. exact hd_bound_sharp. Qed.

(* the register is GF(2)-linear: the acceptance of an error pattern does not depend on the message *)
Theorem C11_crc_linear : forall m e : string, String.length m = String.length e ->
  crc32 (sxor m e) = N.lxor (crc32 m) (crc_update 0 (bytes_of e)).
Proof. exact crc32_sxor. Qed.

Example C11_example_masks :
  mask_le3 ex_mask3 = true /\ mask_burst32_body ex_mask_body = true.
Proof. exact (conj eq_refl eq_refl). Qed.

(* non-vacuity: a concrete non-trivial envelope *)
Example C11_example : decode_ct src_params (encode_ct src_params "hunter2") = DOk "hunter2"
  /\ encode_ct src_params "" = "ZXNjeAAAAAEQbF1s".
Proof. exact (conj eq_refl eq_refl). Qed.
