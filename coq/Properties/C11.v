(* Properties/C11.v — Secret envelopes round-trip and reject corruption.
   Only statements closed by [exact]; the proofs live in Proofs/Envelope*.v. *)
From Verif Require Import Base.Bytes Model.Envelope Src.SrcEnvelope Proofs.EnvelopeBase64 Proofs.EnvelopeProofs.

(* the parameters the Go source has today, as read by srcfacts on this run *)
Definition src_params : env_params :=
  {| ep_magic := envelope_magic; ep_version := envelope_version; ep_min_len := envelope_min_len |}.

(* side conditions on the extracted constants, discharged by computation *)
Theorem C11_src_params_wf : wf_params src_params /\ 12 <= ep_min_len src_params.
Proof. exact (params_check_ok src_params eq_refl). Qed.

(* wrapping any ciphertext (any bytes, any length, including empty) and unwrapping returns the same bytes *)
Theorem C11_roundtrip : forall ct : string, decode_ct src_params (encode_ct src_params ct) = DOk ct.
Proof. exact (fun ct => envelope_roundtrip src_params ct (proj1 C11_src_params_wf)). Qed.

Theorem C11_base64_roundtrip : forall s : string, b64_decode (b64_encode s) = Some s.
Proof. exact b64_decode_encode. Qed.

(* decoding never panics, whatever the input *)
Theorem C11_decode_total : forall repr, decode_ct src_params repr <> DPanic.
Proof. exact (fun r => decode_no_panic src_params r (proj2 C11_src_params_wf)). Qed.

(* cut below the minimum length => rejected *)
Theorem C11_reject_short : forall bin, slen bin < 12 -> forall ct, decode_ct src_params (b64_encode bin) <> DOk ct.
Proof. exact (fun bin H => reject_short src_params bin H). Qed.

Theorem C11_reject_wrong_magic : forall bin, stake 4 bin <> envelope_magic ->
  forall ct, decode_ct src_params (b64_encode bin) <> DOk ct.
Proof. exact (reject_wrong_magic src_params). Qed.

Theorem C11_reject_wrong_version : forall bin, be32_read (sdrop 4 bin) <> envelope_version ->
  forall ct, decode_ct src_params (b64_encode bin) <> DOk ct.
Proof. exact (reject_wrong_version src_params). Qed.

Theorem C11_reject_wrong_checksum : forall bin,
  crc32 (stake (String.length bin - 4) bin) <> be32_read (sdrop (String.length bin - 4) bin) ->
  forall ct, decode_ct src_params (b64_encode bin) <> DOk ct.
Proof. exact (reject_wrong_checksum src_params). Qed.

(* non-vacuity: a concrete non-trivial envelope *)
Example C11_example : decode_ct src_params (encode_ct src_params "hunter2") = DOk "hunter2"
  /\ encode_ct src_params "" = "ZXNjeAAAAAEQbF1s".
Proof. exact (conj eq_refl eq_refl). Qed.
