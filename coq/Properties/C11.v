(* Properties/C11.v — Secret envelopes round-trip and reject corruption.
   Only statements closed by [exact]; the proofs live in Proofs/Envelope*.v. *)
From Verif Require Import Base.Bytes Model.Envelope Src.SrcEnvelope Proofs.EnvelopeBase64 Proofs.EnvelopeProofs
  Proofs.EnvelopeCRC Proofs.EnvelopeText.

(* the parameters the Go source has today, as read by srcfacts on this run *)
Definition src_params : env_params :=
  {| ep_magic := envelope_magic; ep_version := envelope_version; ep_min_len := envelope_min_len |}.

(* side conditions on the extracted constants, discharged by computation *)
Theorem C11_src_params_wf : wf_params src_params /\ 12 <= ep_min_len src_params.
Proof. exact (params_check_ok src_params eq_refl). Qed.

(* wrapping any ciphertext (any bytes, any length, including empty) and unwrapping returns the same bytes *)
Theorem C11_roundtrip : forall ct : string, decode_ct src_params (encode_ct src_params ct) = DOk ct.
Proof. exact (fun ct => envelope_roundtrip src_params ct (proj1 C11_src_params_wf)). Qed.

Theorem C11_base64_roundtrip : forall s : string, b64_decode (b64_encode s) = Some s.
Proof. exact b64_decode_encode. Qed.

(* decoding never panics, whatever the input *)
Theorem C11_decode_total : forall repr, decode_ct src_params repr <> DPanic.
Proof. exact (fun r => decode_no_panic src_params r (proj2 C11_src_params_wf)). Qed.

(* cut below the minimum length => rejected *)
Theorem C11_reject_short : forall bin, slen bin < 12 -> forall ct, decode_ct src_params (b64_encode bin) <> DOk ct.
Proof. exact (fun bin H => reject_short src_params bin H). Qed.

Theorem C11_reject_wrong_magic : forall bin, stake 4 bin <> envelope_magic ->
  forall ct, decode_ct src_params (b64_encode bin) <> DOk ct.
Proof. exact (reject_wrong_magic src_params). Qed.

Theorem C11_reject_wrong_version : forall bin, be32_read (sdrop 4 bin) <> envelope_version ->
  forall ct, decode_ct src_params (b64_encode bin) <> DOk ct.
Proof. exact (reject_wrong_version src_params). Qed.

Theorem C11_reject_wrong_checksum : forall bin,
  crc32 (stake (String.length bin - 4) bin) <> be32_read (sdrop (String.length bin - 4) bin) ->
  forall ct, decode_ct src_params (b64_encode bin) <> DOk ct.
Proof. exact (reject_wrong_checksum src_params). Qed.

(* ---- corruption of the BINARY envelope [env_bin p ct] - the bytes BEFORE base64 - by xor with a mask [m] of the
   same length; positions are counted in CRC transmission order (bit j of byte i is 8i+j).
   "Flipped bits" and "bursts" in the theorems of this block are bits of the binary envelope before base64, NOT bits of
   the base64 text that is stored and transmitted: one flipped bit of the text changes up to six bits of the binary
   form, or its length.  The text level is the block "corruption of the base64 TEXT" below. *)

(* up to three flipped bits OF THE BINARY ENVELOPE anywhere (trailer included) in an envelope of at most 91639 bits
   are rejected; the bound is the exact Hamming-distance-4 range of CRC-32 (see C11_hd_bound_sharp) *)
Theorem C11_reject_le3_flips : forall ct m : string,
  String.length m = String.length (env_bin src_params ct) -> mask_le3 m = true ->
  forall ct', decode_ct src_params (b64_encode (sxor (env_bin src_params ct) m)) <> DOk ct'.
Proof. exact (mask_le3_rejected src_params). Qed.

(* any burst of at most 32 bits (of the binary envelope) inside the checksummed bytes, for envelopes of EVERY length *)
Theorem C11_reject_burst32_body : forall ct m : string,
  String.length m = String.length (env_bin src_params ct) -> mask_burst32_body m = true ->
  forall ct', decode_ct src_params (b64_encode (sxor (env_bin src_params ct) m)) <> DOk ct'.
Proof. exact (mask_burst32_body_rejected src_params). Qed.

(* any change confined to the four checksum bytes *)
Theorem C11_reject_trailer_change : forall ct m : string,
  String.length m = String.length (env_bin src_params ct) -> mask_in_trailer m = true ->
  forall ct', decode_ct src_params (b64_encode (sxor (env_bin src_params ct) m)) <> DOk ct'.
Proof. exact (mask_in_trailer_rejected src_params). Qed.

(* the whole guaranteed class (<= 3 flips, or a burst of span <= 32 anywhere) except the recorded known finding:
   a burst of MORE than three bits that straddles the boundary between the checksummed bytes and the trailer *)
Theorem C11_reject_guaranteed_partial : forall ct m : string,
  String.length m = String.length (env_bin src_params ct) ->
  guaranteed_mask m = true -> boundary_burst m = false ->
  forall ct', decode_ct src_params (b64_encode (sxor (env_bin src_params ct) m)) <> DOk ct'.
Proof. exact (guaranteed_mask_rejected src_params). Qed.

(* ... and the full statement is false of the wire format: the trailer is stored big-endian, so the classical
   burst guarantee does not hold across the boundary (C11-boundary, a property of the format, not repairable) *)
Theorem C11_burst_boundary_refuted :
  exists ct m ct',
    String.length m = String.length (env_bin std ct)
    /\ burst32 (mask_positions m) = true
    /\ existsb (fun q => q <? 8 * (slen m - 4)) (mask_positions m) = true
    /\ existsb (fun q => 8 * (slen m - 4) <=? q) (mask_positions m) = true
    /\ decode_ct std (b64_encode (sxor (env_bin std ct) m)) = DOk ct'
    /\ ct' <> ct.
Proof. exact burst_boundary_refuted. Qed.

(* the 91639-bit bound is sharp for CRC-32 (a fact about the polynomial, whatever the envelope): a weight-3 pattern
   of 91640 bits - positions 0, 49961, 91639 - is a codeword of the CRC-32 register *)
Theorem C11_hd_bound_sharp :
  8 * N.of_nat (length sharp_pattern) = 91640 /\ popc sharp_pattern = 3%nat
  /\ bit_positions 0 sharp_pattern = [0; 49961; 91639]
  /\ crc_update 0 sharp_pattern = 0.
Proof. exact hd_bound_sharp. Qed.

(* ---- corruption of the base64 TEXT (what is stored in the YAML document and transmitted) --------------------------
   [text_set k c t] replaces character k of t by c; [text_flip k j t] flips bit j of character k; [bit_distance] counts
   the differing bits of two texts.  The property text says "an envelope altered by up to three flipped bits": read on
   the stored text that statement is FALSE (two refutations below, both confirmed on decodeCiphertext, known finding
   C11-text-flips); what IS guaranteed at text level follows. *)

(* GUARANTEED, every length: ONE character replaced by any character of the base64 alphabet (in particular one flipped
   bit that stays inside the alphabet; the replaced character not being '=' padding) never yields another payload:
   the text is rejected, or - when only bits the decoder ignores changed (the character before the padding) - it still
   decodes to the very same binary envelope (C11_text_ignored_bits_example). *)
Theorem C11_text_one_char_replaced : forall (ct ct' : string) (k : nat) (c' : ascii),
  (k < String.length (encode_ct src_params ct))%nat -> b64val c' <> None ->
  b64val (nth k (chars (encode_ct src_params ct)) pad) <> None ->
  decode_ct src_params (text_set k c' (encode_ct src_params ct)) = DOk ct' ->
  b64_decode (text_set k c' (encode_ct src_params ct)) = Some (env_bin src_params ct) /\ ct' = ct.
Proof. exact (fun ct ct' k c' => text_one_char src_params ct ct' k c' (proj1 C11_src_params_wf)). Qed.

Theorem C11_text_one_flip_inside_alphabet : forall (ct ct' : string) (k : nat) (j : N),
  (k < String.length (encode_ct src_params ct))%nat ->
  b64val (nth k (chars (encode_ct src_params ct)) pad) <> None ->
  b64val (flip_bit j (nth k (chars (encode_ct src_params ct)) pad)) <> None ->
  decode_ct src_params (text_flip k j (encode_ct src_params ct)) = DOk ct' -> ct' = ct.
Proof.
  exact (fun ct ct' k j Hk Hnp Hc HD =>
    proj2 (text_one_char src_params ct ct' k _ (proj1 C11_src_params_wf) Hk Hc Hnp HD)).
Qed.

(* GUARANTEED, every length, every base64 text: a character replaced by one that is neither in the alphabet nor '='
   (a flipped bit that leaves the alphabet; CR and LF, which the decoder skips, included) is rejected as base64 *)
Theorem C11_text_char_outside_alphabet : forall (ct : string) (k : nat) (c' : ascii),
  (k < String.length (encode_ct src_params ct))%nat -> b64_or_pad c' = false ->
  decode_ct src_params (text_set k c' (encode_ct src_params ct)) = DErrBase64.
Proof.
  exact (fun ct k c' Hk Hc =>
    eq_trans (decode_ct_bin src_params _)
             (f_equal (fun o => match o with None => DErrBase64 | Some bin => decode_bin src_params bin end)
                      (text_outside_alphabet (env_bin src_params ct) k c' Hk Hc))).
Qed.

(* the binary statement behind it: a binary form that differs from a genuine envelope in at most two adjacent bytes
   (same length) is never accepted, for envelopes of every length - the big-endian trailer included *)
Theorem C11_two_adjacent_bytes_rejected : forall (ct bin' ct' : string),
  near (bytes_of (env_bin src_params ct)) (bytes_of bin') -> decode_ct src_params (b64_encode bin') = DOk ct' ->
  bin' = env_bin src_params ct.
Proof.
  exact (fun ct bin' ct' Hn HD =>
    near_not_accepted src_params ct bin' ct' Hn
      (eq_trans (eq_sym (eq_trans (decode_ct_bin src_params _)
                                  (f_equal (fun o => match o with None => DErrBase64 | Some b => decode_bin src_params b end)
                                           (b64_decode_encode bin')))) HD)).
Qed.

(* REFUTED: ONE flipped bit of the text can be accepted with another payload.  The 24-character text of the envelope
   of 6b ab ce ea b9 51 ends in '9' (0x39); flipping bit 2 makes it '=' (0x3D), the text then decodes to the envelope
   cut by one byte, whose last four bytes are the CRC-32 of the rest: the decrypter receives 6b ab ce ea b9. *)
Theorem C11_text_one_flip_refuted :
  exists ct t t' ct', encode_ct std ct = t /\ String.length t' = String.length t /\ bit_distance t t' = 1%nat
    /\ decode_ct std t' = DOk ct' /\ ct' <> ct.
Proof.
  exact (ex_intro _ pad_ct (ex_intro _ pad_text (ex_intro _ pad_flipped (ex_intro _ pad_ct'
    (conj (proj1 text_one_flip_refuted) (conj eq_refl
      (conj (proj1 (proj2 (proj2 text_one_flip_refuted))) (proj2 (proj2 (proj2 text_one_flip_refuted)))))))))).
Qed.

(* REFUTED: THREE flipped bits of the text, every one leaving its character inside the alphabet, can be accepted with
   another payload: a 328-character text (1 968 binary bits, far below 91 639), characters 13, 245, 321 (P->T, A->Q,
   C->c); the three text bits change 8 bits of the binary envelope, which form a CRC-32 codeword. *)
Theorem C11_text_flips_refuted :
  exists ct t t' ct', encode_ct std ct = t /\ String.length t = 328%nat /\ bit_distance t t' = 3%nat
    /\ forallb (fun c => match b64val c with Some _ => true | None => false end) (chars t') = true
    /\ decode_ct std t' = DOk ct' /\ ct' <> ct
    /\ (exists bin bin', b64_decode t = Some bin /\ b64_decode t' = Some bin'
                         /\ length (mask_positions (sxor bin bin')) = 8%nat).
Proof. exact text_three_flips_refuted'. Qed.

Example C11_text_ignored_bits_example :
  encode_ct std "a" = "ZXNjeAAAAAFhrKP/bQ==" /\ text_flip 17 1 "ZXNjeAAAAAFhrKP/bQ==" = "ZXNjeAAAAAFhrKP/bS=="
  /\ decode_ct std "ZXNjeAAAAAFhrKP/bS==" = DOk "a".
Proof. exact text_ignored_bits_example. Qed.

(* one flipped text bit can change six bits of the binary form: 'f' (31 = 011111) and 'g' (32 = 100000) differ in bit 0 *)
Example C11_text_flip_six_bits :
  flip_bit 0 "f" = "g"%char /\ b64val "f" = Some 31 /\ b64val "g" = Some 32 /\ N.lxor 31 32 = 63.
Proof. exact (conj eq_refl (conj eq_refl (conj eq_refl eq_refl))). Qed.

(* the register is GF(2)-linear: the acceptance of an error pattern does not depend on the message *)
Theorem C11_crc_linear : forall m e : string, String.length m = String.length e ->
  crc32 (sxor m e) = N.lxor (crc32 m) (crc_update 0 (bytes_of e)).
Proof. exact crc32_sxor. Qed.

Example C11_example_masks :
  mask_le3 ex_mask3 = true /\ mask_burst32_body ex_mask_body = true.
Proof. exact (conj eq_refl eq_refl). Qed.

(* non-vacuity: a concrete non-trivial envelope *)
Example C11_example : decode_ct src_params (encode_ct src_params "hunter2") = DOk "hunter2"
  /\ encode_ct src_params "" = "ZXNjeAAAAAEQbF1s".
Proof. exact (conj eq_refl eq_refl). Qed.
