From Verif Require Import Model.Envelope.
Example placeholder : 1 = 1. Proof. reflexivity. Qed.
