(* Properties/C15.v — Path edits change exactly the addressed node.
   Only statements closed by [exact]; the proofs live in Proofs/YamlEdit*.v.

   Vocabulary (Model/YamlEdit.v): [node] = yaml.v3 node tree; [yget/yset/ydelete] = YAMLSyntax.Get/Set/Delete;
   [env_set/env_rm/env_get] = what `esc env set|rm|get` do to the stored definition: "imports" from the root; below
   "values" env set calls Set ON THE NODE under the key "values" ([on_values]), env rm calls Delete from the root
   with "values" prepended (since the seventh repair; before it, on that node as well); [denote] = the typed value of a node (scalars by effective tag and text);
   [wf_root] = a well-formed stored definition (mappings: even content, scalar keys, no duplicate key), or the
   empty definition; [related p q] = one path is a prefix of the other; [run] = a sequence of commands, a
   refused command leaving the definition as it was. *)
From Verif Require Import Base.Bytes Model.YamlEdit Src.SrcYamlEdit
  Proofs.YamlEditBase Proofs.YamlEditProofs Proofs.YamlEditNorm Proofs.YamlEditRec Proofs.YamlEditSeq
  Proofs.YamlEditPrintable Proofs.YamlEditExamples.
Local Open Scope Z_scope.

(* what syntax/encoding/yaml.go does today, as read by srcfacts on this run *)
Definition src_params : params :=
  mk_params set_copies_content set_copies_kind set_copies_tag set_copies_value
            set_style_code set_moves_line_comment fixes_key_line_comment rm_handles_imports
            rm_guards_empty_path rm_values_from_root
            delete_empty_code delete_missing_code.

(* side conditions on the source, discharged by computation: Set copies content, kind, tag, value and the style
   of non-string scalars; Delete guards the empty path and the missing intermediate key *)
Theorem C15_src_params_ok : params_ok src_params = true.
Proof. exact eq_refl. Qed.

(* ... and `env rm` has its own guard for an empty path if it deletes from the root of the definition (otherwise
   Delete(root, ["values"]) would remove every value) *)
Theorem C15_src_cli_params_ok : cli_params_ok src_params = true.
Proof. exact eq_refl. Qed.

Definition set_ok : set_params_ok src_params = true := proj1 (andb_prop _ _ C15_src_params_ok).
Definition del_ok : del_params_ok src_params = true := proj2 (andb_prop _ _ C15_src_params_ok).

(* ---------------- Set ---------------- *)
(* get after set returns the value, for every path, value and tree *)
Theorem C15_get_set : forall p new n n',
  yset src_params p new n = Ok n' -> exists m, yget p n' = GFound m /\ denote m = denote new.
Proof. exact (fun p new n n' => get_set src_params p new n n' set_ok). Qed.

(* every path that is neither above nor below the edited one finds the very same node (value, comments, style) *)
Theorem C15_set_frame : forall p new n n' q,
  wf_root n = true -> yset src_params p new n = Ok n' -> related p q = false -> yget q n' = yget q n.
Proof. exact (set_frame src_params). Qed.

(* the nodes above the edited one keep kind, tag, value, head and foot comment ([core]; their line comment can move
   between a key and its value, see the last section); a mapping keeps the names of its keys in order, a new key
   is appended at the end, and every key other than the one the path goes through is the very same node (comments
   included); a sequence grows by at most the appended element *)
Theorem C15_set_untouched_keys : forall p1 a p2 new n n' m,
  yset src_params (p1 ++ a :: p2) new n = Ok n' -> yget p1 n = GFound m ->
  exists m', yget p1 n' = GFound m' /\ core m' = core (promote a m) /\
    match a with
    | AKey k => nkind m' = KMap /\
                key_names (ncontent m') =
                key_names (ncontent m) ++ (if str_in k (key_names (ncontent m)) then [] else [k])
                /\ other_keys k (ncontent m') = other_keys k (ncontent m)
    | AIdx i => nkind m' = KSeq /\
                len (ncontent m') = (if i =? len (ncontent m) then len (ncontent m) + 1 else len (ncontent m))
    end.
Proof. exact (set_prefix_node src_params). Qed.

Theorem C15_set_wellformed : forall p new n n',
  wf_root n = true -> wf new = true -> yset src_params p new n = Ok n' -> wf n' = true.
Proof. exact (fun p new n n' => set_wf src_params p new n n' set_ok). Qed.

Theorem C15_set_total : forall p new n, wf_root n = true -> yset src_params p new n <> Panic.
Proof. exact (set_total src_params). Qed.

(* ---------------- Delete ---------------- *)
Theorem C15_delete_removes : forall p k n n',
  wf_root n = true -> ydelete src_params (p ++ [AKey k]) n = Ok n' -> yget (p ++ [AKey k]) n' = GMissing.
Proof. exact (delete_removes_key src_params). Qed.

(* the parent of the removed entry is the same node ([core]) with exactly that entry removed: the first pair with
   that key of a mapping; element i of a sequence, so that the later elements move down by one *)
Theorem C15_delete_parent : forall p a n n' m,
  ydelete src_params (p ++ [a]) n = Ok n' -> yget p n = GFound m ->
  exists m', yget p n' = GFound m' /\ core m' = core m /\
    match a with
    | AIdx i => nkind m = KSeq /\ 0 <= i < len (ncontent m)
                /\ ncontent m' = del_nth (Z.to_nat i) (ncontent m)
    | AKey k => nkind m = KMap /\ ncontent m' = del_pair k (ncontent m)
    end.
Proof. exact (delete_parent src_params). Qed.

(* every unrelated path finds the same node, at the place [shift_del] says: index j > i of the sequence an element
   i was removed from is found at j - 1, everything else where it was *)
Theorem C15_delete_frame : forall p n n' q,
  ydelete src_params p n = Ok n' -> related p q = false -> yget (shift_del p q) n' = yget q n.
Proof. exact (delete_frame src_params). Qed.

Theorem C15_delete_untouched_keys : forall p1 a p2 n n' m,
  p2 <> [] -> ydelete src_params (p1 ++ a :: p2) n = Ok n' -> yget p1 n = GFound m ->
  exists m', yget p1 n' = GFound m' /\ core m' = core m /\
    match a with
    | AKey k => nkind m = KMap /\ key_names (ncontent m') = key_names (ncontent m)
                /\ other_keys k (ncontent m') = other_keys k (ncontent m)
    | AIdx _ => nkind m = KSeq /\ length (ncontent m') = length (ncontent m)
    end.
Proof. exact (delete_prefix_node src_params). Qed.

Theorem C15_delete_wellformed : forall p n n',
  wf_root n = true -> ydelete src_params p n = Ok n' -> wf_root n' = true.
Proof. exact (delete_wf src_params). Qed.

(* a path that does not exist: never a panic, and when the call succeeds nothing has changed except, possibly, the
   place of the line comments of the keys the call went through ([norm_path], see the last section) *)
Theorem C15_delete_missing_total : forall p n,
  wf_root n = true ->
  ydelete src_params p n <> Panic /\
  (yget p n = GMissing -> forall n', ydelete src_params p n = Ok n' ->
     n' = n \/ n' = norm_path (removelast p) n).
Proof.
  exact (fun p n Hw => conj (delete_total src_params p n del_ok Hw)
                            (fun Hg n' H => delete_missing_noop src_params p n n' H Hg)).
Qed.

(* that pass does not change any value, nor the well-formedness, nor what an unrelated path finds *)
Theorem C15_comment_pass_is_invisible : forall p n,
  denote (norm_path p n) = denote n /\ wf_root (norm_path p n) = wf_root n /\
  forall q, is_prefix q p = false -> yget q (norm_path p n) = yget q n.
Proof. exact (fun p n => conj (denote_norm p n) (conj (wf_root_norm p n) (fun q => yget_norm_other p q n))). Qed.

(* ---------------- env set / env rm / env get ---------------- *)
Theorem C15_env_get_set : forall p v root root',
  wf_root root = true -> env_set src_params p v root = Ok root' ->
  exists m, env_get p root' = GFound m /\ denote m = denote v.
Proof. exact (fun p v root root' => env_get_set src_params p v root root' set_ok). Qed.

Theorem C15_env_set_frame : forall p v root root' q,
  wf_root root = true -> env_set src_params p v root = Ok root' ->
  related (full_path p) q = false -> yget q root' = yget q root.
Proof. exact (fun p v root root' q => env_set_frame src_params p v root root' q set_ok). Qed.

Theorem C15_env_set_wellformed : forall p v root root',
  wf_root root = true -> wf v = true -> env_set src_params p v root = Ok root' -> wf root' = true.
Proof. exact (fun p v root root' => env_set_wf src_params p v root root' set_ok). Qed.

(* --secret: the stored node is the single-key mapping fn::secret whose argument is a string scalar carrying the
   given text (the command-line text itself when it did not already denote a string) *)
Theorem C15_secret_set : forall p argtext v root root',
  wf_root root = true -> nkind v = KScalar ->
  env_set src_params p (prep_value true argtext v) root = Ok root' ->
  exists m, env_get p root' = GFound m /\
            denote m = VMap [(secret_key, VScalar str_tag (secret_text argtext v))].
Proof. exact (fun p argtext v root root' => secret_set src_params p argtext v root root' set_ok). Qed.

(* env rm works on [rm_path p] ... *)
Theorem C15_env_rm_removes : forall p k root root',
  wf_root root = true -> env_rm src_params (p ++ [AKey k]) root = Ok root' ->
  yget (rm_path src_params (p ++ [AKey k])) root' = GMissing.
Proof. exact (env_rm_removes_key src_params). Qed.

Theorem C15_env_rm_frame : forall p root root' q,
  p <> [] -> env_rm src_params p root = Ok root' -> related (rm_path src_params p) q = false ->
  yget (shift_del (rm_path src_params p) q) root' = yget q root.
Proof. exact (env_rm_frame src_params). Qed.

(* ... which is the path env get and env set use: below "values", and from the root for "imports" *)
Theorem C15_env_rm_same_path_as_get : forall p, p <> [] -> rm_path src_params p = full_path p.
Proof. exact (fun p => rm_path_full src_params p eq_refl). Qed.

(* an empty path: refused, or the definition is left as it is *)
Theorem C15_env_rm_empty_path : forall root root', env_rm src_params [] root = Ok root' -> root' = root.
Proof. exact (fun root root' => env_rm_empty_path src_params root root' C15_src_cli_params_ok). Qed.

(* ---------------- the edit on the node under "values" and the edit from the root ----------------
   Set / Delete from the root are, level by level, the edit on the value of the key followed by the repair of the
   line comment of that key ([fix_key_at]: fixKeyComment); so what `env set` does (Set on the node under "values")
   is Set(root, "values" :: p) WITHOUT the repair of the key "values": the two results differ at most in where the
   line comment of that key is ([upto_values_key]).  The same for Delete(valuesNode, p), which `env rm` used. *)
Theorem C15_set_level_by_level : forall key p new n,
  nkind (promote (AKey key) n) = KMap ->
  yset src_params (AKey key :: p) new n =
  rmap (fun c => fix_key_at src_params key (with_content (promote (AKey key) n) c))
       (upd_key key (yset src_params p new) (ncontent n)).
Proof. exact (yset_cons_map src_params). Qed.

Theorem C15_delete_level_by_level : forall key p n,
  p <> [] -> nkind n = KMap ->
  ydelete src_params (AKey key :: p) n =
  rmap (fun c => fix_key_at src_params key (with_content n c))
       (del_key src_params key false (ydelete src_params p) (ncontent n)).
Proof. exact (ydelete_cons_map src_params). Qed.

Theorem C15_set_on_values_node : forall p v root root',
  nkind root = KMap -> on_values (yset src_params p v) root = Ok root' ->
  exists r2, yset src_params (AKey values_key :: p) v root = Ok r2 /\ upto_values_key r2 root'.
Proof. exact (on_values_set src_params). Qed.

Theorem C15_delete_on_values_node : forall p root root' vn,
  p <> [] -> yget [AKey values_key] root = GFound vn -> on_values (ydelete src_params p) root = Ok root' ->
  exists r2, ydelete src_params (AKey values_key :: p) root = Ok r2 /\ upto_values_key r2 root'.
Proof. exact (on_values_delete src_params). Qed.

(* ---------------- sequences of commands (by induction over the sequence) ---------------- *)
(* no sequence of env set / env rm commands ever panics, whatever the paths and values *)
Theorem C15_cli_run_total : forall ops t,
  wf_root t = true -> Forall op_wf ops -> run (cli_step src_params) ops t <> None.
Proof. exact (fun ops t => cli_run_total src_params ops t C15_src_params_ok). Qed.

(* ... and the stored definition stays well-formed *)
Theorem C15_cli_run_wellformed : forall ops t t',
  wf_root t = true -> Forall op_wf ops -> run (cli_step src_params) ops t = Some t' -> wf_root t' = true.
Proof. exact (fun ops t t' => cli_run_wf src_params ops t t' C15_src_params_ok). Qed.

(* a path none of the commands touches (no command path is above/below it, no rm shifts it) finds the same node
   after the whole sequence *)
Theorem C15_cli_run_frame : forall ops t t' q,
  wf_root t = true -> Forall op_wf ops -> run (cli_step src_params) ops t = Some t' ->
  Forall (fun o => cli_indep src_params o q) ops -> yget q t' = yget q t.
Proof. exact (fun ops t t' q => cli_run_frame src_params ops t t' q C15_src_params_ok C15_src_cli_params_ok). Qed.

(* a value that was set is still returned by get after any later commands that do not touch its path *)
Theorem C15_cli_run_get_set : forall p v t1 t2 ops t3,
  wf_root t1 = true -> wf v = true -> Forall op_wf ops ->
  env_set src_params p v t1 = Ok t2 -> run (cli_step src_params) ops t2 = Some t3 ->
  Forall (fun o => cli_indep src_params o (full_path p)) ops ->
  exists m, env_get p t3 = GFound m /\ denote m = denote v.
Proof.
  exact (fun p v t1 t2 ops t3 => cli_run_get_set src_params p v t1 t2 ops t3 C15_src_params_ok C15_src_cli_params_ok).
Qed.

(* the same for direct sequences of YAMLSyntax.Set / Delete calls *)
Theorem C15_api_run_total : forall ops t,
  wf_root t = true -> Forall op_wf ops -> run (api_step src_params) ops t <> None.
Proof. exact (fun ops t => api_run_total src_params ops t C15_src_params_ok). Qed.

Theorem C15_api_run_wellformed : forall ops t t',
  wf_root t = true -> Forall op_wf ops -> run (api_step src_params) ops t = Some t' -> wf_root t' = true.
Proof. exact (fun ops t t' => api_run_wf src_params ops t t' C15_src_params_ok). Qed.

Theorem C15_api_run_frame : forall ops t t' q,
  wf_root t = true -> Forall op_wf ops -> run (api_step src_params) ops t = Some t' ->
  Forall (fun o => api_indep o q) ops -> yget q t' = yget q t.
Proof. exact (fun ops t t' q => api_run_frame src_params ops t t' q C15_src_params_ok). Qed.

Theorem C15_api_run_get_set : forall p v t1 t2 ops t3,
  wf_root t1 = true -> wf v = true -> Forall op_wf ops ->
  yset src_params p v t1 = Ok t2 -> run (api_step src_params) ops t2 = Some t3 ->
  Forall (fun o => api_indep o p) ops ->
  exists m, yget p t3 = GFound m /\ denote m = denote v.
Proof. exact (fun p v t1 t2 ops t3 => api_run_get_set src_params p v t1 t2 ops t3 C15_src_params_ok). Qed.

(* ---------------- comments stay where yaml.v3 can write them ---------------- *)
(* [printable]: no block collection carries a line comment (yaml.v3 would write such a comment after the next entry
   of the parent, i.e. move it to an untouched key), and a key carries a line comment only if its value is a scalar
   or a non-empty block collection (with an empty collection yaml.v3 writes "key: # comment" and "{}" on the next
   line: the stored definition no longer parses).  (That parsed values and the definitions yaml.v3 writes back
   unchanged are in this class is a statement about yaml.v3: exercised by the correspondence check, not proved.)
   Every sequence of commands keeps the definition printable: Set turns the line comment of a
   scalar that is replaced by a block collection into the head comment of its first entry, Set/Delete move the line
   comment of a key whose value is no longer a non-empty block collection to the value (marking an empty collection
   flow), and `env rm` deletes from the root of the definition so that this also happens for the key "values". *)
Theorem C15_src_keeps_line_comments_printable : printable_params_ok src_params = true.
Proof. exact eq_refl. Qed.

Definition lc_move_ok : p_lc_move src_params = true := eq_refl.
Definition key_lc_ok_src : p_key_lc src_params = true := eq_refl.

Theorem C15_set_printable : forall p new n n',
  wf_root n = true -> wf new = true -> printable n = true -> printable new = true ->
  yset src_params p new n = Ok n' -> printable n' = true.
Proof. exact (fun p new n n' => set_printable src_params p new n n' set_ok lc_move_ok key_lc_ok_src). Qed.

Theorem C15_delete_printable : forall p n n',
  wf_root n = true -> printable n = true -> ydelete src_params p n = Ok n' -> printable n' = true.
Proof. exact (fun p n n' => delete_printable src_params p n n' key_lc_ok_src). Qed.

(* env set: although the key "values" is not repaired, it never needs to be: Set below a node leaves a non-empty
   collection of the style it had *)
Theorem C15_env_set_printable : forall p v root root',
  wf_root root = true -> wf v = true -> printable root = true -> printable v = true ->
  env_set src_params p v root = Ok root' -> printable root' = true.
Proof. exact (fun p v root root' => env_set_printable src_params p v root root' set_ok lc_move_ok key_lc_ok_src). Qed.

Theorem C15_cli_run_printable : forall ops t t',
  wf_root t = true -> printable t = true -> Forall op_printable ops ->
  run (cli_step src_params) ops t = Some t' -> printable t' = true.
Proof.
  exact (fun ops t t' => cli_run_printable src_params ops t t' set_ok C15_src_keeps_line_comments_printable).
Qed.

Theorem C15_api_run_printable : forall ops t t',
  wf_root t = true -> printable t = true -> Forall op_printable ops ->
  run (api_step src_params) ops t = Some t' -> printable t' = true.
Proof. exact (fun ops t t' => api_run_printable src_params ops t t' set_ok lc_move_ok key_lc_ok_src). Qed.

(* ---------------- the statements do fail for the code as it was before the repairs ---------------- *)
(* [old_params] = the facts srcfacts reads from the unrepaired yaml.go: Set does not copy the style, Delete has no
   guards.  (These are witnesses about the old code, not about the tree that is checked.)
   a: "str"  then  set a 123 : the quoted style stays, the stored scalar is the string "123" *)
Example C15_unrepaired_set_keeps_quotes :
  exists n n' new, yset old_params [AKey "a"] new n = Ok n' /\
    forall m, yget [AKey "a"] n' = GFound m -> denote m <> denote new.
Proof. exact old_set_keeps_quotes. Qed.

(* a: {x: 1}  then  rm b.c : index out of range;  rm with an empty path : index out of range *)
Example C15_unrepaired_delete_panics :
  ydelete old_params [AKey "b"; AKey "c"] (mapping [key_node "a"; mapping [key_node "x"; scalar "!!int" 0 "1"]]) = Panic
  /\ ydelete old_params [] (mapping []) = Panic.
Proof. exact old_delete_panics. Qed.

(* [rm_on_values_params] = the source after six repairs, `env rm` still calling Delete on the node under "values":
     values: # c
       a: 1
   then  env rm a : the definition is well-formed and printable, the command succeeds, and what it stores is not
   printable (the key "values" keeps "# c" over an empty mapping: yaml.v3 writes "values: # c" / "{}").  With the
   repair the comment moves to the empty mapping: "values: {} # c". *)
Example C15_unrepaired_rm_on_values_breaks_yaml :
  params_ok rm_on_values_params = true /\ wf_root values_lc_doc = true /\ printable values_lc_doc = true /\
  exists t', run (cli_step rm_on_values_params) [ORm [AKey "a"]] values_lc_doc = Some t' /\ printable t' = false.
Proof. exact rm_on_values_unprintable. Qed.

Example C15_repaired_rm_moves_values_comment :
  exists t', run (cli_step src_params) [ORm [AKey "a"]] values_lc_doc = Some t' /\ printable t' = true /\
             yget [AKey "values"] t' = GFound (Node KMap "!!map" 32 "" "" "# c" "" []).
Proof. exact rm_from_root_printable. Qed.

(* ---------------- non-vacuity: a concrete definition with comments and a sequence of five commands (set over a
   quoted scalar, --secret set creating intermediates, rm of a sequence element, rm below a missing key, set
   beyond the end of a sequence = refused): the hypotheses of the theorems hold, the sequence runs, get returns
   what was set, the sequence has lost its first element and the head comment of an untouched key is still there
   ([ex_doc], [ex_ops], [ex_statement] are spelled out in Proofs/YamlEditExamples.v) ---- *)
Example C15_example : ex_statement src_params.
Proof. exact (ex_holds src_params C15_src_params_ok). Qed.
