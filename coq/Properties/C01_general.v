(* Properties/C01_general.v — C01 "imports compose by ordered JSON merge patch" for ARBITRARY programs on the evaluator
   model (references, interpolation, every builtin, fn::open with the stub provider behaviours, secrets, ciphertexts,
   failing loads), not only literal worlds.  Only statements closed by [exact]; proofs in Proofs/C01General*.v.

   Reading guide
   * [jx c]: the exported JSON of a chain (xjson of export, fuel-free; C01g_jx_export).  Unknown values render as the string
     "[unknown]"; secret flags are not rendered.
   * [sval W fu rt n]: environment n opened ON ITS OWN, fst (eval_env W (fu n) (rt n) n dn st0).  By C10
     (MemoRelSound.Sound_unique) this is what the imports table holds for n in any run, for ANY fuel / root whose stand-alone
     run does not run out of fuel ([standalone_ok]).
   * [mvals W val is]: the values of the imports that are merge:true and loadable, in LISTING order, once per listing.
   * [own_layer c]: the top layer of the result, ONE known object layer whose keys are the declared non-reserved keys of
     the definition and whose children are the own values as evaluated over the merged base.
   * [groups_compat (own :: rev gs)]: decidable compatibility of each group with everything below it ([ccompat]); it fails
     only on the pattern object / non-object / object of the known finding C01-assoc (C01g_ccompat_false_class), where
     "non-object" includes UNKNOWN layers and layers brought along by a REFERENCE (C01g_hidden_cut: invisible in every
     exported value, confirmed on the Go implementation). *)
From Verif Require Import Base.Bytes Model.Chain Model.GoText Model.Envelope Model.Eval Corr.C01.
From Verif Require Import Proofs.ChainAlgebraSorted Proofs.ChainAlgebraExport Proofs.ChainAlgebra.
From Verif Require Proofs.MemoRelSound Proofs.MemoRelMain Proofs.EvalTotalBound.
From Verif Require Import Proofs.RefSemAccess Proofs.RefSemWf
  Proofs.C01GeneralChain Proofs.C01GeneralClass Proofs.C01GeneralEnv Proofs.C01GeneralMain.
From Coq Require Import Lia.
Local Open Scope nat_scope.

(* ================= 1. chains: export, cuts, the append law ================= *)
Theorem C01g_jx_export : forall (fx : nat) (c : chain) (v : xval), export fx c = Some v -> xjson v = jx c.
Proof. exact jx_export. Qed.

Theorem C01g_jx_wf : forall c : chain, csorted c = true -> jwf (jx c) = true.
Proof. exact jx_wf. Qed.

(* an UNKNOWN non-object layer (or the end of the chain) hides whatever follows it, although [property] walks through it *)
Theorem C01g_unknown_layer_cuts : forall (f : nat) (a t1 t2 : chain) (v1 v2 : xval),
  utailb t1 = true -> utailb t2 = true ->
  export f (a ++ t1) = Some v1 -> export f (a ++ t2) = Some v2 -> xjson v1 = xjson v2.
Proof. exact hide. Qed.

(* any non-object layer (known or unknown) hides what lies below it *)
Theorem C01g_nonobject_layer_cuts : forall (f : nat) (a : chain) (l : layer) (b1 b2 : chain) (v1 v2 : xval),
  is_lobj l = false ->
  export f (a ++ l :: b1) = Some v1 -> export f (a ++ l :: b2) = Some v2 -> xjson v1 = xjson v2.
Proof. exact same_cut. Qed.

Theorem C01g_below_nonobject_invisible : forall (f : nat) (g1 g2 : chain) (v v1 : xval),
  g1 <> [] -> ntailb g2 = true -> export f (g1 ++ g2) = Some v -> export f g1 = Some v1 -> xjson v = xjson v1.
Proof. exact app_ntail. Qed.

(* the append law on arbitrary (key-sorted) chains: appending = merge-patching the exported values *)
Theorem C01g_ccompat_sound : forall (n : nat) (g1 g2 : chain) (f : nat) (v v1 v2 : xval),
  ccompat_f n g1 g2 = true -> csorted g1 = true -> csorted g2 = true ->
  export f (g1 ++ g2) = Some v -> export f g1 = Some v1 -> export f g2 = Some v2 ->
  xjson v = mp' (xjson v2) (xjson v1).
Proof. exact ccompat_sound. Qed.

Theorem C01g_jx_app : forall g1 g2 : chain,
  csorted g1 = true -> csorted g2 = true -> ccompat g1 g2 = true -> jx (g1 ++ g2) = mp' (jx g2) (jx g1).
Proof. exact jx_app. Qed.

Theorem C01g_cabsorbs_sound : forall (n : nat) (h1 h2 : chain) (f : nat) (v1 v2 : xval),
  cabsorbs_f n h1 h2 = true -> csorted h1 = true -> csorted h2 = true ->
  export f h1 = Some v1 -> export f h2 = Some v2 -> mp' (xjson v2) (xjson v1) = xjson v1.
Proof. exact cabsorbs_sound. Qed.

(* the condition, unfolded *)
Theorem C01g_ccompat_unfold : forall (n : nat) (g1 g2 : chain),
  ccompat_f (S n) g1 g2 =
    match g1 with
    | [] => match g2 with [] => true | _ => false end
    | LObj _ u1 _ _ :: _ =>
        if u1 then true
        else match g2 with
             | LObj _ u2 _ _ :: _ =>
                 if u2 then false
                 else if allobj g1
                      then forallb (fun k => negb (smem k (keys g2)) || ccompat_f n (property k g1) (property k g2)) (keys g1)
                      else cabsorbs_f (S n) g1 g2
             | _ => true
             end
    | _ => true
    end.
Proof. exact ccompat_f_S. Qed.

(* it is a predicate, not an artefact of its fuel *)
Theorem C01g_ccompat_any_fuel : forall g1 g2 : chain, ccompat g1 g2 = true <-> exists n, ccompat_f n g1 g2 = true.
Proof. exact ccompat_any_fuel. Qed.

(* what it excludes: at some key path the upper group has a known object above a non-object layer (or faces an unknown
   object) while the lower group has an object layer; or an empty chain over a non-empty one (never built by the evaluator) *)
Theorem C01g_ccompat_false_class : forall g1 g2 : chain,
  ccompat g1 g2 = false ->
  exists p, let h1 := cprops p g1 in let h2 := cprops p g2 in
    (h1 = [] /\ h2 <> [])
    \/ (ctop_obj h1 = true /\ ctop_lobj h2 = true /\ (allobj h1 = false \/ ctop_unk h2 = true)).
Proof. exact ccompat_false_class'. Qed.

(* on chains of plain JSON layers it implies the exact condition of Properties/C01.v (C01_flat_merge_app) *)
Theorem C01g_jx_emb : forall js : list json, jx (map elayer js) = flat_merge js.
Proof. exact jx_emb. Qed.

Theorem C01g_ccompat_implies_compat : forall (n : nat) (g1 g2 : list json),
  Forall (fun j => jwfh n j = true) g1 -> Forall (fun j => jwfh n j = true) g2 -> g1 <> [] ->
  ccompat (map elayer g1) (map elayer g2) = true -> compat g1 g2 = true.
Proof. exact ccompat_implies_compat. Qed.

(* groups (top first) and the property's fold *)
Theorem C01g_jx_groups : forall tg : list chain,
  Forall (fun g => csorted g = true) tg -> groups_compat tg = true ->
  jx (concat tg) = fold_right (fun g acc => mp' acc (jx g)) junknown tg.
Proof. exact jx_groups. Qed.

Theorem C01g_jx_fold : forall (gs : list chain) (own : layer),
  Forall (fun g => csorted g = true) gs -> csorted [own] = true ->
  groups_compat ([own] :: rev gs) = true ->
  jx (own :: concat (rev gs)) = fold_left mp' (map jx gs ++ [jx [own]]) (JObj []).
Proof. exact jx_fold. Qed.

(* ================= 2. the evaluator ================= *)
(* STRUCTURE: own layer on the stand-alone chains of the merged imports, last listed first; merge:false and failing loads
   contribute nothing; a repeated import contributes once per listing; the own layer is one known object layer with the
   declared keys *)
Theorem C01g_structure : forall (W : world) (rank : string -> nat),
  w_fault W = None ->
  (forall n d im, env_of W n = Some d -> In im (ed_imports d) -> rank (fst im) < rank n) ->
  (forall n d, env_of W n = Some d -> no_context_reference d) ->
  forall (fuel : nat) (root name : string) (d : envdef) (fu : string -> nat) (rt : string -> string),
    env_of W name = Some d -> oof (snd (eval_env W fuel root name d st0)) = false -> standalone_ok W fu rt d ->
    let c := fst (eval_env W fuel root name d st0) in
    c = own_layer c ++ concat (rev (mvals W (sval W fu rt) (ed_imports d)))
    /\ exists props, own_layer c = [obj_layer props] /\ map fst props = own_keys d.
Proof. exact eval_env_structure. Qed.

(* C01 for arbitrary programs *)
Theorem C01g_general : forall (W : world) (rank : string -> nat),
  w_fault W = None ->
  (forall n d im, env_of W n = Some d -> In im (ed_imports d) -> rank (fst im) < rank n) ->
  (forall n d, env_of W n = Some d -> no_context_reference d) ->
  forall (fuel : nat) (root name : string) (d : envdef) (fu : string -> nat) (rt : string -> string),
    env_of W name = Some d -> oof (snd (eval_env W fuel root name d st0)) = false -> standalone_ok W fu rt d ->
    let c := fst (eval_env W fuel root name d st0) in
    let gs := mvals W (sval W fu rt) (ed_imports d) in
    groups_compat (own_layer c :: rev gs) = true ->
    jx c = fold_left mp' (map jx gs ++ [jx (own_layer c)]) (JObj []).
Proof. exact C01_general. Qed.

Theorem C01g_general_export : forall (W : world) (rank : string -> nat),
  w_fault W = None ->
  (forall n d im, env_of W n = Some d -> In im (ed_imports d) -> rank (fst im) < rank n) ->
  (forall n d, env_of W n = Some d -> no_context_reference d) ->
  forall (fuel : nat) (root name : string) (d : envdef) (fu : string -> nat) (rt : string -> string),
    env_of W name = Some d -> oof (snd (eval_env W fuel root name d st0)) = false -> standalone_ok W fu rt d ->
    let c := fst (eval_env W fuel root name d st0) in
    let gs := mvals W (sval W fu rt) (ed_imports d) in
    groups_compat (own_layer c :: rev gs) = true ->
    forall fx v, export fx c = Some v ->
      xjson v = fold_left mp' (map jx gs ++ [jx (own_layer c)]) (JObj [])
      /\ forall fj, x_depth v <= fj -> x_to_json fj v = fold_left mp' (map jx gs ++ [jx (own_layer c)]) (JObj []).
Proof. exact C01_general_export. Qed.

(* worlds without fn::toJSON / fn::fromJSON: "does not run out of fuel" follows from the text of the world
   (C07_fuel_suffices); the imports are opened with fuel [fu_bound W] and root "" *)
Theorem C01g_general_nojson : forall (W : world) (rank : string -> nat),
  w_fault W = None ->
  (forall n d im, env_of W n = Some d -> In im (ed_imports d) -> rank (fst im) < rank n) ->
  (forall n d, env_of W n = Some d -> no_context_reference d) ->
  forall (fuel : nat) (name : string) (d : envdef),
    env_of W name = Some d -> EvalTotalBound.world_no_json W d = true -> EvalTotalBound.fuel_bound W d <= fuel ->
    let c := fst (eval_env W fuel "" name d st0) in
    let gs := mvals W (sval W (fu_bound W) rt0) (ed_imports d) in
    groups_compat (own_layer c :: rev gs) = true ->
    jx c = fold_left mp' (map jx gs ++ [jx (own_layer c)]) (JObj []).
Proof. exact C01_general_nojson. Qed.

(* EVERY DEPTH: when every environment of the world opens on its own within its fuel and every node is compatible, the value
   of an environment is the NESTED fold: each merged import's value is in turn the fold of its own merged imports' values
   and its own layer (diamonds, repeated imports, any listing order) *)
Theorem C01g_general_deep : forall (W : world) (rank : string -> nat),
  w_fault W = None ->
  (forall n d im, env_of W n = Some d -> In im (ed_imports d) -> rank (fst im) < rank n) ->
  (forall n d, env_of W n = Some d -> no_context_reference d) ->
  forall (fu : string -> nat) (rt : string -> string),
    (forall n d, env_of W n = Some d -> oof (snd (eval_env W (fu n) (rt n) n d st0)) = false) ->
    (forall n d, env_of W n = Some d ->
       groups_compat (own_layer (sval W fu rt n) :: rev (mvals W (sval W fu rt) (ed_imports d))) = true) ->
    forall k n d, env_of W n = Some d -> rank n < k -> jx (sval W fu rt n) = deepfold W fu rt k n.
Proof. exact C01_general_deep. Qed.

Theorem C01g_deepfold_unfold : forall (W : world) (fu : string -> nat) (rt : string -> string) (k : nat) (n : string),
  deepfold W fu rt (S k) n =
    match env_of W n with
    | None => junknown
    | Some d => fold_left mp' (map (deepfold W fu rt k) (mnames W (ed_imports d)) ++ [jx (own_layer (sval W fu rt n))]) (JObj [])
    end.
Proof. reflexivity. Qed.

Theorem C01g_mvals_map : forall (W : world) (val : string -> chain) (is : list (string * bool)),
  mvals W val is = map val (mnames W is).
Proof. exact mvals_map. Qed.

(* every listed loadable import, merge:false included, is readable under imports.<x> as x opened on its own *)
Theorem C01g_imports_readable : forall (W : world) (rank : string -> nat),
  w_fault W = None ->
  (forall n d im, env_of W n = Some d -> In im (ed_imports d) -> rank (fst im) < rank n) ->
  (forall n d, env_of W n = Some d -> no_context_reference d) ->
  forall (fuel : nat) (root name : string) (d : envdef) (fu : string -> nat) (rt : string -> string),
    env_of W name = Some d -> oof (snd (eval_env W fuel root name d st0)) = false -> standalone_ok W fu rt d ->
    exists f' my sm,
      let base := concat (rev (mvals W (sval W fu rt) (ed_imports d))) in
      let E := env_ctx W (MemoRelSound.root_of root name) name d base my in
      eval_env W fuel root name d st0 = eval_expr W f' E (EObj (ec_values E)) false base (name, []) sm
      /\ forall x mg dx k, In (x, mg) (ed_imports d) -> env_of W x = Some dx ->
           value_access (S (S k)) (ec_imports E) [AName x] = (sval W fu rt x, 0%N)
           /\ value_access (S (S k)) (ec_imports E) [AKey x] = (sval W fu rt x, 0%N).
Proof. exact imports_readable. Qed.

Theorem C01g_standalone_ok_b_ok : forall W fu rt d, standalone_ok_b W fu rt d = true -> standalone_ok W fu rt d.
Proof. exact standalone_ok_b_ok. Qed.

(* ================= 3. the boundary ================= *)
(* the full intended statement is [C01_general_statement false]; with the compatibility hypothesis it is the theorem *)
Theorem C01g_statement_with_compat : C01_general_statement true.
Proof. exact C01_general_statement_compat. Qed.

Theorem C01g_full_statement_refuted : ~ C01_general_statement false.
Proof. exact C01_general_statement_refuted. Qed.

(* NEW CLASS (confirmed on Go): the cut of C01-assoc carried by a reference; two worlds whose imports export the same values
   and whose own layers are equal, with different results *)
Theorem C01g_hidden_cut :
  map jx (hc_gs hc_W1) = [JObj [("x", JObj [("b", JNum "2")])]; JObj [("x", JObj [("c", JNum "3")]); ("y", JObj [("c", JNum "3")])]]
  /\ map jx (hc_gs hc_W2) = map jx (hc_gs hc_W1)
  /\ jx (own_layer (hc_c hc_W1)) = JObj [] /\ jx (own_layer (hc_c hc_W2)) = JObj []
  /\ fold_left mp' (map jx (hc_gs hc_W1) ++ [jx (own_layer (hc_c hc_W1))]) (JObj [])
     = JObj [("x", JObj [("b", JNum "2"); ("c", JNum "3")]); ("y", JObj [("c", JNum "3")])]
  /\ jx (hc_c hc_W2) = JObj [("x", JObj [("b", JNum "2"); ("c", JNum "3")]); ("y", JObj [("c", JNum "3")])]
  /\ jx (hc_c hc_W1) = JObj [("x", JObj [("c", JNum "3")]); ("y", JObj [("c", JNum "3")])]
  /\ groups_compat (own_layer (hc_c hc_W1) :: rev (hc_gs hc_W1)) = false
  /\ groups_compat (own_layer (hc_c hc_W2) :: rev (hc_gs hc_W2)) = true
  /\ nerr (snd (eval_env hc_W1 40 "" "D" hc_D st0)) = 0%N /\ oof (snd (eval_env hc_W1 40 "" "D" hc_D st0)) = false.
Proof. exact hidden_cut. Qed.

Theorem C01g_values_condition_impossible :
  ~ exists P : list json -> json -> Prop,
      forall (W : world) (c : chain) (gs : list chain),
        (W = hc_W1 /\ c = hc_c hc_W1 /\ gs = hc_gs hc_W1) \/ (W = hc_W2 /\ c = hc_c hc_W2 /\ gs = hc_gs hc_W2) ->
        (P (map jx gs) (jx (own_layer c)) <-> jx c = fold_left mp' (map jx gs ++ [jx (own_layer c)]) (JObj [])).
Proof. exact C01_values_condition_impossible. Qed.

(* the known finding C01-assoc, through the general machinery *)
Theorem C01g_known_assoc :
  let c := fst (eval_env ka_W 40 "" "E" ka_E st0) in
  let gs := mvals ka_W (sval ka_W fu40 rt0) (ed_imports ka_E) in
  jx c = JObj [("x", JObj [("b", JNum "2")])]
  /\ fold_left mp' (map jx gs ++ [jx (own_layer c)]) (JObj []) = JObj [("x", JObj [("b", JNum "2"); ("c", JNum "3")])]
  /\ groups_compat (own_layer c :: rev gs) = false.
Proof. exact known_assoc. Qed.

(* an unknown layer (provider not opened while checking) is a non-object cut *)
Theorem C01g_unknown_cut :
  let c := fst (eval_env uk_W 40 "" "D" uk_D st0) in
  let gs := mvals uk_W (sval uk_W fu40 rt0) (ed_imports uk_D) in
  map jx gs = [JObj [("x", JObj [("b", JNum "2")])]; JObj [("x", JObj [("c", JNum "3")])]]
  /\ jx c = JObj [("x", JObj [("c", JNum "3")])]
  /\ fold_left mp' (map jx gs ++ [jx (own_layer c)]) (JObj []) = JObj [("x", JObj [("b", JNum "2"); ("c", JNum "3")])]
  /\ groups_compat (own_layer c :: rev gs) = false
  /\ nerr (snd (eval_env uk_W 40 "" "D" uk_D st0)) = 0%N.
Proof. exact unknown_cut. Qed.

(* ================= 4. non-vacuity: a world with references, interpolation, secret, provider, fn::toJSON, a diamond, a
   repeated import, a merge:false import read by name, a failing load ================= *)
Example C01g_example_hypotheses : forall check : bool,
  MemoRelMain.acyclic_b (g_W check) g_rank = true /\ MemoRelMain.no_context_b (g_W check) = true
  /\ oof (snd (eval_env (g_W check) 60 "" "Rt" g_Rt st0)) = false /\ standalone_ok_b (g_W check) fu40 rt0 g_Rt = true
  /\ groups_compat (own_layer (fst (eval_env (g_W check) 60 "" "Rt" g_Rt st0))
                    :: rev (mvals (g_W check) (sval (g_W check) fu40 rt0) (ed_imports g_Rt))) = true.
Proof. exact g_hyps. Qed.

Example C01g_example_groups :
  map jx (g_gs false) =
    [JObj [("a", JStr "v"); ("b", JStr "pre-v-post"); ("c", JStr "s3cr3t"); ("d", JObj [("in", JStr "v")]); ("k", JStr "v");
           ("l", JNum "1"); ("n", JNum "1"); ("o", JObj [("p", JNum "1"); ("q", JNum "1")])];
     JObj [("k", JStr "v"); ("n", JNum "1"); ("o", JObj [("p", JNum "1")])];
     JObj [("a", JStr "v"); ("b", JStr "pre-v-post"); ("c", JStr "s3cr3t"); ("d", JObj [("in", JStr "v")]); ("k", JStr "v");
           ("n", JNum "1"); ("o", JObj [("p", JNum "1"); ("q", JNum "1")])]]
  /\ jx (own_layer (g_c false)) =
       JObj [("d", JObj [("in", JStr "v"); ("lit", JBool true)]); ("j", JStr "{""p"":1,""q"":1}"); ("r", JStr "only-by-name");
             ("s", JStr "v")]
  /\ nerr (snd (eval_env (g_W false) 60 "" "Rt" g_Rt st0)) = 1%N.
Proof. exact g_groups. Qed.

Example C01g_example_Rt : forall fx v,
  export fx (fst (eval_env (g_W false) 60 "" "Rt" g_Rt st0)) = Some v ->
  xjson v = JObj [("a", JStr "v"); ("b", JStr "pre-v-post"); ("c", JStr "s3cr3t");
                  ("d", JObj [("in", JStr "v"); ("lit", JBool true)]); ("j", JStr "{""p"":1,""q"":1}"); ("k", JStr "v");
                  ("l", JNum "1"); ("n", JNum "1"); ("o", JObj [("p", JNum "1"); ("q", JNum "1")]);
                  ("r", JStr "only-by-name"); ("s", JStr "v")].
Proof. exact C01_general_Rt. Qed.

Example C01g_example_Rt_check : forall fx v,
  export fx (fst (eval_env (g_W true) 60 "" "Rt" g_Rt st0)) = Some v ->
  xjson v = JObj [("a", JStr "v"); ("b", JStr "pre-v-post"); ("c", JStr "s3cr3t");
                  ("d", JObj [("lit", JBool true)]); ("j", JStr "{""p"":1,""q"":1}"); ("k", JStr "v");
                  ("l", JNum "1"); ("n", JNum "1"); ("o", JObj [("p", JNum "1"); ("q", JNum "1")]);
                  ("r", JStr "only-by-name"); ("s", JStr "[unknown]")].
Proof. exact C01_general_Rt_check. Qed.

Example C01g_example_structure :
  g_c false = own_layer (g_c false) ++ sval (g_W false) fu40 rt0 "X" ++ sval (g_W false) fu40 rt0 "base" ++ sval (g_W false) fu40 rt0 "L"
  /\ length (g_c false) = 7.
Proof. exact g_structure. Qed.

Example C01g_example_imports_M : forall k,
  exists f' my sm,
    let base := concat (rev (g_gs false)) in
    let E := env_ctx (g_W false) "Rt" "Rt" g_Rt base my in
    eval_env (g_W false) 60 "" "Rt" g_Rt st0 = eval_expr (g_W false) f' E (EObj (ec_values E)) false base ("Rt", []) sm
    /\ value_access (S (S k)) (ec_imports E) [AName "M"] = (fst (eval_env (g_W false) 40 "" "M" g_M st0), 0%N).
Proof. exact g_imports_M. Qed.

Example C01g_example_deep :
  jx (sval (g_W false) fu40 rt0 "Rt") = deepfold (g_W false) fu40 rt0 4 "Rt"
  /\ deepfold (g_W false) fu40 rt0 4 "Rt"
     = JObj [("a", JStr "v"); ("b", JStr "pre-v-post"); ("c", JStr "s3cr3t");
             ("d", JObj [("in", JStr "v"); ("lit", JBool true)]); ("j", JStr "{""p"":1,""q"":1}"); ("k", JStr "v");
             ("l", JNum "1"); ("n", JNum "1"); ("o", JObj [("p", JNum "1"); ("q", JNum "1")]);
             ("r", JStr "only-by-name"); ("s", JStr "v")].
Proof. exact C01_general_deep_Rt. Qed.

Example C01g_example_nojson : forall fuel, 30 <= fuel ->
  jx (fst (eval_env hc_W2 fuel "" "D" hc_D st0)) = JObj [("x", JObj [("b", JNum "2"); ("c", JNum "3")]); ("y", JObj [("c", JNum "3")])].
Proof. exact C01_general_nojson_D. Qed.

(* the same value, computed by the model's observable run *)
Example C01g_example_run :
  option_map xjson (ob_value (run 60 (g_W false) "Rt" g_Rt))
  = Some (JObj [("a", JStr "v"); ("b", JStr "pre-v-post"); ("c", JStr "s3cr3t");
                ("d", JObj [("in", JStr "v"); ("lit", JBool true)]); ("j", JStr "{""p"":1,""q"":1}"); ("k", JStr "v");
                ("l", JNum "1"); ("n", JNum "1"); ("o", JObj [("p", JNum "1"); ("q", JNum "1")]);
                ("r", JStr "only-by-name"); ("s", JStr "v")]).
Proof. vm_compute. reflexivity. Qed.
