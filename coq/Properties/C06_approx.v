(* Properties/C06_approx.v — C06, central clause: checking soundly approximates opening.
   Statements only; proofs in Proofs/CheckApprox*.v.  (To be merged into Properties/C06.v.)

   Relations (Proofs/CheckApproxRel.v, CheckApproxKit.v, CheckApproxEval.v):
     ap_c c o     chains, check side [c] / open side [o]: an unknown SCALAR layer of [c] (what check puts where a provider
                  output, an undisclosed ciphertext or anything derived from them would be) faces ANY open chain, and so
                  does everything below it; every other layer of [c] faces a layer of the same constructor, flags,
                  payload / keys, with related children.  Schemas are not compared.
     ap_x c o     exported values: Prop form of Corr/C06.approx ([c] unknown; or equal known scalars incl. the secret
                  flag; or known arrays of equal length, pointwise; or known objects, every key of [c] in [o], related).
     srel_a       states: memo tables and import tables related entry by entry by ap_c (logs, call counters and
                  diagnostics are not related: they differ between the modes);  nof s : oof s = false;
     mrel_a R m1 m2  from related states, if both computations end with oof = false, results R-related, states related.
     W_co Wc Wo   same environments and execution context, w_check Wc = true, w_check Wo = false, no fault plan,
                  decrypters equal only if w_show Wc = true; PROVIDER TABLES NOT RELATED; no fn::toJSON in the
                  environments.  env_ntj d: no fn::toJSON in d. *)
From Verif Require Import Base.Bytes Base.Wire Model.Chain Model.GoText Model.Envelope Model.Eval Corr.EvalWire.
From Verif Require Corr.C06.
From Verif Require Import Proofs.NonInterferenceRel Proofs.NonInterferenceTwins
     Proofs.CheckApproxMono Proofs.CheckApproxRel Proofs.CheckApproxKit Proofs.CheckApproxEval
     Proofs.CheckApproxMain Proofs.CheckApproxExamples.

Notation ap_c := (chain_ap ap_l).

(* ---------------- the clause ---------------- *)
(* as stated (all programs): *)
Definition C06_check_approx_open_statement : Prop :=
  forall W show fuel name d,
    w_check W = false -> w_fault W = None ->
    ob_oof (run fuel (C06.with_mode W true show) name d) = false -> ob_oof (run fuel W name d) = false ->
    exists c o, ob_value (run fuel (C06.with_mode W true show) name d) = Some c /\ ob_value (run fuel W name d) = Some o /\
                ap_x c o /\ C06.approx (S (x_depth c)) c o = true.

(* FALSE of the model and of the implementation: cfg = {a: 1} merged over a provider output {b: 2} of an import,
   js = fn::toJSON ${cfg}: check reports js = "{""a"":1}" as KNOWN, open gives "{""a"":1,""b"":2}"; no diagnostics *)
Theorem C06_check_approx_open_refuted : ~ C06_check_approx_open_statement.
Proof. exact check_approx_open_refuted. Qed.

Example C06_tojson_witness :
  let oc := run 40 (C06.with_mode W_tj true false) "main" d_tj in
  let oo := run 40 W_tj "main" d_tj in
  ob_oof oc = false /\ ob_errors oc = false /\ ob_oof oo = false /\ ob_errors oo = false /\
  ob_value oc = Some (XObj false false [("cfg", XObj false false [("a", XScalar false false (SNum "1"))]);
                                        ("js", XScalar false false (SStr "{""a"":1}"))]) /\
  ob_value oo = Some (XObj false false [("cfg", XObj false false [("a", XScalar false false (SNum "1"));
                                                                   ("b", XScalar false false (SNum "2"))]);
                                        ("js", XScalar false false (SStr "{""a"":1,""b"":2}"))]).
Proof. exact tojson_witness. Qed.

(* PROVED for every program and world without fn::toJSON; both showSecrets settings; NO hypothesis on diagnostics
   (neither run has to be error-free); no fault plan *)
Theorem C06_check_approx_open_partial :
  forall W show fuel name d,
    w_check W = false -> w_fault W = None -> world_ntj W -> env_ntj d = true ->
    ob_oof (run fuel (C06.with_mode W true show) name d) = false -> ob_oof (run fuel W name d) = false ->
    exists c o, ob_value (run fuel (C06.with_mode W true show) name d) = Some c /\ ob_value (run fuel W name d) = Some o /\
                ap_x c o /\ C06.approx (S (x_depth c)) c o = true.
Proof. exact check_approx_open_partial. Qed.

(* general form: check world and open world may have unrelated providers and (without showSecrets) decrypters *)
Theorem C06_check_approx_open_worlds :
  forall Wc Wo fuel name d,
    W_co Wc Wo -> env_ntj d = true ->
    ob_oof (run fuel Wc name d) = false -> ob_oof (run fuel Wo name d) = false ->
    exists c o, ob_value (run fuel Wc name d) = Some c /\ ob_value (run fuel Wo name d) = Some o /\
                ap_x c o /\ C06.approx (S (x_depth c)) c o = true.
Proof. exact check_approx_open_co. Qed.

(* fault plans have to be excluded: the call counters of the two modes differ *)
Example C06_faults_break_approx :
  let oc := run 40 (C06.with_mode (W_demo (Some 3) "t0k" dec1) true false) "main" d_demo in
  let oo := run 40 (W_demo (Some 3) "t0k" dec1) "main" d_demo in
  ob_oof oc = false /\ ob_oof oo = false /\
  match ob_value oc, ob_value oo with
  | Some c, Some o => C06.approx (S (x_depth c)) c o = false /\
                      x_get [XKey "bkey"] c = Some (XScalar false false (SStr "from-b")) /\ x_get [XKey "bkey"] o = None
  | _, _ => False
  end.
Proof. exact faults_break_approx. Qed.

(* ---------------- unknown, not invented ---------------- *)
(* the Prop relation is the oracle's relation *)
Theorem C06_ap_x_approx : forall f c o, ap_x c o -> (x_depth c < f)%nat -> C06.approx f c o = true.
Proof. exact ap_x_approx. Qed.

(* a scalar check reports as known (reached through known composites) is there, equal, known, after opening *)
Theorem C06_known_scalar_preserved : forall p c o s x,
  ap_x c o -> x_get p c = Some (XScalar s false x) -> x_get p o = Some (XScalar s false x).
Proof. exact ap_x_get. Qed.

(* what check reports as known has the same value in ANY two open-mode worlds that share environments and
   execution context with the check world — whatever their providers return and their decrypters answer *)
Theorem C06_unknown_not_invented : forall Wc Wo1 Wo2 fuel name d,
  W_co Wc Wo1 -> W_co Wc Wo2 -> env_ntj d = true ->
  ob_oof (run fuel Wc name d) = false -> ob_oof (run fuel Wo1 name d) = false -> ob_oof (run fuel Wo2 name d) = false ->
  exists c o1 o2,
    ob_value (run fuel Wc name d) = Some c /\ ob_value (run fuel Wo1 name d) = Some o1 /\ ob_value (run fuel Wo2 name d) = Some o2 /\
    forall p s x, x_get p c = Some (XScalar s false x) ->
                  x_get p o1 = Some (XScalar s false x) /\ x_get p o2 = Some (XScalar s false x).
Proof. exact unknown_not_invented. Qed.

Theorem C06_two_open_worlds : forall W1 W2,
  w_envs W1 = w_envs W2 -> w_ctx W1 = w_ctx W2 -> w_check W1 = false -> w_check W2 = false ->
  w_fault W1 = None -> w_fault W2 = None -> world_ntj W1 ->
  W_co (C06.with_mode W1 true false) W1 /\ W_co (C06.with_mode W1 true false) W2.
Proof. exact two_open_worlds. Qed.

(* ---------------- value operations (for all inputs) ---------------- *)
Theorem C06_ap_append : forall a a' b b', ap_c a a' -> ap_c b b' -> ap_c (a ++ b) (a' ++ b').
Proof. exact ap_app. Qed.

Theorem C06_ap_property : forall k c o, ap_c c o -> ap_c (property k c) (property k o).
Proof. exact property_ap. Qed.

Theorem C06_ap_keys : forall c o, ap_c c o -> incl (keys c) (keys o).
Proof. exact keys_ap. Qed.

Theorem C06_ap_export : forall f c o xc xo, ap_c c o -> export f c = Some xc -> export f o = Some xo -> ap_x xc xo.
Proof. exact export_ap. Qed.

(* toString reads top layers only: unknown on the check side, or the same (string, unknown, secret) triple *)
Theorem C06_ap_to_string : forall f c o, ap_c c o ->
  snd (fst (to_string f c)) = true \/ to_string f c = to_string f o.
Proof. exact to_string_ap. Qed.

Theorem C06_ap_value_access : forall f c o accs, ap_c c o ->
  ap_c (fst (value_access f c accs)) (fst (value_access f o accs)).
Proof. exact value_access_ap. Qed.

(* ---------------- builtins, one step each ---------------- *)
Theorem C06_ap_join : forall dr dr' vr vr', tr_ap AccString AccString dr dr' -> tr_ap AccArrString AccArrString vr vr' ->
  mrel_a ap_c (join_tail dr vr) (join_tail dr' vr').
Proof. exact join_ap. Qed.

Theorem C06_ap_tob64 : forall r r', tr_ap AccString AccString r r' -> mrel_a ap_c (tob64_tail r) (tob64_tail r').
Proof. exact tob64_ap. Qed.

Theorem C06_ap_fromb64 : forall r r', tr_ap AccString AccString r r' -> mrel_a ap_c (fromb64_tail r) (fromb64_tail r').
Proof. exact fromb64_ap. Qed.

Theorem C06_ap_fromjson : forall r r', tr_ap AccString AccString r r' -> mrel_a ap_c (fromjson_tail r) (fromjson_tail r').
Proof. exact fromjson_ap. Qed.

Theorem C06_ap_tostring : forall v v', ap_c v v' -> mrel_a ap_c (tostring_tail v) (tostring_tail v').
Proof. exact tostring_ap. Qed.

(* ---------------- the simulation ---------------- *)
Theorem C06_fuel_mono : forall W f root name d s, nof (snd (eval_env W f root name d s)) -> nof s.
Proof. exact omono_eval_env. Qed.

Theorem C06_sim_invariant : forall Wc Wo, W_co Wc Wo -> forall f,
  Q_expr Wc Wo f /\ Q_repr Wc Wo f /\ Q_typed Wc Wo f /\ Q_access Wc Wo f /\ Q_walk Wc Wo f.
Proof. exact sim_invariant. Qed.

Theorem C06_sim_env : forall Wc Wo, W_co Wc Wo -> forall f root name d, env_ntj d = true ->
  mrel_a ap_c (eval_env Wc f root name d) (eval_env Wo f root name d).
Proof. exact sim_env. Qed.

(* ---------------- a concrete world ---------------- *)
Example C06_demo_runs :
  ob_value (run 40 (C06.with_mode (W_demo None "t0k" dec1) true false) "main" d_demo) = Some demo_check /\
  ob_value (run 40 (W_demo None "t0k" dec1) "main" d_demo) = Some demo_open /\
  ob_oof (run 40 (C06.with_mode (W_demo None "t0k" dec1) true false) "main" d_demo) = false /\
  ob_oof (run 40 (C06.with_mode (W_demo None "t0k" dec1) true true) "main" d_demo) = false /\
  ob_oof (run 40 (W_demo None "t0k" dec1) "main" d_demo) = false /\
  C06.approx 4 demo_check demo_open = true.
Proof. exact demo_runs. Qed.

Example C06_demo_instance : forall show,
  approx_concl (run 40 (C06.with_mode (W_demo None "t0k" dec1) true show) "main" d_demo)
               (run 40 (W_demo None "t0k" dec1) "main" d_demo).
Proof. exact demo_instance. Qed.

Example C06_demo_not_invented :
  exists c o1 o2,
    ob_value (run 40 (C06.with_mode (W_demo None "t0k" dec1) true false) "main" d_demo) = Some c /\
    ob_value (run 40 (W_demo None "t0k" dec1) "main" d_demo) = Some o1 /\
    ob_value (run 40 (W_demo None "other" dec2) "main" d_demo) = Some o2 /\
    forall p s x, x_get p c = Some (XScalar s false x) ->
                  x_get p o1 = Some (XScalar s false x) /\ x_get p o2 = Some (XScalar s false x).
Proof. exact demo_not_invented. Qed.

(* ---------------- schema soundness: the intended statement and one computed instance; it is REFUTED, and proved outside a
   decidable class, in Properties/C06_schema.v ---------------- *)
Definition C06_schema_sound_statement : Prop := schema_sound_statement.

Example C06_demo_schema :
  top_sch (fst (eval_env (C06.with_mode (W_demo None "t0k" dec1) true false) 40 "" "main" d_demo st0)) =
  ScObject [("bkey", ScType "string");
            ("cfg", ScObject [("extra", ScType "string"); ("token", ScType "string")] None);
            ("hello", ScType "string");
            ("lst", ScArray [ScType "string"; ScType "string"] (Some ScNever));
            ("pw", ScType "string"); ("tok", ScType "string"); ("up", ScType "string")] None
  /\ sch_accepts 6 (ScObject [("bkey", ScType "string");
            ("cfg", ScObject [("extra", ScType "string"); ("token", ScType "string")] None);
            ("hello", ScType "string");
            ("lst", ScArray [ScType "string"; ScType "string"] (Some ScNever));
            ("pw", ScType "string"); ("tok", ScType "string"); ("up", ScType "string")] None) demo_open = true.
Proof. exact demo_schema. Qed.
