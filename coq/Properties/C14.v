(* Properties/C14.v — Read-modify-write commands never lose a concurrent update.
   Only statements closed by [exact]; the proofs live in Proofs/OccProofs.v.

   Model (Model/Occ.v): a store (definition, revision); a read-modify-write command is a Read (definition + the tag
   of the current revision) followed by a Write of [edit def_read] carrying a tag; the backend accepts a write iff
   it carries no tag or the tag of the current revision (the service's rule).  A schedule is a list of command
   indices (the k-th occurrence of i is command i's k-th step): every list is a schedule respecting the per-command
   order and every interleaving is such a list.  "Prior histories" = the arbitrary initial store (any definition,
   any revision).  Blind writers ([Blind], e.g. `env edit --file`) may be interleaved too: "other writers". *)
From Verif Require Import Base.Bytes Model.Occ Src.SrcOcc Model.OccSrc Proofs.OccProofs.

(* ---- side conditions on the facts read from the Go source on this run, discharged by computation ---- *)

(* client.go: GetEnvironment returns the ETag response header; UpdateEnvironmentWithRevision sends its tag parameter
   as the ETag request header; UpdateEnvironmentWithProject forwards its tag parameter *)
Theorem C14_src_client_forwards_tag :
  occ_etag_header = "ETag" /\ occ_get_returns_etag = true /\ occ_update_sends_tag = true
  /\ occ_update_with_project_forwards_tag = true.
Proof. exact (conj eq_refl (conj eq_refl (conj eq_refl eq_refl))). Qed.

(* env_set.go, env_rm.go, env_edit.go: every update outside the `--file` branch passes the tag obtained from
   GetEnvironment in the same command *)
Theorem C14_src_commands_send_read_tag : pol_set = SendRead /\ pol_rm = SendRead /\ pol_edit = SendRead.
Proof. exact (conj eq_refl (conj eq_refl eq_refl)). Qed.

(* ---- the property: ANY definitions type, ANY number of commands with ANY edits, EVERY schedule, EVERY prior
   history, with blind writers in between ---- *)
Theorem C14_no_lost_update :
  forall (D : Type) (cmds : list (command D)),
    Forall (fun c => match c with RMW _ SendEmpty => False | _ => True end) cmds ->  (* each command sends the tag it read *)
    forall (init : store D) (sched : list nat),
      let fin := run cmds sched (init_state cmds init) in
      (* every update the backend saw was rejected and changed nothing, or was the command's edit of the definition
         current at that moment (with the revision advanced by one) *)
      Forall (event_ok cmds) (st_trace fin)
      (* the final definition is the fold, in write order, of the edits of the commands in the log ... *)
      /\ s_def (st_store fin) = replay cmds (st_log fin) (s_def init)
      (* ... which are, once each, exactly the commands that reported success *)
      /\ NoDup (st_log fin)
      /\ (forall i, In i (st_log fin) <-> nth_error (st_ph fin) i = Some (PDone OOk)).
Proof. exact no_lost_update. Qed.

(* the same, per step: in any state reachable under any schedule, the write step of a read-modify-write command
   ends in conflict with the store unchanged, or installs its edit of the LATEST definition, or the command ends
   for another reason (nothing to write / error) with the store unchanged *)
Theorem C14_write_step_safe :
  forall (D : Type) (cmds : list (command D)),
    Forall (@tagged D) cmds ->
    forall (init : store D) (sched : list nat) (i : nat) (edit : D -> eres D) (pol : policy) (d : D) (r : N),
      let st := run cmds sched (init_state cmds init) in
      nth_error cmds i = Some (RMW edit pol) ->
      nth_error (st_ph st) i = Some (PRead d r) ->
      let st' := step cmds i st in
      (nth_error (st_ph st') i = Some (PDone OConflict) /\ st_store st' = st_store st)
      \/ (exists d', nth_error (st_ph st') i = Some (PDone OOk) /\ edit (s_def (st_store st)) = EUpd d'
                     /\ st_store st' = mkStore d' (s_rev (st_store st) + 1))
      \/ ((exists o, o <> OOk /\ o <> OConflict /\ nth_error (st_ph st') i = Some (PDone o))
          /\ st_store st' = st_store st).
Proof. exact write_step_safe. Qed.

(* the CLI commands as the Go source has them today: any number of `env set` / `env rm <path>` / interactive
   `env edit` (and `env edit --file` as blind writers), every schedule, every prior history *)
Theorem C14_no_lost_update_cli :
  forall (ops : list op) (init : store tree) (sched : list nat),
    let cmds := map cli_command ops in
    let fin := run cmds sched (init_state cmds init) in
    Forall (event_ok cmds) (st_trace fin)
    /\ s_def (st_store fin) = replay cmds (st_log fin) (s_def init)
    /\ NoDup (st_log fin)
    /\ (forall i, In i (st_log fin) <-> nth_error (st_ph fin) i = Some (PDone OOk)).
Proof. exact (no_lost_update_cli C14_src_commands_send_read_tag). Qed.

(* if a command may send an empty tag, the statement is false (why `env edit --file` is outside the property, and why
   dropping the tag anywhere is data loss) *)
Theorem C14_empty_tag_loses_update_refuted : ~ occ_statement N (fun _ => True).
Proof. exact empty_tag_loses_update_refuted. Qed.

(* ---- non-vacuity on concrete data ---- *)
Definition ex_doc : tree := TNode [("values", TNode [("a", TLeaf "v0")])].
Definition ex_ops : list op := [OpSet ["b"] (TLeaf "v1"); OpRm ["a"]; OpEdit "c" "w"].

(* three commands, both readers read revision 7 before the first write: the first writer wins, the second is told
   "conflict", the third (which read afterwards) is applied on top *)
Example C14_example_conflict :
  let cmds := map cli_command ex_ops in
  let fin := run cmds [0; 1; 0; 1; 2; 2]%nat (init_state cmds (mkStore ex_doc 7)) in
  st_ph fin = [PDone OOk; PDone OConflict; PDone OOk]
  /\ st_log fin = [0; 2]%nat
  /\ st_store fin = mkStore (TNode [("values", TNode [("a", TLeaf "v0"); ("b", TLeaf "v1"); ("c", TLeaf "w")])]) 9.
Proof. exact (conj eq_refl (conj eq_refl eq_refl)). Qed.

(* the same two first commands with the tag dropped: both report success and `b` is gone *)
Example C14_example_lost_update_without_tag :
  let cmds := map (command_of SendEmpty SendEmpty SendEmpty) ex_ops in
  let fin := run cmds [0; 1; 0; 1]%nat (init_state cmds (mkStore ex_doc 7)) in
  st_ph fin = [PDone OOk; PDone OOk; PIdle]
  /\ s_def (st_store fin) = TNode [("values", TNode [])]
  /\ replay cmds (st_log fin) ex_doc = TNode [("values", TNode [("b", TLeaf "v1")])].
Proof. exact (conj eq_refl (conj eq_refl eq_refl)). Qed.
