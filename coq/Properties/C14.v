(* Properties/C14.v — Read-modify-write commands never lose a concurrent update.
   Only statements closed by [exact]; the proofs live in Proofs/OccProofs.v.

   Model (Model/Occ.v): a store (definition, revision); a read-modify-write command is a Read (definition + the tag
   of the current revision) followed by a Write of [edit def_read] carrying a tag; the backend accepts a write iff
   it carries no tag or the tag of the current revision (the service's rule).  A schedule is a list of (command
   index, fault): the k-th occurrence of i is command i's k-th step, so every list is a schedule respecting the
   per-command order and every interleaving is such a list.  The fault says what the backend does if that step is an
   update: nothing special, "commit (if the tag rule allows) but the reply is lost" (5xx / dropped connection), or
   "refuse with diagnostics, commit nothing" (after which the interactive edit saves again - the text of its next
   round, with the tag it read at the start - as long as the person presses ENTER).  "Prior histories" = the
   arbitrary initial store (any definition, any revision).  Blind writers ([Blind], e.g. `env edit --file`) may be
   interleaved too: "other writers". *)
From Verif Require Import Base.Bytes Model.Occ Src.SrcOcc Model.OccSrc Proofs.OccProofs.

(* ---- side conditions on the facts read from the Go source on this run, discharged by computation ---- *)

(* client.go: GetEnvironment returns the ETag response header; UpdateEnvironmentWithRevision sends its tag parameter
   as the ETag request header; UpdateEnvironmentWithProject forwards its tag parameter *)
Theorem C14_src_client_forwards_tag :
  occ_etag_header = "ETag" /\ occ_get_returns_etag = true /\ occ_update_sends_tag = true
  /\ occ_update_with_project_forwards_tag = true.
Proof. exact (conj eq_refl (conj eq_refl (conj eq_refl eq_refl))). Qed.

(* env_set.go, env_rm.go, env_edit.go: every update outside the `--file` branch passes the tag obtained from
   GetEnvironment in the same command *)
Theorem C14_src_commands_send_read_tag : pol_set = SendRead /\ pol_rm = SendRead /\ pol_edit = SendRead.
Proof. exact (conj eq_refl (conj eq_refl eq_refl)). Qed.

(* retry.go (shouldRetry decides on policy and verb alone; the table and the policy of UpdateEnvironmentWithRevision
   as read for C20): an update whose reply was lost is NOT sent again *)
Theorem C14_src_update_not_replayed : occ_should_retry_exact = true /\ update_replayed = false.
Proof. exact (conj eq_refl eq_refl). Qed.

(* ---- the property: ANY definitions type, ANY number of commands with ANY edits, EVERY schedule with EVERY
   placement of faults, EVERY prior history, with blind writers in between ---- *)
Theorem C14_no_lost_update :
  forall (D : Type) (cmds : list (command D)),
    (* each command sends the tag it read, and does not send an update twice *)
    Forall (fun c => match c with RMW _ SendRead _ false => True | RMW _ _ _ _ => False | Blind _ => True end) cmds ->
    forall (init : store D) (sched : list (nat * fault)),
      let fin := run cmds sched (init_state cmds init) in
      (* every update the backend saw was not committed and changed nothing, or was the command's edit of the
         definition current at that moment (with the revision advanced by one) *)
      Forall (event_ok cmds) (st_trace fin)
      (* the final definition is the fold, in commit order, of the edits of the commands in the log ... *)
      /\ s_def (st_store fin) = replay cmds (st_log fin) (s_def init)
      (* ... no command committed twice ... *)
      /\ NoDup (committed fin)
      (* ... every command that reported success is in it ... *)
      /\ (forall i, nth_error (st_ph fin) i = Some (PDone OOk) -> In i (committed fin))
      (* ... and a command in it reported success, or the reply to its update was lost (a plain error: it cannot know);
         in particular a command that reported a conflict changed nothing *)
      /\ (forall i, In i (committed fin) ->
                    nth_error (st_ph fin) i = Some (PDone OOk) \/ nth_error (st_ph fin) i = Some (PDone OLost)).
Proof. exact no_lost_update. Qed.

Theorem C14_conflict_changed_nothing :
  forall (D : Type) (cmds : list (command D)),
    Forall (@tagged D) cmds ->
    forall (init : store D) (sched : list (nat * fault)) (i : nat) (o : outcome),
      let fin := run cmds sched (init_state cmds init) in
      nth_error (st_ph fin) i = Some (PDone o) -> o <> OOk -> o <> OLost -> ~ In i (committed fin).
Proof. exact conflict_changed_nothing. Qed.

(* the same, per step: in any state reachable under any schedule, the write step of a read-modify-write command,
   under any fault, leaves the store unchanged and does not end in success (conflict / refused / reply lost / nothing
   to write / error), or installs its edit of the LATEST definition and ends in success or "reply lost" *)
Theorem C14_write_step_safe :
  forall (D : Type) (cmds : list (command D)),
    Forall (@tagged D) cmds ->
    forall (init : store D) (sched : list (nat * fault)) (i : nat) (f : fault)
           (edit : nat -> D -> eres D) (pol : policy) (enters : nat) (rp : bool) (d : D) (r : N) (k : nat),
      let st := run cmds sched (init_state cmds init) in
      nth_error cmds i = Some (RMW edit pol enters rp) ->
      nth_error (st_ph st) i = Some (PRead d r k) ->
      let st' := step cmds (i, f) st in
      (st_store st' = st_store st /\ nth_error (st_ph st') i <> Some (PDone OOk))
      \/ (exists d', edit k (s_def (st_store st)) = EUpd d'
                     /\ st_store st' = mkStore d' (s_rev (st_store st) + 1)
                     /\ (nth_error (st_ph st') i = Some (PDone OOk) \/ nth_error (st_ph st') i = Some (PDone OLost))).
Proof. exact write_step_safe. Qed.

(* the CLI commands as the Go source has them today: any number of `env set` / `env rm <path>` / interactive
   `env edit` with any number of ENTER presses (and `env edit --file` as blind writers), every schedule, every
   placement of faults, every prior history *)
Theorem C14_no_lost_update_cli :
  forall (ops : list op) (init : store tree) (sched : list (nat * fault)),
    let cmds := map cli_command ops in
    let fin := run cmds sched (init_state cmds init) in
    Forall (event_ok cmds) (st_trace fin)
    /\ s_def (st_store fin) = replay cmds (st_log fin) (s_def init)
    /\ NoDup (committed fin)
    /\ (forall i, nth_error (st_ph fin) i = Some (PDone OOk) -> In i (committed fin))
    /\ (forall i, In i (committed fin) ->
                  nth_error (st_ph fin) i = Some (PDone OOk) \/ nth_error (st_ph fin) i = Some (PDone OLost)).
Proof. exact (no_lost_update_cli C14_src_commands_send_read_tag (proj2 C14_src_update_not_replayed)). Qed.

(* if a command may send an empty tag, the statement is false (why `env edit --file` is outside the property, and why
   dropping the tag anywhere is data loss) *)
Theorem C14_empty_tag_loses_update_refuted :
  ~ occ_statement N (fun c => match c with RMW _ _ _ true => False | _ => True end).
Proof. exact empty_tag_loses_update_refuted. Qed.

(* if the client sends an update again after a lost reply, the statement is false even though every command sends
   the tag it read: the command reports a conflict and its change is in the definition *)
Theorem C14_replay_after_lost_reply_refuted :
  ~ occ_statement N (fun c => match c with RMW _ SendEmpty _ _ => False | _ => True end).
Proof. exact replay_after_lost_reply_refuted. Qed.

(* ---- non-vacuity on concrete data ---- *)
Definition ex_doc : tree := TNode [("values", TNode [("a", TLeaf "v0")])].
Definition ex_ops : list op := [OpSet ["b"] (TLeaf "v1"); OpRm ["a"]; OpEdit "c" "w" false 1].

(* three commands, both readers read revision 7 before the first write: the first writer wins, the second is told
   "conflict", the third (which read afterwards) is applied on top *)
Example C14_example_conflict :
  let cmds := map cli_command ex_ops in
  let fin := run cmds (no_faults [0; 1; 0; 1; 2; 2]%nat) (init_state cmds (mkStore ex_doc 7)) in
  st_ph fin = [PDone OOk; PDone OConflict; PDone OOk]
  /\ st_log fin = [(0, 0); (2, 0)]%nat
  /\ st_store fin = mkStore (TNode [("values", TNode [("a", TLeaf "v0"); ("b", TLeaf "v1"); ("c", TLeaf "w")])]) 9.
Proof. exact (conj eq_refl (conj eq_refl eq_refl)). Qed.

(* faults: the edit's first save is refused with diagnostics, `set b` commits meanwhile but its reply is lost (it ends
   with a plain error and IS in the log), the edit's second save (ENTER, same tag) is then told "conflict" *)
Example C14_example_faults :
  let cmds := map cli_command ex_ops in
  let fin := run cmds [(2, FNone); (2, FReject); (0, FNone); (0, FLost); (2, FNone)]%nat
                 (init_state cmds (mkStore ex_doc 7)) in
  st_ph fin = [PDone OLost; PIdle; PDone OConflict]
  /\ st_log fin = [(0, 0)]%nat
  /\ st_store fin = mkStore (TNode [("values", TNode [("a", TLeaf "v0"); ("b", TLeaf "v1")])]) 8.
Proof. exact (conj eq_refl (conj eq_refl eq_refl)). Qed.

(* the same two first commands with the tag dropped: both report success and `b` is gone *)
Example C14_example_lost_update_without_tag :
  let cmds := map (command_of SendEmpty SendEmpty SendEmpty false) ex_ops in
  let fin := run cmds (no_faults [0; 1; 0; 1]%nat) (init_state cmds (mkStore ex_doc 7)) in
  st_ph fin = [PDone OOk; PDone OOk; PIdle]
  /\ s_def (st_store fin) = TNode [("values", TNode [])]
  /\ replay cmds (st_log fin) ex_doc = TNode [("values", TNode [("b", TLeaf "v1")])].
Proof. exact (conj eq_refl (conj eq_refl eq_refl)). Qed.

(* a replaying client: `set b` is committed, its reply lost, the second sending is refused: "conflict", yet b is there *)
Example C14_example_replay_reports_conflict_after_commit :
  let cmds := map (command_of SendRead SendRead SendRead true) ex_ops in
  let fin := run cmds [(0, FNone); (0, FLost); (0, FNone)]%nat (init_state cmds (mkStore ex_doc 7)) in
  st_ph fin = [PDone OConflict; PIdle; PIdle]
  /\ st_log fin = [(0, 0)]%nat
  /\ s_def (st_store fin) = TNode [("values", TNode [("a", TLeaf "v0"); ("b", TLeaf "v1")])].
Proof. exact (conj eq_refl (conj eq_refl eq_refl)). Qed.
