(* Properties/C06_src.v — side conditions of C06 on the SOURCE of the evaluator: the behaviour tables that
   harness/cmd/srcfacts/evalcore.go reads out of eval/value.go, eval/eval.go, eval/crypt.go and environment.go on every run
   (coq/Src/SrcEval.v) are the ones the models Model/Chain.v / Model/Eval.v were written against (Proofs/EvalSrc.v, where
   each table is listed next to the model definition it is the source of).  What C06 rests on: Open is unreachable while validating, Decrypt is unreachable while validating without showSecrets, and the unknown flag is joined everywhere a value is computed from others.
   Statements only, closed by [exact]; decided by computation. *)
From Verif Require Import Base.Bytes Src.SrcEval Proofs.EvalSrc Proofs.EvalSrcOpen Proofs.EvalSrcSecret Proofs.EvalSrcCombine Proofs.EvalSrcContains Proofs.EvalSrcBuiltins.

Theorem C06_src_open_gate : eval_src_open_ok = true.
Proof. exact eval_src_open_ok_true. Qed.

Theorem C06_src_secret_builtin : eval_src_secret_ok = true.
Proof. exact eval_src_secret_ok_true. Qed.

Theorem C06_src_taint_join : eval_src_combine_ok = true.
Proof. exact eval_src_combine_ok_true. Qed.

Theorem C06_src_contains_flags : eval_src_contains_ok = true.
Proof. exact eval_src_contains_ok_true. Qed.

Theorem C06_src_builtins : eval_src_builtins_ok = true.
Proof. exact eval_src_builtins_ok_true. Qed.
