(* Properties/C08_gate.v — the two models of the provider-input gate are tied: the evaluator model's
   [validate (AccIn insch)] (Model/Eval.v) is the instance of C08's specification [vspec] and validator mirror
   [vimpl] / [gate_impl] (Model/Validate.v) on the schema [schema_of_in insch] and the value [json_of_x xin].
   Statements only; proofs in Proofs/GateLink*.v.

   schema_of_in InAlways                        = `true`
   schema_of_in (InRecord props required closed) = {type: object, properties: {k: {type: ty}}, required,
                                                    additionalProperties: false when closed}
                 (a type name outside JSON's six matches nothing: the `false` schema)
   json_of_x : exported inputs as JSON (flags dropped); a numeral whose text is the canonical literal of an integer z
               is [JNum z 0], any other spelling gets a non-canonical form (excluded by C08's [value_integral]).
   in_wf insch : property names declared once (C08's [compiled]; Go map / JSON object).
   All schemas of the family are $ref-free: the $defs [D] is arbitrary and every fuel >= 2 gives a verdict. *)
From Verif Require Import Base.Bytes Model.Chain Model.GoText Model.Envelope Model.Eval.
From Verif Require Model.Schema Model.Validate Src.SrcValidate.
From Verif Require Corr.C05 Properties.C08.
From Verif Require Import Proofs.GateLinkDefs Proofs.GateLinkSpec Proofs.GateLinkEval.
From Verif Require Proofs.EvalTotalFail.

(* ---- (2) the evaluator's gate decides exactly as JSON Schema prescribes on this family ---- *)
Theorem C08_evaluator_gate_is_instance : forall re D f (insch : in_schema) (iv : chain) (xin : xval),
  in_wf insch = true -> export_t iv = Some xin -> x_has_unknown xin = false ->
  Validate.vspec re D (S (S f)) (schema_of_in insch) (json_of_x xin) = Some (fst (validate (AccIn insch) iv)).
Proof. exact evaluator_gate_is_instance. Qed.

(* through the oracle of Corr/C05.v, in both directions *)
Theorem C08_gate_implies_oracle_valid : forall (insch : in_schema) (iv : chain) (xin : xval),
  fst (validate (AccIn insch) iv) = true -> export_t iv = Some xin -> x_has_unknown xin = false ->
  C05.x_valid insch xin = true.
Proof. exact Proofs.EvalLog2Valid.gate_implies_oracle_valid. Qed.

Theorem C08_oracle_valid_implies_gate : forall (insch : in_schema) (iv : chain) (xin : xval),
  in_wf insch = true -> export_t iv = Some xin -> x_has_unknown xin = false ->
  C05.x_valid insch xin = true -> fst (validate (AccIn insch) iv) = true.
Proof. exact oracle_valid_implies_gate. Qed.

Theorem C08_gate_is_oracle : forall (insch : in_schema) (iv : chain) (xin : xval),
  in_wf insch = true -> export_t iv = Some xin -> x_has_unknown xin = false ->
  fst (validate (AccIn insch) iv) = C05.x_valid insch xin.
Proof. exact gate_is_oracle. Qed.

(* the oracle IS JSON Schema on this family (no side condition at all) *)
Theorem C08_oracle_is_vspec : forall re D f insch xin,
  Validate.vspec re D (S (S f)) (schema_of_in insch) (json_of_x xin) = Some (C05.x_valid insch xin).
Proof. exact vspec_family. Qed.

(* ---- against the validator mirror with the parameters the Go source has today ---- *)
Theorem C08_evaluator_gate_is_vimpl_instance : forall re D f (insch : in_schema) (iv : chain) (xin : xval),
  in_wf insch = true -> export_t iv = Some xin -> x_has_unknown xin = false ->
  exists d, Validate.vimpl C08.src_params re D (S (S f)) (schema_of_in insch) (json_of_x xin)
            = Some (fst (validate (AccIn insch) iv), d).
Proof. exact (evaluator_gate_is_vimpl C08.src_params). Qed.

(* the same obtained from C08's main theorem: its side conditions on the SCHEMA hold on the whole family, those on
   the VALUE (canonical integral numerals, unique object keys) are hypotheses *)
Theorem C08_family_side_conditions : forall insch, in_wf insch = true ->
  Schema.compiled [] (schema_of_in insch) = true
  /\ Schema.in_vocabulary [] (schema_of_in insch) = true
  /\ Schema.schema_integral [] (schema_of_in insch) = true.
Proof. exact (fun insch H => conj (family_compiled insch H) (conj (family_in_vocabulary insch) (family_schema_integral insch))). Qed.

Theorem C08_evaluator_gate_via_validate_agrees : forall re f (insch : in_schema) (iv : chain) (xin : xval),
  in_wf insch = true -> export_t iv = Some xin -> x_has_unknown xin = false ->
  Schema.value_integral (json_of_x xin) = true -> Schema.value_wf (json_of_x xin) = true ->
  exists d, Validate.vimpl C08.src_params re [] (S (S f)) (schema_of_in insch) (json_of_x xin)
            = Some (fst (validate (AccIn insch) iv), d).
Proof.
  exact (fun re f insch iv xin =>
           evaluator_gate_via_validate_agrees C08.src_params re f insch iv xin
             (proj1 C08.C08_src_params_ok) (proj1 (proj2 C08.C08_src_params_ok))).
Qed.

(* ---- (3) diagnostics ---- *)
(* evaluator model, EVERY chain (unknowns allowed) *)
Theorem C08_gate_accept_no_diag : forall (insch : in_schema) (iv : chain),
  fst (validate (AccIn insch) iv) = true -> snd (validate (AccIn insch) iv) = 0.
Proof. exact validate_accept_no_diag. Qed.

Theorem C08_gate_reject_has_diag : forall (insch : in_schema) (iv : chain),
  fst (validate (AccIn insch) iv) = false -> contains_unknowns iv = false -> 1 <= snd (validate (AccIn insch) iv).
Proof. exact validate_reject_has_diag. Qed.

Theorem C08_gate_zero_iff_accepted : forall (insch : in_schema) (iv : chain),
  contains_unknowns iv = false -> (snd (validate (AccIn insch) iv) =? 0) = fst (validate (AccIn insch) iv).
Proof. exact validate_zero_iff_accepted. Qed.

(* the rejections without diagnostic.  Outside the decidable class [EvalTotalFail.never_arg] (the inputs themselves, or the
   value of a declared property, are an UNKNOWN of schema `false`: rejected by validateSchemaType without reporting,
   eval_validate.go:191-193) the only one is: a known object, nothing missing, an undeclared key of a CLOSED record, and an
   unknown somewhere inside (the repaired silent rejection reports only for concrete inputs).  Without the class the
   statement is false (_refuted: an OPEN record, unknown inputs of schema `false`); _exact characterises all of them. *)
Theorem C08_gate_silent_corner_refuted :
  exists props required closed iv,
    validate (AccIn (InRecord props required closed)) iv = (false, 0) /\ closed = false
    /\ (forall sec unk sc ps rest, iv <> LObj sec unk sc ps :: rest)
    /\ EvalTotalFail.never_arg (AccIn (InRecord props required closed)) iv = true.
Proof. exact validate_silent_corner_refuted. Qed.

Theorem C08_gate_silent_corner_partial : forall props required closed (iv : chain),
  EvalTotalFail.never_arg (AccIn (InRecord props required closed)) iv = false ->
  validate (AccIn (InRecord props required closed)) iv = (false, 0) ->
  contains_unknowns iv = true
  /\ closed = true
  /\ (forall r, In r required -> In r (keys iv))
  /\ (exists k, In k (keys iv) /\ alookup k props = None)
  /\ (exists sec unk sc ps rest, iv = LObj sec unk sc ps :: rest /\ unk = false).
Proof. exact validate_silent_corner_partial. Qed.

Theorem C08_gate_silent_corner_exact : forall props required closed (iv : chain),
  validate (AccIn (InRecord props required closed)) iv = (false, 0) ->
  contains_unknowns iv = true
  /\ (silent_never iv = true
      \/ ((forall r, In r required -> In r (keys iv))
          /\ ((closed = true /\ exists k, In k (keys iv) /\ alookup k props = None)
              \/ (exists p, In p props /\ In (fst p) (keys iv) /\ silent_never (property (fst p) iv) = true))
          /\ (exists sec unk sc ps rest, iv = LObj sec unk sc ps :: rest /\ unk = false))).
Proof. exact validate_silent_corner_exact. Qed.

(* the two models side by side, concrete inputs: (Open reached, error reported) of C08's gate = (accepted, count > 0) *)
Theorem C08_gate_models_agree : forall re D f (insch : in_schema) (iv : chain) (xin : xval),
  in_wf insch = true -> export_t iv = Some xin -> x_has_unknown xin = false -> contains_unknowns iv = false ->
  Validate.gate_impl C08.src_params re D (S (S f)) (schema_of_in insch) (json_of_x xin)
  = Some (fst (validate (AccIn insch) iv), negb (snd (validate (AccIn insch) iv) =? 0)).
Proof.
  exact (fun re D f insch iv xin =>
           gate_models_agree C08.src_params re D f insch iv xin (proj2 (proj2 C08.C08_src_params_ok))).
Qed.

(* what validateElement itself reports on this family today ([never_reports] = false): the missing required keys and the
   ill-typed declared properties; an undeclared key of a closed record is rejected by the silent `false` schema, and it
   is evaluateTypedExpr's fallback ([gate_fallback] = true) that turns that silence into a diagnostic *)
Theorem C08_vimpl_family : forall re D f insch xin,
  Validate.vimpl C08.src_params re D (S (S f)) (schema_of_in insch) (json_of_x xin)
  = Some (gate_r C08.src_params insch xin).
Proof. exact (vimpl_family C08.src_params). Qed.

Theorem C08_vimpl_own_diag : forall (insch : in_schema) (xin : xval),
  snd (gate_r C08.src_params insch xin) =
  match insch with
  | InAlways => false
  | InRecord props required closed =>
      match xin with
      | XObj _ _ m =>
          existsb (fun kv => match alookup (fst kv) props with
                             | Some ty => match jtype_of_name ty with Some _ => negb (type_ok ty (snd kv)) | None => false end
                             | None => false
                             end) m
          || negb (forallb (fun r => existsb (fun kv => String.eqb (fst kv) r) m) required)
      | _ => true
      end
  end.
Proof. exact (fun insch xin => vimpl_own_diag C08.src_params insch xin eq_refl). Qed.

Theorem C08_src_facts : SrcValidate.never_reports = false /\ SrcValidate.gate_fallback = true.
Proof. exact (conj eq_refl eq_refl). Qed.

(* ---- examples ---- *)
Definition C08g_in : in_schema := InRecord [("k", "string"); ("n", "number")] ["k"] true.
Definition C08g_good : xval := XObj false false [("k", XScalar true false (SStr "v")); ("n", XScalar false false (SNum "42"))].
Definition C08g_extra : xval := XObj false false [("k", XScalar false false (SStr "v")); ("z", XScalar false false SNull)].
Definition C08g_badty : xval := XObj false false [("k", XScalar false false (SNum "1"))].
Definition re0 (_ _ : string) : bool := false.
Definition chain_of (v : xval) : chain := unexport big_fuel false v.

Example C08g_schema :
  schema_of_in C08g_in
  = Schema.SNode None [] [] [] None (Some Schema.SNever)
      [("k", tnode Schema.TStr); ("n", tnode Schema.TNum)] (kw_type_req (Some Schema.TObj) ["k"])
  /\ json_of_x C08g_good = Schema.JObj [("k", Schema.JStr "v"); ("n", Schema.JNum 42 0)].
Proof. split; reflexivity. Qed.

Example C08g_accept :
  export big_fuel (chain_of C08g_good) = Some C08g_good /\ x_has_unknown C08g_good = false
  /\ validate (AccIn C08g_in) (chain_of C08g_good) = (true, 0)
  /\ Validate.vspec re0 [] 2 (schema_of_in C08g_in) (json_of_x C08g_good) = Some true
  /\ Validate.gate_impl C08.src_params re0 [] 2 (schema_of_in C08g_in) (json_of_x C08g_good) = Some (true, false).
Proof. vm_compute. repeat split; reflexivity. Qed.

(* an undeclared key of a closed record, concrete inputs: validateElement is silent, the fallback reports *)
Example C08g_extra_key :
  validate (AccIn C08g_in) (chain_of C08g_extra) = (false, 1)
  /\ Validate.vspec re0 [] 2 (schema_of_in C08g_in) (json_of_x C08g_extra) = Some false
  /\ Validate.vimpl C08.src_params re0 [] 2 (schema_of_in C08g_in) (json_of_x C08g_extra) = Some (false, false)
  /\ Validate.gate_impl C08.src_params re0 [] 2 (schema_of_in C08g_in) (json_of_x C08g_extra) = Some (false, true).
Proof. vm_compute. repeat split; reflexivity. Qed.

(* the same with an unknown elsewhere in the inputs: the evaluator model rejects WITHOUT a diagnostic (the corner) *)
Definition C08g_extra_unknown : chain :=
  [LObj false false ScAlways [("k", [str_layer false false "v"]); ("u", [unknown_layer false ScAlways])]].
Example C08g_silent_corner :
  validate (AccIn (InRecord [("k", "string")] ["k"] true)) C08g_extra_unknown = (false, 0)
  /\ contains_unknowns C08g_extra_unknown = true.
Proof. vm_compute. split; reflexivity. Qed.

(* a declared property whose value is an unknown of schema `false`, OPEN record: rejected without a diagnostic *)
Example C08g_silent_never_member :
  validate (AccIn (InRecord [("region", "string")] [] false))
    [LObj false false (ScObject [("region", ScNever)] None) [("region", [unknown_layer false ScNever])]] = (false, 0).
Proof. exact validate_silent_corner_refuted_member. Qed.

Example C08g_bad_type :
  validate (AccIn C08g_in) (chain_of C08g_badty) = (false, 1)
  /\ Validate.vimpl C08.src_params re0 [] 2 (schema_of_in C08g_in) (json_of_x C08g_badty) = Some (false, true).
Proof. vm_compute. split; reflexivity. Qed.

(* [in_wf] is needed for the converse: a property declared twice with different types — the evaluator model checks
   every declaration, JSON Schema / the oracle only see one *)
Definition C08g_dup : in_schema := InRecord [("k", "string"); ("k", "number")] [] false.
Example C08g_dup_props_differ :
  in_wf C08g_dup = false
  /\ fst (validate (AccIn C08g_dup) (chain_of (XObj false false [("k", XScalar false false (SStr "v"))]))) = false
  /\ C05.x_valid C08g_dup (XObj false false [("k", XScalar false false (SStr "v"))]) = true.
Proof. vm_compute. repeat split; reflexivity. Qed.
