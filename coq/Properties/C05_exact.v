(* Properties/C05_exact.v — C05, the parts left open by Properties/C05.v: the provider receives EXACTLY the
   evaluated inputs of the fn::open expression that caused the call; the model's gate implies the oracle's
   validity; per-provider-name uniqueness.  Statements only; proofs in Proofs/EvalLog2*.v.
   For ALL worlds (loaders, provider tables, fault plans, modes), fuels, roots, names and definitions. *)
From Verif Require Import Base.Bytes Model.Chain Model.GoText Model.Envelope Model.Eval Corr.EvalWire.
From Verif Require Import Proofs.EvalLogKit Proofs.EvalLogInd Proofs.EvalLog Proofs.EvalLogOnce Proofs.EvalLogCorr.
From Verif Require Import Proofs.EvalTotalSyntax Proofs.EvalTotalBound.
From Verif Require Import Proofs.EvalLog2Ind Proofs.EvalLog2 Proofs.EvalLog2Valid Proofs.EvalLog2Names Proofs.EvalLogRootName.
From Verif Require Corr.C05.

(* [env_def W name d n dn]: during [eval_env W _ _ name d], the name [n] denotes the definition [dn] — the one
   being evaluated, or what the loader returns.  [vals_of2 dn]: its values without the reserved keys.
   [sub_at x path]: the sub-expression of [x] along an identity path (Proofs/EvalTotalSyntax.v).
   [inputs_id id = (fst id, snd id ++ [IIdx 0])]: the identity of the inputs of the fn::open at [id]. *)

(* ---- (1) exactly the evaluated inputs ---- *)
(* every Open in the log: its id designates an [EOpen p inputs] sub-expression of the definition of environment
   [fst id]; [inputs] sits at [inputs_id id]; the memo table of the FINAL state holds a finished value [iv] for
   that inputs expression; and what the provider received is precisely the export of [iv] (values and secret /
   unknown flags: [export] keeps both) — which moreover has no unknown part, is an object, and passed the gate *)
Theorem C05_open_inputs_exact : forall W fuel root name d id p xin r c,
  let s' := snd (eval_env W fuel root name d st0) in
  In (EvOpen id p xin r c) (log s') ->
  exists dn inputs pv iv,
    env_def W name d (fst id) dn
    /\ sub_at (EObj (vals_of2 dn)) (snd id) = Some (EOpen p inputs)
    /\ sub_at (EObj (vals_of2 dn)) (snd (inputs_id id)) = Some inputs
    /\ memo_get (inputs_id id) (memo s') = Some (Some iv)
    /\ export_t iv = Some xin
    /\ alookup p (w_provs W) = Some pv
    /\ contains_unknowns iv = false
    /\ x_has_unknown xin = false
    /\ fst (validate (AccIn (pv_in pv)) iv) = true
    /\ x_is_obj xin = true
    /\ w_check W = false.
Proof. exact open_inputs_exact. Qed.

(* the same about the observable log of [run] *)
Theorem C05_run_open_inputs_exact : forall fuel W name d id p xin r c,
  let s' := snd (eval_env W fuel "" name d st0) in
  In (EvOpen id p xin r c) (ob_log (run fuel W name d)) ->
  exists dn inputs pv iv,
    env_def W name d (fst id) dn
    /\ sub_at (EObj (vals_of2 dn)) (snd id) = Some (EOpen p inputs)
    /\ sub_at (EObj (vals_of2 dn)) (snd (inputs_id id)) = Some inputs
    /\ memo_get (inputs_id id) (memo s') = Some (Some iv)
    /\ export_t iv = Some xin
    /\ alookup p (w_provs W) = Some pv
    /\ contains_unknowns iv = false
    /\ x_has_unknown xin = false
    /\ fst (validate (AccIn (pv_in pv)) iv) = true
    /\ x_is_obj xin = true
    /\ w_check W = false.
Proof. exact run_open_inputs_exact. Qed.

(* the value [eval_expr] returns for an expression is the one it memoises at the expression's id
   (whenever it has no unknown part) — this is what links "memo entry of the inputs id" to "what the inputs
   expression evaluated to" *)
Theorem C05_eval_expr_memoised : forall W fuel E x xsec xbase id s,
  contains_unknowns (fst (eval_expr W fuel E x xsec xbase id s)) = false ->
  memo_get id (memo (snd (eval_expr W fuel E x xsec xbase id s)))
  = Some (Some (fst (eval_expr W fuel E x xsec xbase id s))).
Proof. exact eval_expr_memoised. Qed.

(* ---- (2a) the chain-level gate implies the oracle's value-level validity ---- *)
Theorem C05_gate_implies_oracle_valid : forall (insch : in_schema) (iv : chain) (xin : xval),
  fst (validate (AccIn insch) iv) = true ->
  export_t iv = Some xin ->
  x_has_unknown xin = false ->
  C05.x_valid insch xin = true.
Proof. exact gate_implies_oracle_valid. Qed.

Theorem C05_open_inputs_oracle_valid : forall W fuel root name d id p xin r c,
  In (EvOpen id p xin r c) (log (snd (eval_env W fuel root name d st0))) ->
  exists pv, alookup p (w_provs W) = Some pv /\ C05.x_valid (pv_in pv) xin = true.
Proof. exact open_inputs_oracle_valid. Qed.

(* ---- (2b) per-provider-name uniqueness ---- *)
(* the generator's hypothesis, as a predicate on the definitions of the world:
   unique_provider_sites W name d :=
     forall id1 id2 p, open_at W name d id1 p -> open_at W name d id2 p -> id1 = id2
   open_at W name d id p :=
     exists dn inputs, env_def W name d (fst id) dn /\ sub_at (EObj (vals_of2 dn)) (snd id) = Some (EOpen p inputs) *)
Theorem C05_open_provider_names_once : forall W fuel root name d,
  unique_provider_sites W name d ->
  NoDup (open_provs (log (snd (eval_env W fuel root name d st0)))).
Proof. exact open_provider_names_once. Qed.

(* a computable sufficient check of the hypothesis *)
Theorem C05_unique_sites_b_sound : forall W name d,
  unique_sites_b W name d = true -> unique_provider_sites W name d.
Proof. exact unique_sites_b_sound. Qed.

(* ---- the clauses of Corr/C05.spec_other, for an implementation log that matches the model's ----
   (all clauses of the per-Open disjunction except the generator's own site table [c_sites]); the root is neither ""
   nor "<yaml>" ([C05.anonymous_name]; for an anonymous root the model follows environment.go CopyForEnv since the
   root-name repair, but [C05.root_ok]'s reachability clause is proved only as the weaker
   C05_open_inputs_ok clause "the root told is never anonymous unless it is the provider's own environment") *)
Theorem C05_matched_open_oracle_clauses : forall fuel W name d lg p i r c,
  C05.anonymous_name name = false -> unique_provider_sites W name d ->
  log_matches (ob_log (run fuel W name d)) lg = true ->
  In (p, i, r, c) (C05.opens lg) ->
  x_has_unknown i = false
  /\ match alookup p (w_provs W) with Some pv => negb (C05.x_valid (pv_in pv) i) | None => true end = false
  /\ (forall cs, C05.c_name cs = name -> negb (C05.root_ok cs r c) = false)
  /\ negb (Nat.eqb (C05.count_str p (map (fun o : string * xval * string * string => fst (fst (fst o))) (C05.opens lg))) 1) = false.
Proof. exact matched_open_oracle_clauses_named. Qed.

(* ---- examples ---- *)
Definition C05x_prov : provider :=
  {| pv_in := InRecord [("k", "string")] ["k"] true; pv_out := ScType "string";
     pv_beh := PConst (XScalar true false (SStr "tok")) |}.
Definition C05x_imp : envdef :=
  {| ed_imports := []; ed_values := [("b", EOpen "q" (EObj [("k", EStr "w")]))] |}.
Definition C05x_world : world :=
  {| w_envs := [("imp", LoadOk C05x_imp)]; w_provs := [("p", C05x_prov); ("q", C05x_prov)]; w_ctx := [];
     w_check := false; w_show := false; w_fault := None; w_decrypt := fun _ _ => None |}.
(* the inputs refer to a secret: the provider must receive the value WITH its secret flag *)
Definition C05x_def : envdef :=
  {| ed_imports := [("imp", true)];
     ed_values := [("a", EOpen "p" (EObj [("k", ESym [AName "s"])])); ("s", ESecretPlain "hush");
                   ("r", ESym [AName "a"])] |}.
Definition C05x_xin : xval := XObj false false [("k", XScalar true false (SStr "hush"))].

Example C05x_hypothesis_holds : unique_provider_sites C05x_world "e" C05x_def.
Proof. apply unique_sites_b_sound. vm_compute. reflexivity. Qed.

Example C05x_exact :
  let s' := snd (eval_env C05x_world 40 "" "e" C05x_def st0) in
  In (EvOpen ("e", [IKey "a"]) "p" C05x_xin "e" "e") (log s')
  /\ sub_at (EObj (vals_of2 C05x_def)) [IKey "a"] = Some (EOpen "p" (EObj [("k", ESym [AName "s"])]))
  /\ option_map (option_map (export_t)) (memo_get ("e", [IKey "a"; IIdx 0]) (memo s')) = Some (Some (Some C05x_xin))
  /\ C05.x_valid (pv_in C05x_prov) C05x_xin = true
  /\ open_provs (rev (log s')) = ["q"; "p"].
Proof. vm_compute. repeat split; auto. Qed.

(* the hypothesis is needed: the same provider name at two sites is opened twice *)
Example C05x_hypothesis_needed :
  open_provs (ob_log (run 30 (ex_world false false) "e" ex_def2)) = ["p"; "p"]
  /\ unique_sites_b (ex_world false false) "e" ex_def2 = false.
Proof. vm_compute. split; reflexivity. Qed.
