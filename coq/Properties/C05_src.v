(* Properties/C05_src.v — side conditions of C05 on the SOURCE of the evaluator: the behaviour tables that
   harness/cmd/srcfacts/evalcore.go reads out of eval/value.go, eval/eval.go, eval/crypt.go and environment.go on every run
   (coq/Src/SrcEval.v) are the ones the models Model/Chain.v / Model/Eval.v were written against (Proofs/EvalSrc.v, where
   each table is listed next to the model definition it is the source of).  What C05 rests on: the one call site of provider.Open and its path condition, containsUnknowns, the memo discipline (at most once), the shared imports table (loaded at most once), the context handed to providers.
   Statements only, closed by [exact]; decided by computation. *)
From Verif Require Import Base.Bytes Src.SrcEval Proofs.EvalSrc Proofs.EvalSrcOpen Proofs.EvalSrcContains Proofs.EvalSrcExpr Proofs.EvalSrcImport Proofs.EvalSrcContext.

Theorem C05_src_open_gate : eval_src_open_ok = true.
Proof. exact eval_src_open_ok_true. Qed.

Theorem C05_src_contains_flags : eval_src_contains_ok = true.
Proof. exact eval_src_contains_ok_true. Qed.

Theorem C05_src_expr_dispatch_memo : eval_src_expr_ok = true.
Proof. exact eval_src_expr_ok_true. Qed.

Theorem C05_src_imports_table : eval_src_import_ok = true.
Proof. exact eval_src_import_ok_true. Qed.

Theorem C05_src_provider_context : eval_src_context_ok = true.
Proof. exact eval_src_context_ok_true. Qed.
