(* Properties/C05.v — providers are opened only with complete, valid inputs, once.
   Statements only; proofs in Proofs/EvalLog*.v.  All theorems are for ALL worlds (provider tables, loaders,
   fault plans, modes), fuels, environment definitions and — where a start state appears — all states. *)
From Verif Require Import Base.Bytes Model.Chain Model.GoText Model.Envelope Model.Eval Corr.EvalWire.
From Verif Require Import Proofs.EvalLogKit Proofs.EvalLogInd Proofs.EvalLog Proofs.EvalLogOnce Proofs.EvalLogLoad
                          Proofs.EvalLogCorr Proofs.EvalLogRootName.
From Verif Require Corr.C05.

(* ---- open_only_when_opening: never while only checking ---- *)
Theorem C05_open_only_when_opening : forall fuel W name d,
  w_check W = true -> forall e, In e (ob_log (run fuel W name d)) -> is_open e = false.
Proof. exact run_check_no_open. Qed.

Theorem C05_open_only_when_opening_env : forall W fuel root name d,
  w_check W = true -> forall e, In e (log (snd (eval_env W fuel root name d st0))) -> is_open e = false.
Proof. exact check_no_open_env. Qed.

(* the same as an invariant of each of the six evaluator functions, from any start state *)
Theorem C05_check_no_open : forall W fuel, w_check W = true ->
  all_six W fuel (fun s s' => Forall (fun e => is_open e = false) (log s) -> Forall (fun e => is_open e = false) (log s')).
Proof. exact check_no_open. Qed.

(* ---- open_inputs_known_valid_exact ---- *)
(* every Open in the log of a run: the provider exists; the inputs are the export of a chain [iv] that has no
   unknown part and validates against the provider's declared input schema; they are an object; the run is not
   a check; [c] is the environment named in the expression id, [r] the root environment.
   Root names: environment.go CopyForEnv treats "" AND "<yaml>" (esc.AnonymousEnvironmentName) as anonymous and
   replaces them by the name of the environment being entered, and so does Model/Eval.v.  Hence [r = name] is the rule
   for roots that are neither (it is FALSE, of the code and of the model, for an anonymous root: C05_yaml_root_follows_source),
   and for EVERY root name the provider is never told an anonymous root unless it sits in that anonymous environment
   itself.  The `yaml_root` family of the correspondence is part of the compared cases. *)
Theorem C05_open_inputs_ok : forall fuel W name d id p xin r c,
  In (EvOpen id p xin r c) (ob_log (run fuel W name d)) ->
  w_check W = false
  /\ c = fst id
  /\ (name <> "" -> name <> "<yaml>" -> r = name)
  /\ (C05.anonymous_name r = false \/ r = c)
  /\ exists pv iv,
       alookup p (w_provs W) = Some pv
       /\ export_t iv = Some xin
       /\ contains_unknowns iv = false
       /\ x_has_unknown xin = false
       /\ fst (validate (AccIn (pv_in pv)) iv) = true
       /\ x_is_obj xin = true.
Proof. exact run_open_inputs_ok_named. Qed.

(* [eval_env] with an explicit root, as imports call it *)
Theorem C05_open_inputs_ok_env : forall W fuel root name d id p xin r c,
  In (EvOpen id p xin r c) (log (snd (eval_env W fuel root name d st0))) ->
  w_check W = false
  /\ c = fst id
  /\ (eff_root root name <> "" -> eff_root root name <> "<yaml>" -> r = eff_root root name)
  /\ (C05.anonymous_name r = false \/ r = c)
  /\ exists pv iv,
       alookup p (w_provs W) = Some pv
       /\ export_t iv = Some xin
       /\ contains_unknowns iv = false
       /\ x_has_unknown xin = false
       /\ fst (validate (AccIn (pv_in pv)) iv) = true
       /\ x_is_obj xin = true.
Proof. exact open_inputs_ok_named. Qed.

(* a root named "<yaml>": the provider of an imported environment is told "imp", as eval.EvalEnvironment tells it
   (before the root-name repair the model said "<yaml>") - the reason for the hypothesis [name <> "<yaml>"] above *)
Example C05_yaml_root_follows_source :
  ob_log (run 30 W_yaml "<yaml>" d_yaml)
  = [EvLoad "imp"; EvLoadProvider "q"; EvOpen ("imp", [IKey "b"]) "q" (XObj false false []) "imp" "imp"].
Proof. exact yaml_root_follows_source. Qed.

(* expression level: evaluating an expression that sits in environment context [E] (id rooted at ec_name E)
   from ANY state only prepends events; each new one is a LoadProvider, an Open with r = ec_root E,
   c = ec_name E and the input facts above, or a Decrypt for ec_name E of a decoded envelope;
   exactly one collaborator call per new event; the error count does not decrease *)
Theorem C05_expr_events : forall W fuel E x xsec xbase id s,
  fst id = ec_name E ->
  exists new,
    log (snd (eval_expr W fuel E x xsec xbase id s)) = new ++ log s
    /\ Forall (ev_ok W Id_env E) new
    /\ calls (snd (eval_expr W fuel E x xsec xbase id s)) = calls s + N.of_nat (length new)
    /\ nerr s <= nerr (snd (eval_expr W fuel E x xsec xbase id s)).
Proof. intros W fuel. exact (proj1 (expr_events_ok W fuel)). Qed.

(* the environment named by an Open / Decrypt is the evaluated one or one whose Load is in the log *)
Theorem C05_event_env_own_or_loaded : forall W fuel root name d e c,
  In e (log (snd (eval_env W fuel root name d st0))) -> ev_env e = Some c ->
  c = name \/ In (EvLoad c) (log (snd (eval_env W fuel root name d st0))).
Proof. exact event_env_own_or_loaded. Qed.

(* ---- open_at_most_once ---- *)
Theorem C05_open_at_most_once : forall W fuel root name d,
  NoDup (open_ids (log (snd (eval_env W fuel root name d st0)))).
Proof. exact open_at_most_once. Qed.

Theorem C05_open_at_most_once_events : forall W fuel root name d i j id p1 x1 r1 c1 p2 x2 r2 c2,
  let l := log (snd (eval_env W fuel root name d st0)) in
  nth_error l i = Some (EvOpen id p1 x1 r1 c1) -> nth_error l j = Some (EvOpen id p2 x2 r2 c2) -> i = j.
Proof. exact open_at_most_once_events. Qed.

(* the memo discipline behind it: from any state in which opened ids are distinct and memoised, every function
   keeps that; and an id that already has a memo entry is never opened *)
Theorem C05_once_inv_env : forall W fuel root name d s,
  once_inv s -> once_inv (snd (eval_env W fuel root name d s)).
Proof. intros W fuel. exact (proj2 (proj2 (proj2 (proj2 (proj2 (once_inv_preserved W fuel)))))). Qed.

Theorem C05_memoized_not_opened : forall W fuel root name d s id,
  has s id -> In id (open_ids (log (snd (eval_env W fuel root name d s)))) -> In id (open_ids (log s)).
Proof. exact memoized_not_opened. Qed.

(* ids of sub-expressions extend the parent's path: never equal to the parent, distinct for distinct steps *)
Theorem C05_id_extend_neq : forall (id : eid) (stp : idstep), (fst id, snd id ++ [stp]) <> id.
Proof. exact id_extend_neq. Qed.
Theorem C05_id_extend_inj : forall (id : eid) (a b : idstep),
  (fst id, snd id ++ [a]) = (fst id, snd id ++ [b]) -> a = b.
Proof. exact id_extend_inj. Qed.

(* ---- load_at_most_once ----
   The property: "each imported environment is loaded at most once per evaluation, however many references or import
   paths lead to it".  Full statement: the names of ALL LoadEnvironment calls of an evaluation are pairwise distinct. *)
Definition C05_load_at_most_once_statement : Prop :=
  forall W fuel root name d, NoDup (all_loads (log (snd (eval_env W fuel root name d st0)))).

(* it HOLDS since eval.evaluateImport remembers a failed import (imported{failed: true}; the repair of the former known
   finding C05-failed-load-retried, docs/patches/C05-failed-import-remembered.fix.patch): every load - successful or not -
   leaves an entry in e.imports, and a name with an entry is never loaded again; for EVERY fault plan *)
Theorem C05_load_at_most_once : C05_load_at_most_once_statement.
Proof. exact load_at_most_once_all. Qed.

Theorem C05_run_load_at_most_once : forall fuel W name d, NoDup (all_loads (ob_log (run fuel W name d))).
Proof. exact run_load_at_most_once. Qed.

(* the former witnesses: ("bad", unparsable), imports [bad; bad; bad] - ONE load, one diagnostic; root -> a -> bad and
   root -> b -> bad with a failing loader - ONE load of bad, one diagnostic *)
Example C05_failed_load_remembered_logs :
  ob_log (run 30 W_badimport "root" d_triple_bad) = [EvLoad "bad"]
  /\ nerr (snd (eval_env W_badimport 30 "" "root" d_triple_bad st0)) = 1%N
  /\ ob_log (run 30 W_twopaths "root" d_twopaths) = [EvLoad "a"; EvLoad "bad"; EvLoad "b"]
  /\ nerr (snd (eval_env W_twopaths 30 "" "root" d_twopaths st0)) = 1%N
  /\ retried_failed W_badimport (log (snd (eval_env W_badimport 30 "" "root" d_triple_bad st0))) = false
  /\ retried_failed W_twopaths (log (snd (eval_env W_twopaths 30 "" "root" d_twopaths st0))) = false.
Proof. exact failed_load_remembered_logs. Qed.

(* ---- corollaries: what was provable while failed loads were retried ---- *)
(* outside the decidable class [retried_failed] (some load that failed - loader error, unparsable definition, or the
   faulted call - has its name loaded again); the class is now EMPTY on the evaluator's logs *)
Theorem C05_load_at_most_once_partial : forall W fuel root name d,
  retried_failed W (log (snd (eval_env W fuel root name d st0))) = false ->
  NoDup (all_loads (log (snd (eval_env W fuel root name d st0)))).
Proof. exact load_at_most_once_partial. Qed.

Theorem C05_retried_failed_never : forall W fuel root name d,
  retried_failed W (log (snd (eval_env W fuel root name d st0))) = false.
Proof. exact retried_failed_never. Qed.

(* inside the class the statement fails by definition of the class: it is exact *)
Theorem C05_load_class_exact : forall W l, retried_failed W l = true -> ~ NoDup (all_loads l).
Proof. exact class_not_once. Qed.

(* no load is followed by another load of the same name (the log is newest first: [a] is what came later) *)
Theorem C05_never_reloaded : forall W fuel root name d a n b,
  log (snd (eval_env W fuel root name d st0)) = a ++ EvLoad n :: b -> ~ In n (all_loads a).
Proof. exact never_reloaded. Qed.

Theorem C05_reload_only_after_failure : forall W fuel root name d a n b,
  log (snd (eval_env W fuel root name d st0)) = a ++ EvLoad n :: b ->
  In n (all_loads a) ->
  (ok_load W n && negb (fault_at W (N.of_nat (length b)))) = false.
Proof. exact reload_only_after_failure. Qed.

(* for EVERY fault plan: the loads that succeed (not the faulted call, loader returns a parsed definition) have
   pairwise distinct names *)
Theorem C05_load_at_most_once_successful_partial : forall W fuel root name d,
  NoDup (succ_loads W (log (snd (eval_env W fuel root name d st0)))).
Proof. exact load_at_most_once. Qed.

Theorem C05_load_at_most_once_no_fault_partial : forall W fuel root name d,
  w_fault W = None -> NoDup (ok_loads W (log (snd (eval_env W fuel root name d st0)))).
Proof. exact load_at_most_once_no_fault. Qed.

Theorem C05_run_open_at_most_once : forall fuel W name d, NoDup (open_ids (ob_log (run fuel W name d))).
Proof. exact run_open_at_most_once. Qed.

Theorem C05_run_load_at_most_once_no_fault_partial : forall fuel W name d,
  w_fault W = None -> NoDup (ok_loads W (ob_log (run fuel W name d))).
Proof. exact run_load_at_most_once_no_fault. Qed.

Theorem C05_run_load_at_most_once_partial : forall fuel W name d,
  retried_failed W (log (snd (eval_env W fuel "" name d st0))) = false ->
  NoDup (all_loads (ob_log (run fuel W name d))).
Proof. exact run_load_at_most_once_partial. Qed.

(* ---- the log is a log: evaluation only prepends; one logged event per collaborator call ---- *)
Theorem C05_log_monotone : forall W fuel, all_six W fuel mono.
Proof. exact log_monotone. Qed.

Theorem C05_calls_counts_log : forall W fuel,
  all_six W fuel (fun s s' => calls s = N.of_nat (length (log s)) -> calls s' = N.of_nat (length (log s'))).
Proof. exact calls_counts_log. Qed.

Theorem C05_run_calls_counts_log : forall fuel W name d,
  calls (snd (eval_env W fuel "" name d st0)) = N.of_nat (length (ob_log (run fuel W name d))).
Proof. exact run_calls_counts_log. Qed.

(* ---- transfer to the correspondence check: an implementation log that matches the model's ---- *)
Theorem C05_matched_check_opens_nothing : forall fuel W name d lg,
  w_check W = true -> log_matches (ob_log (run fuel W name d)) lg = true ->
  (w_check W && negb (Nat.eqb (length (C05.opens lg)) 0)) = false.
Proof. exact matched_check_opens_nothing. Qed.

Theorem C05_matched_opens_ok : forall fuel W name d lg p i r c,
  log_matches (ob_log (run fuel W name d)) lg = true ->
  In (OOpen p i r c) lg ->
  w_check W = false
  /\ x_has_unknown i = false
  /\ x_is_obj i = true
  /\ (exists pv, alookup p (w_provs W) = Some pv)
  /\ (name <> "" -> name <> "<yaml>" -> r = name)
  /\ (C05.anonymous_name r = false \/ r = c)
  /\ (c = name \/ In (OLoad c) lg).
Proof. exact matched_opens_ok_named. Qed.

(* ALL loads, EVERY fault plan: a name the implementation loaded was loaded exactly once *)
Theorem C05_matched_loads_once : forall fuel W name d lg n,
  log_matches (ob_log (run fuel W name d)) lg = true ->
  In (OLoad n) lg ->
  C05.count_str n (oloads lg) = 1%nat.
Proof. exact matched_loads_once_all. Qed.

(* the former partial form: successful loads, no fault plan *)
Theorem C05_matched_loads_once_partial : forall fuel W name d lg n,
  w_fault W = None -> ok_load W n = true ->
  log_matches (ob_log (run fuel W name d)) lg = true ->
  In (OLoad n) lg ->
  C05.count_str n (oloads lg) = 1%nat.
Proof. exact matched_loads_once. Qed.

(* ---- examples: the events do occur; the hypotheses are satisfiable ---- *)
Example C05_ex_open_mode :
  ob_log (run 20 (ex_world false false) "e" ex_def1)
  = [EvLoadProvider "p";
     EvOpen ("e", [IKey "a"]) "p" (XObj false false [("k", XScalar false false (SStr "v"))]) "e" "e"].
Proof. vm_compute. reflexivity. Qed.

Example C05_ex_check_mode : ob_log (run 20 (ex_world true false) "e" ex_def1) = [EvLoadProvider "p"].
Proof. vm_compute. reflexivity. Qed.

(* referenced three times, opened once; an imported environment's provider gets root "e", current "imp" *)
Example C05_ex_refs_and_import :
  ob_log (run 30 (ex_world false false) "e" ex_def2)
  = [EvLoad "imp"; EvLoadProvider "p";
     EvOpen ("imp", [IKey "b"]) "p" (XObj false false [("k", XScalar false false (SStr "w"))]) "e" "imp";
     EvLoadProvider "p";
     EvOpen ("e", [IKey "a"]) "p" (XObj false false [("k", XScalar false false (SStr "v"))]) "e" "e";
     EvDecrypt "e" "c1ph3r"].
Proof. vm_compute. reflexivity. Qed.

(* imports [imp, imp, imp] with the first collaborator call faulted: the load fails, the failure is remembered, imp is
   neither loaded again nor evaluated *)
Definition C05_ex_faulty : world :=
  {| w_envs := w_envs (ex_world false false); w_provs := w_provs (ex_world false false); w_ctx := [];
     w_check := false; w_show := false; w_fault := Some 0; w_decrypt := fun _ _ => None |}.
Definition C05_ex_triple : envdef :=
  {| ed_imports := [("imp", true); ("imp", true); ("imp", true)]; ed_values := [("z", ENull)] |}.

Example C05_ex_no_retry_after_failed_load :
  let lg := log (snd (eval_env C05_ex_faulty 30 "" "e" C05_ex_triple st0)) in
  rev lg = [EvLoad "imp"] /\ succ_loads C05_ex_faulty lg = [] /\ failed_loads C05_ex_faulty lg = ["imp"].
Proof. vm_compute. repeat split; reflexivity. Qed.
