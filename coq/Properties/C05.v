From Verif Require Import Model.Chain.
Example C05_placeholder : 1 = 1. Proof. reflexivity. Qed.
