(* Properties/C04.v — Static secrets are ciphertext at rest, transparently.
   Only statements closed by [exact]; the proofs live in Proofs/Crypt*.v (the envelope lemmas in
   Proofs/EnvelopeProofs.v, property C11).

   Setting as in Properties/C12.v: documents are yaml.v3 node trees, EncryptSecrets / DecryptSecrets are
   [encrypt_doc] / [decrypt_doc] (decode -> syntax.Walk -> MarshalYAML); [ysecrets] lists the calls of fn::secret of a
   tree in document order (inl plaintext / inr ciphertext string).  Encrypter and decrypter are universally
   quantified functions with [enc p = Some ct -> dec ct = Some p] where decryption is involved.

   What is proved about evaluation: what ONE secret literal opens to in plaintext form and in stored form
   (ast/expr.go parseSecret after ParseExpr with the "$$" un-escaping of ast/interpolation.go, eval.go
   evaluateBuiltinSecret) — [sem_parse], [open_secret].  That the rest of the evaluator treats the two forms alike
   (values and flags of whole documents) is NOT proved here: it is compared implementation-vs-implementation by the
   correspondence check (eval.EvalEnvironment on both forms); the evaluator has its own model (C01-C03). *)
From Verif Require Import Base.Bytes Model.Envelope Model.YamlTree Model.Crypt Src.SrcEnvelope Src.SrcCrypt
     Proofs.YamlTreeProofs Proofs.CryptWalk Proofs.CryptProofs Proofs.CryptSkeleton Proofs.CryptDoc
     Proofs.CryptSecrets Proofs.CryptSem Proofs.CryptStrings Proofs.CryptExtras Proofs.CryptToy Proofs.CryptExamples
     Proofs.EnvelopeProofs Corr.CryptWire.

Definition src_params : env_params :=
  {| ep_magic := envelope_magic; ep_version := envelope_version; ep_min_len := envelope_min_len |}.
Notation src_encrypt_doc enc pf :=
  (encrypt_doc src_params crypt_fn_secret crypt_key_ciphertext crypt_new_key enc marshal_null_words marshal_quote_words pf).
Notation src_decrypt_doc dec pf :=
  (decrypt_doc src_params crypt_fn_secret crypt_key_ciphertext dec marshal_null_words marshal_quote_words pf).
Notation src_skeleton := (skeleton crypt_fn_secret crypt_key_ciphertext).
Notation src_ysecrets := (ysecrets crypt_fn_secret crypt_key_ciphertext).
Notation src_secrets := (secrets crypt_fn_secret crypt_key_ciphertext).
Notation src_enc_tree enc := (CryptProofs.enc_tree src_params crypt_fn_secret crypt_key_ciphertext crypt_new_key enc).
Notation src_dec_tree dec := (CryptProofs.dec_tree src_params crypt_fn_secret crypt_key_ciphertext dec).
Notation src_parse_secret := (parse_secret crypt_fn_secret crypt_key_ciphertext).
(* the expression parser, with the names and the two switches ast/expr.go has today *)
Notation src_sem_parse := (sem_parse ast_fn_secret ast_key_ciphertext ast_plain_literal ast_key_nil_safe).
Notation src_cipher_node := (cipher_node src_params crypt_new_key).

(* side conditions on the extracted constants, by computation: envelope parameters well formed (C11), the names
   differ, the written key is the recognised key, both parsers compare with the same names, the key has no '$' *)
Theorem C04_src_wf :
  wf_params src_params
  /\ String.eqb crypt_fn_secret crypt_key_ciphertext = false /\ crypt_new_key = crypt_key_ciphertext
  /\ ast_fn_secret = crypt_fn_secret /\ ast_key_ciphertext = crypt_key_ciphertext
  /\ no_dollar crypt_key_ciphertext.
Proof.
  exact (conj (proj1 (params_check_ok src_params eq_refl))
              (conj eq_refl (conj eq_refl (conj eq_refl (conj eq_refl (no_dollarb_ok crypt_key_ciphertext eq_refl)))))).
Qed.

(* ---- at rest -------------------------------------------------------------------------------------------- *)
(* after EncryptSecrets no fn::secret carries plaintext ... *)
Theorem C04_no_plaintext_after_encrypt : forall enc pf y y',
  std_tree y = true -> src_encrypt_doc enc pf y = ROk y' -> forallb is_cipher (src_ysecrets y') = true.
Proof.
  exact (fun enc pf => no_plaintext_after_encrypt src_params _ _ _ enc (fun _ => None) _ _ pf
                         (proj1 (proj2 C04_src_wf)) (proj1 (proj2 (proj2 C04_src_wf)))).
Qed.

(* ... every secret that carried plaintext p now carries the envelope of enc p, ciphertexts are untouched, order kept *)
Theorem C04_secrets_become_envelopes : forall enc pf y y',
  std_tree y = true -> src_encrypt_doc enc pf y = ROk y' ->
  Forall2 (enc_rel src_params enc) (src_ysecrets y) (src_ysecrets y').
Proof.
  exact (fun enc pf => encrypt_doc_secrets src_params _ _ _ enc (fun _ => None) _ _ pf
                         (proj1 (proj2 C04_src_wf)) (proj1 (proj2 (proj2 C04_src_wf)))).
Qed.

(* every scalar of the stored document is a scalar of the skeleton, the key `ciphertext`, the envelope of one of the
   plaintexts, or a ciphertext that was there before: the plaintext itself is nowhere unless it also occurs elsewhere *)
Theorem C04_scalars_after_encrypt : forall enc pf y y' m,
  std_tree y = true -> src_encrypt_doc enc pf y = ROk y' -> In m (scalars y') ->
  In (content_scalar m) (scalars (src_skeleton y))
  \/ y_value m = crypt_key_ciphertext
  \/ (exists p ct, In (inl p) (src_ysecrets y) /\ enc p = Some ct /\ y_value m = encode_ct src_params ct)
  \/ In (inr (y_value m)) (src_ysecrets y).
Proof.
  exact (fun enc pf => scalars_after_encrypt src_params _ _ _ enc (fun _ => None) _ _ pf
                         (proj1 (proj2 C04_src_wf)) (proj1 (proj2 (proj2 C04_src_wf)))).
Qed.

(* ---- decrypting restores ------------------------------------------------------------------------------------ *)
(* DecryptSecrets: every ciphertext is replaced by dec of the content of its envelope, plaintexts are untouched *)
Theorem C04_decrypt_opens_envelopes : forall dec pf y y',
  std_tree y = true -> src_decrypt_doc dec pf y = ROk y' ->
  Forall2 (dec_rel src_params dec) (src_ysecrets y) (src_ysecrets y').
Proof.
  exact (fun dec pf => decrypt_doc_secrets src_params _ _ (fun _ => None) dec _ _ pf (proj1 (proj2 C04_src_wf))).
Qed.

(* decrypt after encrypt (on the syntax tree; the text round trip between the two calls is yaml.v3's and is exercised
   by the correspondence check): succeeds, restores every secret and the skeleton.  Uses C11's envelope_roundtrip. *)
Theorem C04_decrypt_encrypt_tree : forall enc dec pf,
  (forall p ct, enc p = Some ct -> dec ct = Some p) ->
  forall s s1,
  std_s s = true -> src_enc_tree enc s = ROk s1 -> forallb is_plaintext (src_secrets s) = true ->
  exists s2, src_dec_tree dec s1 = ROk s2 /\ src_secrets s2 = src_secrets s
             /\ forall fl, skeleton_in crypt_fn_secret crypt_key_ciphertext fl (marshal marshal_null_words marshal_quote_words pf s2)
                         = skeleton_in crypt_fn_secret crypt_key_ciphertext fl (marshal marshal_null_words marshal_quote_words pf s).
Proof.
  exact (fun enc dec pf Hinv =>
           decrypt_encrypt_tree_plain src_params _ _ _ enc dec _ _ pf (proj1 (proj2 C04_src_wf))
                                      (proj1 (proj2 (proj2 C04_src_wf))) (proj1 C04_src_wf) Hinv).
Qed.

(* the same with ciphertexts already present in the document (they must open): the result has the plaintexts that
   decrypting the original document would give *)
Theorem C04_decrypt_encrypt_tree_mixed : forall enc dec pf,
  (forall p ct, enc p = Some ct -> dec ct = Some p) ->
  forall s s1,
  std_s s = true -> src_enc_tree enc s = ROk s1 -> Forall (opens src_params dec) (src_secrets s) ->
  exists s2, src_dec_tree dec s1 = ROk s2 /\ Forall2 (dec_rel src_params dec) (src_secrets s) (src_secrets s2)
             /\ forall fl, skeleton_in crypt_fn_secret crypt_key_ciphertext fl (marshal marshal_null_words marshal_quote_words pf s2)
                         = skeleton_in crypt_fn_secret crypt_key_ciphertext fl (marshal marshal_null_words marshal_quote_words pf s).
Proof.
  exact (fun enc dec pf Hinv =>
           decrypt_encrypt_tree src_params _ _ _ enc dec _ _ pf (proj1 (proj2 C04_src_wf))
                                (proj1 (proj2 (proj2 C04_src_wf))) (proj1 C04_src_wf) Hinv).
Qed.

(* ---- the two recognitions of fn::secret ----------------------------------------------------------------------- *)
(* eval/crypt.go (syntactic) vs ast/expr.go (after ParseExpr): the expression parser accepts a plaintext exactly when
   the literal has no interpolation and then sees the un-escaped text; it accepts a ciphertext when its string has no
   interpolation; it accepts nothing else; so the checker accepts only what EncryptSecrets encrypts *)
Theorem C04_recognition_agreement : forall n,
  match src_parse_secret n with
  | Plain _ _ _ p =>
      src_sem_parse n = match unescape p with
                        | Some t => SemPlain (if ast_plain_literal then p else t)
                        | None => SemError
                        end
  | Cipher _ _ _ c => src_sem_parse n = match unescape c with Some c' => SemCipher c' | None => SemError end
  | NotSecret => sem_accepts (src_sem_parse n) = false
  end.
Proof.
  exact (recognition_agreement crypt_fn_secret crypt_key_ciphertext ast_plain_literal ast_key_nil_safe
                               (proj2 (proj2 (proj2 (proj2 (proj2 C04_src_wf)))))).
Qed.

(* the un-escaping is the identity exactly on literals without "$$" *)
Theorem C04_unescape_identity_iff : forall s t, unescape s = Some t -> (t = s <-> has_dollar_escape s = false).
Proof. exact unescape_id_iff. Qed.

(* the checker dereferences a nil key on `fn::secret: {"${x}": y}` unless the nil-safe accessor is used *)
Theorem C04_checker_total_if_nil_safe : ast_key_nil_safe = true -> forall n, src_sem_parse n <> SemPanic.
Proof. exact (sem_parse_total ast_fn_secret ast_key_ciphertext ast_plain_literal ast_key_nil_safe). Qed.

Theorem C04_checker_panic_witness : forall lit, sem_parse ast_fn_secret ast_key_ciphertext lit false (panic_node ast_fn_secret) = SemPanic.
Proof. exact (sem_parse_panics ast_fn_secret ast_key_ciphertext). Qed.

(* ---- transparently: one secret literal, plaintext form vs stored form ---------------------------------------------- *)
(* the stored form opens to the bytes that were written *)
Theorem C04_open_stored : forall enc dec, (forall p ct, enc p = Some ct -> dec ct = Some p) ->
  forall os k ps p ct, String.eqb (snd k) crypt_fn_secret = true -> enc p = Some ct ->
  open_secret src_params dec (src_sem_parse (src_cipher_node os k ps ct)) = Some p.
Proof.
  exact (fun enc dec Hinv =>
           open_stored src_params crypt_fn_secret crypt_key_ciphertext crypt_new_key enc dec ast_plain_literal
                       ast_key_nil_safe (proj1 (proj2 (proj2 C04_src_wf)))
                       (proj2 (proj2 (proj2 (proj2 (proj2 C04_src_wf))))) (proj1 C04_src_wf) Hinv).
Qed.

(* full statement for secrets the checker accepts, outside the class "$$" (or everywhere once the plaintext is taken
   literally): both forms open to the same string *)
Theorem C04_open_encrypted_eq_open_plain_partial : forall enc dec, (forall p ct, enc p = Some ct -> dec ct = Some p) ->
  forall os k ps p t ct,
  String.eqb (snd k) crypt_fn_secret = true -> unescape p = Some t -> enc p = Some ct ->
  ast_plain_literal = true \/ has_dollar_escape p = false ->
  open_secret src_params dec (src_sem_parse (src_cipher_node os k ps ct))
  = open_secret src_params dec (src_sem_parse (SObj os [(k, SStr ps p)])).
Proof.
  exact (fun enc dec Hinv =>
           open_encrypted_eq_open_plain src_params crypt_fn_secret crypt_key_ciphertext crypt_new_key enc dec
                       ast_plain_literal ast_key_nil_safe (proj1 (proj2 (proj2 C04_src_wf)))
                       (proj2 (proj2 (proj2 (proj2 (proj2 C04_src_wf))))) (proj1 C04_src_wf) Hinv).
Qed.

(* refutation of the full statement while ast.parseSecret un-escapes: every accepted plaintext with "$$" opens to two
   different strings (known finding C04-dollar; witness a$$b -> "a$b" vs "a$$b") *)
Theorem C04_open_encrypted_eq_open_plain_refuted : forall enc dec, (forall p ct, enc p = Some ct -> dec ct = Some p) ->
  forall os k ps p t ct,
  String.eqb (snd k) crypt_fn_secret = true -> unescape p = Some t -> enc p = Some ct ->
  ast_plain_literal = false -> has_dollar_escape p = true ->
  open_secret src_params dec (src_sem_parse (src_cipher_node os k ps ct))
  <> open_secret src_params dec (src_sem_parse (SObj os [(k, SStr ps p)])).
Proof.
  exact (fun enc dec Hinv =>
           open_differs_with_escape src_params crypt_fn_secret crypt_key_ciphertext crypt_new_key enc dec
                       ast_plain_literal ast_key_nil_safe (proj1 (proj2 (proj2 C04_src_wf)))
                       (proj2 (proj2 (proj2 (proj2 (proj2 C04_src_wf))))) (proj1 C04_src_wf) Hinv).
Qed.

(* the hypotheses are satisfiable: the toy cipher of the correspondence check is a matching pair *)
Theorem C04_toy_cipher_inverse : forall key pad p ct, key < 256 -> toy_enc key pad p = Some ct -> toy_dec key pad ct = Some p.
Proof. exact toy_cipher_inverse. Qed.

(* non-vacuity: the witness of C04-dollar, and `fn::secret: hunter2` encrypted then decrypted with the toy cipher:
   the plaintext is back and the stored string does not contain it *)
Example C04_example :
  (unescape "a$$b" = Some "a$b" /\ has_dollar_escape "a$$b" = true /\ unescape "${x}" = None
   /\ unescape "$${x}" = Some "${x}" /\ unescape "a$b" = Some "a$b")
  /\ roundtrip_check 90 2 "hunter2" = true.
Proof. exact (conj unescape_examples roundtrip_example). Qed.
