(* Properties/C02_builtins.v — C02, second half: EVERY BUILT-IN YIELDS THE DOCUMENTED FUNCTION OF ITS ARGUMENTS' VALUES,
   at the level of the evaluator (eval_env), for arbitrary argument expressions.
   Statements only, each closed by [exact]; proofs in Proofs/Builtins*.v.

   About the model Model/Eval.v.  A run is [eval_env W fuel root name d st0]; the hypotheses are on its observable
   result: no diagnostics (nerr = 0), fuel sufficed (oof = false), no unknown layer ([cknown]), the root exported
   ([export big_fuel (fst r) = Some xv]).
   [den W name xv e] (Proofs/BuiltinsDen.v) is the DENOTATION of an expression given the exported final value xv:
     literals denote themselves, ${p} denotes [x_access p xv] (the reference theorem C02_refs), arrays / objects
     denote the arrays / objects (declared keys, sorted) of the denotations, and
       fn::join       spec_join d vs   = s1 ++ d ++ ... ++ sn          secret iff anything in d or vs is
       fn::toJSON     spec_tojson v    = json_print (x_to_json v)       secret iff anything in v is
       fn::fromJSON   spec_fromjson s  = json_to_x (json_parse s)       every node secret iff s is (nulls excepted)
       fn::toBase64 / fn::fromBase64   b64_encode / b64_decode          secrecy of the string
       fn::toString   spec_tostring_scalar = scalar_text                for scalars; composites: see section 5
       fn::secret     the string, secret; a ciphertext: the decrypter's plaintext, secret
       "..${p}.."     spec_interp      = texts and scalar_text of the referenced scalars ($$ is handled by the parser:
                      Properties/C02.v), secret iff a referenced scalar is
       fn::open       spec_open        = the provider's answer (echo / constant) to known object inputs
   applied to the denotations of their arguments (Proofs/BuiltinsSpec.v; partial functions: None = outside the
   documented domain, e.g. a non-string argument).
   Two directions are proved:
     (=>) C02_builtin_denotes: if den e is defined, key k: e exports den e;
     (<=) C02_*_defined / C02_*_of_reference: in a clean known run the specification IS defined on the exported
          values of the arguments and gives the exported value of the key — no hypothesis on the arguments.
   The typed-argument check [validate] is used through Proofs/BuiltinsValidate.v only (known values). *)
From Verif Require Import Base.Bytes Model.Chain Model.GoText Model.Envelope Model.Eval
  Proofs.EvalTotalFail Proofs.EvalTotalBound Proofs.RefSemAccess Proofs.RefSemWf Proofs.RefSemMemo Proofs.RefSem Proofs.RefSemSorted Proofs.RefSemMain
  Proofs.RefSem2Interp Proofs.BuiltinsKit Proofs.BuiltinsMemo Proofs.BuiltinsValidate Proofs.BuiltinsSpec Proofs.BuiltinsDen
  Proofs.BuiltinsMain Proofs.BuiltinsJson Proofs.BuiltinsLaws Proofs.BuiltinsInv.
From Verif Require Proofs.GoTextProofs.

(* ====================================================================================================
   1. THE THEOREM: a key defined by e exports the denotation of e
   ==================================================================================================== *)
(* side condition: nothing inherited under k, or e is scalar valued (literal scalars, join, toJSON, toString,
   toBase64, fromBase64, secret) — a scalar hides what is inherited, an object is merged with it *)
Theorem C02_builtin_denotes : forall W fuel root name d k e,
  let r := eval_env W fuel root name d st0 in
  nerr (snd r) = 0 -> oof (snd r) = false ->
  alookup k (ed_values d) = Some e -> reserved k = false ->
  cknown (fst r) = true ->
  forall xv, export big_fuel (fst r) = Some xv ->
  forall xa, den W name xv e = Some xa ->
  (property k (tl (fst r)) = [] \/ scalar_valued e = true) ->
  export big_fuel (property k (fst r)) = Some xa.
Proof. exact builtin_denotes. Qed.

(* the invariants behind it: in a diagnostic-free run the value memoised for a built-in is the model's pure result
   function of the values memoised for its arguments, over the base handed down (kept by all five functions) ... *)
Theorem C02_builtin_memo_invariant : forall W E f, JB5 W E f.
Proof. exact JB5_all. Qed.

(* ... and a memoised value at a position without inherited base exports to the denotation, at every sufficient fuel *)
Theorem C02_den_sound : forall W E m, Q E m -> QB W E m -> QI E m ->
  forall c xv, done m (ec_name E, []) = Some c -> cgood c = true -> export big_fuel c = Some xv ->
  forall e id v xa, at_id E id e -> psec E (snd id) = false -> done m id = Some v ->
  den W (ec_name E) xv e = Some xa -> (xbof E id = [] \/ scalar_valued e = true) ->
  forall fe, (x_depth xa <= fe)%nat -> export fe v = Some xa.
Proof. exact den_sound. Qed.

(* eval_expr is called with the secret flag exactly at the text under fn::secret *)
Theorem C02_secret_flag_convention : forall E id x stp, at_id E id x -> psec E (snd id ++ [stp]) = issec x.
Proof. exact psec_child. Qed.

(* ====================================================================================================
   2. the built-ins one by one ([den] of the arguments may be anything: references, literals, other built-ins)
   ==================================================================================================== *)
Section ONE_BY_ONE.
Variables (W : world) (fuel : nat) (root name : string) (d : envdef).
Notation r := (eval_env W fuel root name d st0).
Hypothesis Hn : nerr (snd r) = 0.
Hypothesis Ho : oof (snd r) = false.
Hypothesis Hkn : cknown (fst r) = true.
Variable xv : xval.
Hypothesis Hx : export big_fuel (fst r) = Some xv.
Notation dn := (den W name xv).

Theorem C02_join_denotes : forall k dl vs xd xs xa,
  alookup k (ed_values d) = Some (EJoin dl vs) -> reserved k = false ->
  dn dl = Some xd -> dn vs = Some xs -> spec_join xd xs = Some xa ->
  export big_fuel (property k (fst r)) = Some xa.
Proof. exact (join_denotes W fuel root name d Hn Ho Hkn xv Hx). Qed.

Theorem C02_tojson_denotes : forall k e x xa,
  alookup k (ed_values d) = Some (EToJSON e) -> reserved k = false ->
  dn e = Some x -> spec_tojson x = Some xa -> export big_fuel (property k (fst r)) = Some xa.
Proof. exact (tojson_denotes W fuel root name d Hn Ho Hkn xv Hx). Qed.

Theorem C02_fromjson_denotes : forall k e x xa,
  alookup k (ed_values d) = Some (EFromJSON e) -> reserved k = false -> property k (tl (fst r)) = [] ->
  dn e = Some x -> spec_fromjson x = Some xa -> export big_fuel (property k (fst r)) = Some xa.
Proof. exact (fromjson_denotes W fuel root name d Hn Ho Hkn xv Hx). Qed.

Theorem C02_tob64_denotes : forall k e x xa,
  alookup k (ed_values d) = Some (EToB64 e) -> reserved k = false ->
  dn e = Some x -> spec_tob64 x = Some xa -> export big_fuel (property k (fst r)) = Some xa.
Proof. exact (tob64_denotes W fuel root name d Hn Ho Hkn xv Hx). Qed.

Theorem C02_fromb64_denotes : forall k e x xa,
  alookup k (ed_values d) = Some (EFromB64 e) -> reserved k = false ->
  dn e = Some x -> spec_fromb64 x = Some xa -> export big_fuel (property k (fst r)) = Some xa.
Proof. exact (fromb64_denotes W fuel root name d Hn Ho Hkn xv Hx). Qed.

Theorem C02_tostring_scalar_denotes : forall k e x xa,
  alookup k (ed_values d) = Some (EToString e) -> reserved k = false ->
  dn e = Some x -> spec_tostring_scalar x = Some xa -> export big_fuel (property k (fst r)) = Some xa.
Proof. exact (tostring_scalar_denotes W fuel root name d Hn Ho Hkn xv Hx). Qed.

(* interpolation, with the secrecy flag (C02_interpolation_denotes in C02_refs2.v leaves it existential) *)
Theorem C02_interpolation_denotes_flag : forall k parts,
  alookup k (ed_values d) = Some (EInterp parts) -> reserved k = false ->
  forallb (interp_part_ok xv) parts = true ->
  export big_fuel (property k (fst r))
  = Some (XScalar (existsb (interp_part_secret xv) parts) false (SStr (interp_text parts xv EmptyString))).
Proof. exact (interp_denotes_flag W fuel root name d Hn Ho Hkn xv Hx). Qed.

Theorem C02_secret_plain_denotes : forall k s,
  alookup k (ed_values d) = Some (ESecretPlain s) -> reserved k = false ->
  export big_fuel (property k (fst r)) = Some (XScalar true false (SStr s)).
Proof. exact (secret_plain_denotes W fuel root name d Hn Ho Hkn xv Hx). Qed.

Theorem C02_secret_cipher_denotes : forall k repr ct pt,
  alookup k (ed_values d) = Some (ESecretCipher repr) -> reserved k = false ->
  decode_ct esc_params repr = DOk ct -> w_check W && negb (w_show W) = false -> w_decrypt W name ct = Some pt ->
  export big_fuel (property k (fst r)) = Some (XScalar true false (SStr pt)).
Proof. exact (secret_cipher_denotes W fuel root name d Hn Ho Hkn xv Hx). Qed.

Theorem C02_open_denotes : forall k pname e xin xa,
  alookup k (ed_values d) = Some (EOpen pname e) -> reserved k = false -> property k (tl (fst r)) = [] ->
  dn e = Some xin -> spec_open W pname xin = Some xa -> export big_fuel (property k (fst r)) = Some xa.
Proof. exact (open_denotes W fuel root name d Hn Ho Hkn xv Hx). Qed.

(* echo provider: the inputs come back (as a single-layer value: secrecy of a composite pushed into its members,
   [x_inherit]); constant provider: its constant *)
Theorem C02_open_echo_denotes : forall k pname p e xin,
  alookup k (ed_values d) = Some (EOpen pname e) -> reserved k = false -> property k (tl (fst r)) = [] ->
  alookup pname (w_provs W) = Some p -> pv_in p = InAlways -> pv_beh p = PEcho -> w_check W = false ->
  dn e = Some xin -> (exists s u m, xin = XObj s u m) ->
  x_has_unknown xin = false -> xsorted xin = true -> (x_depth xin <= big_fuel)%nat ->
  export big_fuel (property k (fst r)) = Some (x_inherit false xin).
Proof. exact (open_echo_denotes W fuel root name d Hn Ho Hkn xv Hx). Qed.

Theorem C02_open_const_denotes : forall k pname p e xin cv,
  alookup k (ed_values d) = Some (EOpen pname e) -> reserved k = false -> property k (tl (fst r)) = [] ->
  alookup pname (w_provs W) = Some p -> pv_in p = InAlways -> pv_beh p = PConst cv -> w_check W = false ->
  dn e = Some xin -> (exists s u m, xin = XObj s u m) ->
  x_has_unknown xin = false -> (x_depth xin <= big_fuel)%nat ->
  xsorted cv = true -> (x_depth cv <= big_fuel)%nat ->
  export big_fuel (property k (fst r)) = Some (x_inherit false cv).
Proof. exact (open_const_denotes W fuel root name d Hn Ho Hkn xv Hx). Qed.

(* ====================================================================================================
   3. the COMPOSED laws
   ==================================================================================================== *)
(* k: {fn::fromBase64: {fn::toBase64: e}} exports the string e denotes, with its secrecy *)
Theorem C02_fromb64_tob64_denotes : forall k e sec s,
  alookup k (ed_values d) = Some (EFromB64 (EToB64 e)) -> reserved k = false ->
  dn e = Some (XScalar sec false (SStr s)) ->
  export big_fuel (property k (fst r)) = Some (XScalar sec false (SStr s)).
Proof. exact (fromb64_tob64_denotes W fuel root name d Hn Ho Hkn xv Hx). Qed.

(* k: {fn::fromJSON: {fn::toJSON: e}} exports the value e denotes — under the hypotheses of the text-level theorem
   C02_fromjson_tojson (7-bit strings, JSON number literals, sorted keys) and for values without secrets (a secret
   anywhere in v makes every node of the result secret: spec_fromjson) *)
Theorem C02_fromjson_tojson_denotes : forall k e v,
  alookup k (ed_values d) = Some (EFromJSON (EToJSON e)) -> reserved k = false -> property k (tl (fst r)) = [] ->
  dn e = Some v ->
  x_has_unknown v = false -> x_has_secret v = false -> (x_depth v <= big_fuel)%nat ->
  let j := x_to_json (S (x_depth v)) v in
  json_all_ascii (S (json_depth j)) j = true -> GoTextProofs.json_numbers_ok (S (json_depth j)) j = true ->
  GoTextProofs.json_sorted (S (json_depth j)) j = true ->
  export big_fuel (property k (fst r)) = Some v.
Proof. exact (fromjson_tojson_denotes W fuel root name d Hn Ho Hkn xv Hx). Qed.

End ONE_BY_ONE.

(* the same law on the specifications alone *)
Theorem C02_spec_fromjson_tojson : forall v : xval,
  x_has_unknown v = false -> x_has_secret v = false -> (x_depth v <= big_fuel)%nat ->
  let j := x_to_json (S (x_depth v)) v in
  json_all_ascii (S (json_depth j)) j = true -> GoTextProofs.json_numbers_ok (S (json_depth j)) j = true ->
  GoTextProofs.json_sorted (S (json_depth j)) j = true ->
  exists t, spec_tojson v = Some t /\ spec_fromjson t = Some v.
Proof. exact spec_fromjson_tojson. Qed.

(* what a single-layer value (fn::fromJSON result, provider output) exports to *)
Theorem C02_export_unexport : forall fu fe xs v,
  xsorted v = true -> (x_depth v <= fu)%nat -> (x_depth v <= fe)%nat ->
  export fe (unexport fu xs v) = Some (x_inherit xs v).
Proof. exact export_unexport. Qed.

(* export needs no more fuel than the depth of its result *)
Theorem C02_export_fuel_depth : forall f' f c x, export f c = Some x -> (x_depth x <= f')%nat -> export f' c = Some x.
Proof. exact export_fuel_depth. Qed.

(* ====================================================================================================
   4. the converse: in a clean known run the specification is defined on the arguments' exported values
   ==================================================================================================== *)
Section DEFINED.
Variables (W : world) (fuel : nat) (root name : string) (d : envdef).
Notation r := (eval_env W fuel root name d st0).
Hypothesis Hn : nerr (snd r) = 0.
Hypothesis Ho : oof (snd r) = false.
Hypothesis Hkn : cknown (fst r) = true.
(* [arg_chain k i]: the value memoised for the i-th argument expression of the built-in at key k *)
Notation arg := (arg_chain W fuel root name d).

Theorem C02_join_defined : forall k dl vs,
  alookup k (ed_values d) = Some (EJoin dl vs) -> reserved k = false ->
  exists dv vv xd xs xa, arg k 0%nat = Some dv /\ arg k 1%nat = Some vv /\
    export big_fuel dv = Some xd /\ export big_fuel vv = Some xs /\ spec_join xd xs = Some xa /\
    export big_fuel (property k (fst r)) = Some xa.
Proof. exact (join_defined W fuel root name d Hn Ho Hkn). Qed.

Theorem C02_join_of_references : forall k pd pv xv,
  alookup k (ed_values d) = Some (EJoin (ESym pd) (ESym pv)) -> reserved k = false ->
  local_path pd = true -> local_path pv = true -> export big_fuel (fst r) = Some xv ->
  exists xd xs xa, x_access pd xv = Some xd /\ x_access pv xv = Some xs /\ spec_join xd xs = Some xa /\
                   export big_fuel (property k (fst r)) = Some xa.
Proof. exact (join_of_references W fuel root name d Hn Ho Hkn). Qed.

Theorem C02_tojson_defined : forall k e,
  alookup k (ed_values d) = Some (EToJSON e) -> reserved k = false ->
  exists va x xa, arg k 0%nat = Some va /\ export big_fuel va = Some x /\ spec_tojson x = Some xa /\
                  export big_fuel (property k (fst r)) = Some xa.
Proof. exact (tojson_defined W fuel root name d Hn Ho Hkn). Qed.

Theorem C02_tojson_of_reference : forall k p xv,
  alookup k (ed_values d) = Some (EToJSON (ESym p)) -> reserved k = false -> local_path p = true ->
  export big_fuel (fst r) = Some xv ->
  exists x xa, x_access p xv = Some x /\ spec_tojson x = Some xa /\ export big_fuel (property k (fst r)) = Some xa.
Proof. exact (tojson_of_reference W fuel root name d Hn Ho Hkn). Qed.

Theorem C02_tob64_defined : forall k e,
  alookup k (ed_values d) = Some (EToB64 e) -> reserved k = false ->
  exists va x xa, arg k 0%nat = Some va /\ export big_fuel va = Some x /\ spec_tob64 x = Some xa /\
                  export big_fuel (property k (fst r)) = Some xa.
Proof. exact (tob64_defined W fuel root name d Hn Ho Hkn). Qed.

Theorem C02_tob64_of_reference : forall k p xv,
  alookup k (ed_values d) = Some (EToB64 (ESym p)) -> reserved k = false -> local_path p = true ->
  export big_fuel (fst r) = Some xv ->
  exists x xa, x_access p xv = Some x /\ spec_tob64 x = Some xa /\ export big_fuel (property k (fst r)) = Some xa.
Proof. exact (tob64_of_reference W fuel root name d Hn Ho Hkn). Qed.

Theorem C02_fromb64_defined : forall k e,
  alookup k (ed_values d) = Some (EFromB64 e) -> reserved k = false ->
  exists va x xa, arg k 0%nat = Some va /\ export big_fuel va = Some x /\ spec_fromb64 x = Some xa /\
                  export big_fuel (property k (fst r)) = Some xa.
Proof. exact (fromb64_defined W fuel root name d Hn Ho Hkn). Qed.

Theorem C02_fromb64_of_reference : forall k p xv,
  alookup k (ed_values d) = Some (EFromB64 (ESym p)) -> reserved k = false -> local_path p = true ->
  export big_fuel (fst r) = Some xv ->
  exists x xa, x_access p xv = Some x /\ spec_fromb64 x = Some xa /\ export big_fuel (property k (fst r)) = Some xa.
Proof. exact (fromb64_of_reference W fuel root name d Hn Ho Hkn). Qed.

Theorem C02_fromjson_defined : forall k e,
  alookup k (ed_values d) = Some (EFromJSON e) -> reserved k = false -> property k (tl (fst r)) = [] ->
  forall xv, export big_fuel (fst r) = Some xv ->
  exists va x xa, arg k 0%nat = Some va /\ export big_fuel va = Some x /\ spec_fromjson x = Some xa /\
                  export big_fuel (property k (fst r)) = Some xa.
Proof. exact (fromjson_defined W fuel root name d Hn Ho Hkn). Qed.

End DEFINED.

(* ====================================================================================================
   5. fn::toString on composites: the model's to_string (own keys of the top layer) — finding C02-tostring
   ==================================================================================================== *)
(* the string shown at k is the model's [to_string] of the value memoised for the argument; no knownness needed *)
Theorem C02_tostring_chain_denotes : forall W fuel root name d,
  let r := eval_env W fuel root name d st0 in
  nerr (snd r) = 0 -> oof (snd r) = false ->
  forall k e, alookup k (ed_values d) = Some (EToString e) -> reserved k = false ->
  exists va, arg_chain W fuel root name d k 0%nat = Some va /\
    forall s sec, to_string (ts_need va) va = (s, false, sec) ->
      export big_fuel (property k (fst r)) = Some (XScalar sec false (SStr s)).
Proof. exact tostring_chain_denotes. Qed.

(* fn::toString: ${k1}: that value is the part of the chain at k1 above what k1 inherits *)
Theorem C02_tostring_of_key_denotes : forall W fuel root name d,
  let r := eval_env W fuel root name d st0 in
  nerr (snd r) = 0 -> oof (snd r) = false ->
  forall k a k1 e1,
  alookup k (ed_values d) = Some (EToString (ESym [a])) -> reserved k = false ->
  object_key a = Some k1 -> reserved k1 = false -> alookup k1 (ed_values d) = Some e1 ->
  exists va, property k1 (fst r) = va ++ property k1 (tl (fst r)) /\
    forall s sec, to_string (ts_need va) va = (s, false, sec) ->
      export big_fuel (property k (fst r)) = Some (XScalar sec false (SStr s)).
Proof. exact tostring_of_key_denotes. Qed.

(* "the string form describes the same value (inherited properties included) that fn::toJSON and the result show"
   is FALSE of the model and of the implementation for merged objects (the text-level form of the finding is
   C02_tostring_inherited_refuted in Properties/C02.v); witness program:
     base:  o: {b: "2"}      e (imports base):  o: {a: "1"}   t: {fn::toString: ${o}}   j: {fn::toJSON: ${o}}
   t shows "a"="1" while o and j show a and b *)
Theorem C02_tostring_shows_merged_refuted : ~ tostring_shows_merged_statement.
Proof. exact tostring_shows_merged_refuted. Qed.

(* ====================================================================================================
   6. the typed check: all that is used of [validate], on known values only (Proofs/BuiltinsValidate.v)
   ==================================================================================================== *)
Theorem C02_validate_string_known : forall s sc t r, validate AccString (LScalar s false sc (SStr t) :: r) = (true, 0).
Proof. exact validate_string_known. Qed.

Theorem C02_validate_arrstring_known : forall s sc elems r,
  (forall e, In e elems -> known_str_top e) -> validate AccArrString (LArr s false sc elems :: r) = (true, 0).
Proof. exact validate_arrstring_known. Qed.

(* ====================================================================================================
   Examples: one program using every built-in with reference arguments
   ==================================================================================================== *)
(* base:  o: {b: "2"}
   e (imports base):
     s: hello        pw: {fn::secret: pw}     sep: "-"     parts: [a, ${s}, ${pw}]
     o: {a: "1"}     (merged with base.o)     n: {x: 1, y: [true, null, z]}
     joined:  {fn::join: [${sep}, ${parts}]}                    joined2: {fn::join: [", ", [${s}, {fn::toBase64: ${s}}]]}
     js:      {fn::toJSON: ${n}}        back: {fn::fromJSON: ${js}}        rt:  {fn::fromJSON: {fn::toJSON: ${n}}}
     b64:     {fn::toBase64: ${s}}      unb64: {fn::fromBase64: ${b64}}    rtb: {fn::fromBase64: {fn::toBase64: ${pw}}}
     str:     {fn::toString: ${n.x}}    ostr: {fn::toString: ${o}}         ojs: {fn::toJSON: ${o}}
     ct:      {fn::secret: {ciphertext: ...}}
     opened:  {fn::open::echo: ${n}}    konst: {fn::open::const: {q: ${s}}}
     auth:    {fn::toBase64: "user:${pw}@${s}!"} *)
Definition ex_repr : string := "ZXNjeAAAAAFDVCoZglo=".
Definition ex_const : xval :=
  XObj false false [("token", XScalar true false (SStr "tk")); ("ttl", XScalar false false (SNum "60"))].
Definition ex_world : world :=
  {| w_envs := [("base", LoadOk {| ed_imports := []; ed_values := [("o", EObj [("b", EStr "2")])] |})];
     w_provs := [("echo", {| pv_in := InAlways; pv_out := ScAlways; pv_beh := PEcho |});
                 ("const", {| pv_in := InAlways; pv_out := ScAlways; pv_beh := PConst ex_const |})];
     w_ctx := []; w_check := false; w_show := false; w_fault := None;
     w_decrypt := fun _ ct => if String.eqb ct "CT" then Some "plain" else None |}.
Definition ex_def : envdef :=
  {| ed_imports := [("base", true)];
     ed_values :=
       [("s", EStr "hello");
        ("pw", ESecretPlain "pw");
        ("sep", EStr "-");
        ("parts", EArr [EStr "a"; ESym [AName "s"]; ESym [AName "pw"]]);
        ("o", EObj [("a", EStr "1")]);
        ("n", EObj [("x", ENum "1"); ("y", EArr [EBool true; ENull; EStr "z"])]);
        ("joined", EJoin (ESym [AName "sep"]) (ESym [AName "parts"]));
        ("joined2", EJoin (EStr ", ") (EArr [ESym [AName "s"]; EToB64 (ESym [AName "s"])]));
        ("js", EToJSON (ESym [AName "n"]));
        ("back", EFromJSON (ESym [AName "js"]));
        ("rt", EFromJSON (EToJSON (ESym [AName "n"])));
        ("b64", EToB64 (ESym [AName "s"]));
        ("unb64", EFromB64 (ESym [AName "b64"]));
        ("rtb", EFromB64 (EToB64 (ESym [AName "pw"])));
        ("str", EToString (ESym [AName "n"; AName "x"]));
        ("ostr", EToString (ESym [AName "o"]));
        ("ojs", EToJSON (ESym [AName "o"]));
        ("ct", ESecretCipher ex_repr);
        ("opened", EOpen "echo" (ESym [AName "n"]));
        ("konst", EOpen "const" (EObj [("q", ESym [AName "s"])]));
        ("auth", EToB64 (EInterp [("user:", Some [AName "pw"]); ("@", Some [AName "s"]); ("!", None)]))] |}.
Notation ex_run := (eval_env ex_world 200 "" "e" ex_def st0).

Definition ex_n : xval :=
  XObj false false [("x", XScalar false false (SNum "1"));
                    ("y", XArr false false [XScalar false false (SBool true); XScalar false false SNull;
                                            XScalar false false (SStr "z")])].
Definition ex_xv : xval :=
  XObj false false
    [("auth", XScalar true false (SStr "dXNlcjpwd0BoZWxsbyE="));
     ("b64", XScalar false false (SStr "aGVsbG8="));
     ("back", ex_n);
     ("ct", XScalar true false (SStr "plain"));
     ("joined", XScalar true false (SStr "a-hello-pw"));
     ("joined2", XScalar false false (SStr "hello, aGVsbG8="));
     ("js", XScalar false false (SStr "{""x"":1,""y"":[true,null,""z""]}"));
     ("konst", ex_const);
     ("n", ex_n);
     ("o", XObj false false [("a", XScalar false false (SStr "1")); ("b", XScalar false false (SStr "2"))]);
     ("ojs", XScalar false false (SStr "{""a"":""1"",""b"":""2""}"));
     ("opened", ex_n);
     ("ostr", XScalar false false (SStr """a""=""1"""));
     ("parts", XArr false false [XScalar false false (SStr "a"); XScalar false false (SStr "hello");
                                 XScalar true false (SStr "pw")]);
     ("pw", XScalar true false (SStr "pw"));
     ("rt", ex_n);
     ("rtb", XScalar true false (SStr "pw"));
     ("s", XScalar false false (SStr "hello"));
     ("sep", XScalar false false (SStr "-"));
     ("str", XScalar false false (SStr "1"));
     ("unb64", XScalar false false (SStr "hello"))].

(* the hypotheses of the theorems hold of this run *)
Example C02_exb_clean : nerr (snd ex_run) = 0 /\ oof (snd ex_run) = false /\ cknown (fst ex_run) = true.
Proof. vm_compute. repeat split; reflexivity. Qed.
Example C02_exb_value : export big_fuel (fst ex_run) = Some ex_xv.
Proof. vm_compute. reflexivity. Qed.
Example C02_exb_ciphertext : decode_ct esc_params ex_repr = DOk "CT".
Proof. vm_compute. reflexivity. Qed.

Ltac ex_hyps := try (vm_compute; reflexivity).

(* ---- conclusions obtained FROM the general theorem: the exported value of the key is den of its expression ---- *)
Example C02_exb_join : export big_fuel (property "joined" (fst ex_run)) = Some (XScalar true false (SStr "a-hello-pw")).
Proof.
  apply (C02_builtin_denotes ex_world 200 "" "e" ex_def "joined" (EJoin (ESym [AName "sep"]) (ESym [AName "parts"])))
    with (xv := ex_xv); ex_hyps. right. reflexivity.
Qed.

(* arguments that are a literal, an array literal, a reference and another built-in *)
Example C02_exb_join_nested :
  export big_fuel (property "joined2" (fst ex_run)) = Some (XScalar false false (SStr "hello, aGVsbG8=")).
Proof.
  apply (C02_builtin_denotes ex_world 200 "" "e" ex_def "joined2"
           (EJoin (EStr ", ") (EArr [ESym [AName "s"]; EToB64 (ESym [AName "s"])]))) with (xv := ex_xv); ex_hyps. right. reflexivity.
Qed.

Example C02_exb_tojson :
  export big_fuel (property "js" (fst ex_run)) = Some (XScalar false false (SStr "{""x"":1,""y"":[true,null,""z""]}")).
Proof.
  apply (C02_builtin_denotes ex_world 200 "" "e" ex_def "js" (EToJSON (ESym [AName "n"]))) with (xv := ex_xv); ex_hyps. right. reflexivity.
Qed.

Example C02_exb_fromjson : export big_fuel (property "back" (fst ex_run)) = Some ex_n.
Proof.
  apply (C02_builtin_denotes ex_world 200 "" "e" ex_def "back" (EFromJSON (ESym [AName "js"]))) with (xv := ex_xv); ex_hyps. left. ex_hyps.
Qed.

(* an interpolation as argument: secret because ${pw} is *)
Example C02_exb_tob64_interp :
  export big_fuel (property "auth" (fst ex_run)) = Some (XScalar true false (SStr "dXNlcjpwd0BoZWxsbyE=")).
Proof.
  apply (C02_builtin_denotes ex_world 200 "" "e" ex_def "auth"
           (EToB64 (EInterp [("user:", Some [AName "pw"]); ("@", Some [AName "s"]); ("!", None)]))) with (xv := ex_xv); ex_hyps.
  right. reflexivity.
Qed.

Example C02_exb_tob64 : export big_fuel (property "b64" (fst ex_run)) = Some (XScalar false false (SStr "aGVsbG8=")).
Proof.
  apply (C02_builtin_denotes ex_world 200 "" "e" ex_def "b64" (EToB64 (ESym [AName "s"]))) with (xv := ex_xv); ex_hyps. right. reflexivity.
Qed.

Example C02_exb_fromb64 : export big_fuel (property "unb64" (fst ex_run)) = Some (XScalar false false (SStr "hello")).
Proof.
  apply (C02_builtin_denotes ex_world 200 "" "e" ex_def "unb64" (EFromB64 (ESym [AName "b64"]))) with (xv := ex_xv); ex_hyps. right. reflexivity.
Qed.

Example C02_exb_tostring : export big_fuel (property "str" (fst ex_run)) = Some (XScalar false false (SStr "1")).
Proof.
  apply (C02_builtin_denotes ex_world 200 "" "e" ex_def "str" (EToString (ESym [AName "n"; AName "x"]))) with (xv := ex_xv); ex_hyps.
  right. reflexivity.
Qed.

Example C02_exb_secret : export big_fuel (property "pw" (fst ex_run)) = Some (XScalar true false (SStr "pw")).
Proof.
  apply (C02_secret_plain_denotes ex_world 200 "" "e" ex_def (proj1 C02_exb_clean) (proj1 (proj2 C02_exb_clean))
           (proj2 (proj2 C02_exb_clean)) ex_xv C02_exb_value "pw" "pw"); reflexivity.
Qed.

Example C02_exb_ciphertext_value : export big_fuel (property "ct" (fst ex_run)) = Some (XScalar true false (SStr "plain")).
Proof.
  apply (C02_secret_cipher_denotes ex_world 200 "" "e" ex_def (proj1 C02_exb_clean) (proj1 (proj2 C02_exb_clean))
           (proj2 (proj2 C02_exb_clean)) ex_xv C02_exb_value "ct" ex_repr "CT" "plain"); ex_hyps.
Qed.

Example C02_exb_open_echo : export big_fuel (property "opened" (fst ex_run)) = Some (x_inherit false ex_n).
Proof.
  apply (C02_open_echo_denotes ex_world 200 "" "e" ex_def (proj1 C02_exb_clean) (proj1 (proj2 C02_exb_clean))
           (proj2 (proj2 C02_exb_clean)) ex_xv C02_exb_value "opened" "echo"
           {| pv_in := InAlways; pv_out := ScAlways; pv_beh := PEcho |} (ESym [AName "n"]) ex_n); ex_hyps.
  - unfold ex_n. eauto.
  - apply Nat.leb_le. vm_compute. reflexivity.
Qed.
Example C02_exb_open_echo_is_inputs : x_inherit false ex_n = ex_n.
Proof. reflexivity. Qed.

(* inputs given as an object literal with a reference inside *)
Example C02_exb_open_const : export big_fuel (property "konst" (fst ex_run)) = Some (x_inherit false ex_const).
Proof.
  apply (C02_open_const_denotes ex_world 200 "" "e" ex_def (proj1 C02_exb_clean) (proj1 (proj2 C02_exb_clean))
           (proj2 (proj2 C02_exb_clean)) ex_xv C02_exb_value "konst" "const"
           {| pv_in := InAlways; pv_out := ScAlways; pv_beh := PConst ex_const |} (EObj [("q", ESym [AName "s"])])
           (XObj false false [("q", XScalar false false (SStr "hello"))]) ex_const); ex_hyps.
  - eauto.
  - apply Nat.leb_le. vm_compute. reflexivity.
  - apply Nat.leb_le. vm_compute. reflexivity.
Qed.

(* ---- the composed laws, from their theorems ---- *)
Example C02_exb_roundtrip_b64 : export big_fuel (property "rtb" (fst ex_run)) = Some (XScalar true false (SStr "pw")).
Proof.
  apply (C02_fromb64_tob64_denotes ex_world 200 "" "e" ex_def (proj1 C02_exb_clean) (proj1 (proj2 C02_exb_clean))
           (proj2 (proj2 C02_exb_clean)) ex_xv C02_exb_value "rtb" (ESym [AName "pw"])); reflexivity.
Qed.

(* rt exports the same value as n *)
Example C02_exb_roundtrip_json :
  export big_fuel (property "rt" (fst ex_run)) = Some ex_n /\ x_access [AName "n"] ex_xv = Some ex_n.
Proof.
  split; [|reflexivity].
  apply (C02_fromjson_tojson_denotes ex_world 200 "" "e" ex_def (proj1 C02_exb_clean) (proj1 (proj2 C02_exb_clean))
           (proj2 (proj2 C02_exb_clean)) ex_xv C02_exb_value "rt" (ESym [AName "n"]) ex_n); ex_hyps.
  apply Nat.leb_le. vm_compute. reflexivity.
Qed.

(* ---- the converse theorems: no hypothesis on the arguments, the specification is defined ---- *)
Example C02_exb_join_defined :
  exists xd xs xa, x_access [AName "sep"] ex_xv = Some xd /\ x_access [AName "parts"] ex_xv = Some xs /\
                   spec_join xd xs = Some xa /\ export big_fuel (property "joined" (fst ex_run)) = Some xa.
Proof.
  apply (C02_join_of_references ex_world 200 "" "e" ex_def (proj1 C02_exb_clean) (proj1 (proj2 C02_exb_clean))
           (proj2 (proj2 C02_exb_clean)) "joined" [AName "sep"] [AName "parts"] ex_xv); ex_hyps.
Qed.

Example C02_exb_tojson_defined :
  exists x xa, x_access [AName "o"] ex_xv = Some x /\ spec_tojson x = Some xa /\
               export big_fuel (property "ojs" (fst ex_run)) = Some xa.
Proof.
  apply (C02_tojson_of_reference ex_world 200 "" "e" ex_def (proj1 C02_exb_clean) (proj1 (proj2 C02_exb_clean))
           (proj2 (proj2 C02_exb_clean)) "ojs" [AName "o"] ex_xv); ex_hyps.
Qed.

(* ---- fn::toString of the merged object o: own keys only, while o itself and fn::toJSON show a and b ---- *)
Example C02_exb_tostring_object :
  exists va, property "o" (fst ex_run) = va ++ property "o" (tl (fst ex_run)) /\
    forall s sec, to_string (ts_need va) va = (s, false, sec) ->
      export big_fuel (property "ostr" (fst ex_run)) = Some (XScalar sec false (SStr s)).
Proof.
  apply (C02_tostring_of_key_denotes ex_world 200 "" "e" ex_def (proj1 C02_exb_clean) (proj1 (proj2 C02_exb_clean))
           "ostr" (AName "o") "o" (EObj [("a", EStr "1")])); reflexivity.
Qed.

Example C02_exb_tostring_object_computed :
  export big_fuel (property "ostr" (fst ex_run)) = Some (XScalar false false (SStr """a""=""1""")) /\
  export big_fuel (property "ojs" (fst ex_run)) = Some (XScalar false false (SStr "{""a"":""1"",""b"":""2""}")) /\
  to_string (ts_need (property "o" (fst ex_run))) (property "o" (fst ex_run)) = ("""a""=""1""", false, false).
Proof. vm_compute. repeat split; reflexivity. Qed.

(* the denotations used above, computed on the exported value *)
Example C02_exb_den :
  den ex_world "e" ex_xv (EJoin (ESym [AName "sep"]) (ESym [AName "parts"])) = Some (XScalar true false (SStr "a-hello-pw")) /\
  den ex_world "e" ex_xv (EFromJSON (EToJSON (ESym [AName "n"]))) = Some ex_n /\
  den ex_world "e" ex_xv (EOpen "const" (EObj [("q", ESym [AName "s"])])) = Some ex_const /\
  den ex_world "e" ex_xv (ESecretCipher ex_repr) = Some (XScalar true false (SStr "plain")) /\
  den ex_world "e" ex_xv (EToString (ESym [AName "o"])) = None.
Proof. vm_compute. repeat split; reflexivity. Qed.
