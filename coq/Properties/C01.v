From Verif Require Import Model.Chain.
Example C01_placeholder : 1 = 1. Proof. reflexivity. Qed.
