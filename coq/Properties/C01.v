(* Properties/C01.v — Imports compose by ordered JSON merge patch.
   Only statements closed by [exact]; the proofs live in Proofs/ChainAlgebra*.v.
   Reading guide: a Go [*value] with its base pointers is a chain of layers (top first); [flat_merge] is value.go's
   object-prefix/cut rule written directly on JSON; [mp'] is Corr/C01.v's merge patch (the property's fold operator). *)
From Verif Require Import Base.Bytes Model.Chain Model.Eval Corr.EvalWire Corr.C01
  Proofs.ChainAlgebraSorted Proofs.ChainAlgebraExport Proofs.ChainAlgebra Proofs.ChainAlgebraDeep
  Proofs.ChainAlgebraEval Proofs.ChainAlgebraLit Proofs.ChainAlgebraEnv Proofs.ChainAlgebraSrc Proofs.ChainAlgebraLink.
From Coq Require Import Lia.
Local Open Scope nat_scope.

(* ---------- 1. export terminates: fuel above the size measure suffices, and more fuel changes nothing ---------- *)
Theorem C01_export_total : forall (fuel : nat) (c : chain), csize c < fuel -> export fuel c <> None.
Proof. exact export_total. Qed.

Theorem C01_export_fuel_mono : forall (f f' : nat) (c : chain) (v : xval), export f c = Some v -> f <= f' -> export f' c = Some v.
Proof. exact export_fuel_mono. Qed.

Theorem C01_csize_cons : forall l r, csize (l :: r) = lsize l + csize r.
Proof. exact csize_cons. Qed.

(* ---------- 2. the lazy chain of plain JSON layers exports to the closed form flat_merge, at every depth ---------- *)
Theorem C01_export_flat_layers : forall (js : list json) (fuel : nat),
  jlsize js < fuel ->
  exists v, export fuel (concat (map embed js)) = Some v
            /\ forall fx, x_depth v <= fx -> x_to_json fx v = flat_merge js.
Proof. exact export_flat_layers. Qed.

(* the unfolding lemmas of the reference semantics *)
Theorem C01_flat_merge_obj : forall m r, flat_merge (JObj m :: r) = fm_obj (oprefix (JObj m :: r)).
Proof. exact flat_merge_obj. Qed.
Theorem C01_flat_merge_arr : forall l r, flat_merge (JArr l :: r) = JArr (map (fun j => flat_merge [j]) l).
Proof. exact flat_merge_arr. Qed.

(* ... and it IS the layer-by-layer merge-patch fold (the design's export_flat_layers), for key-sorted layers *)
Theorem C01_flat_merge_fold : forall js : list json,
  jswf js -> flat_merge js = fold_right (fun j acc => mp' acc (flat_merge [j])) junknown js.
Proof. exact flat_merge_fold. Qed.

(* ---------- 3. the algebra: appending layer lists = merge-patching their values, EXACTLY under [compat] ---------- *)
Theorem C01_flat_merge_app : forall g1 g2 : list json,
  jswf g1 -> jswf g2 -> g1 <> [] ->
  (compat g1 g2 = true <-> flat_merge (g1 ++ g2) = mp' (flat_merge g2) (flat_merge g1)).
Proof. exact flat_merge_app. Qed.

Theorem C01_compat_design_implies : forall n g1 g2, compat_design_f n g1 g2 = true -> compat_f n g1 g2 = true.
Proof. exact compat_design_implies. Qed.

Theorem C01_mp_assoc_compat : forall g1 g2 g3 : list json,
  jswf g1 -> jswf g2 -> jswf g3 -> g1 <> [] -> g2 <> [] ->
  compat g2 g3 = true -> compat g1 (g2 ++ g3) = true -> compat g1 g2 = true -> compat (g1 ++ g2) g3 = true ->
  mp' (mp' (flat_merge g3) (flat_merge g2)) (flat_merge g1) = mp' (flat_merge g3) (mp' (flat_merge g2) (flat_merge g1)).
Proof. exact mp_assoc_compat. Qed.

Theorem C01_mp_assoc_values : forall a b c : json,
  jwf a = true -> jwf b = true -> jwf c = true ->
  flat_merge [a] = a -> flat_merge [b] = b -> flat_merge [c] = c ->
  (compat [a; b] [c] = true <-> mp' (mp' c b) a = mp' c (mp' b a)).
Proof. exact mp_assoc_values. Qed.

Theorem C01_mp_assoc_refuted :
  let a := JObj [("c", JNum "3")] in let b := JNum "5" in let c := JObj [("b", JNum "2")] in
  mp' (mp' c b) a = JObj [("c", JNum "3")] /\
  mp' c (mp' b a) = JObj [("b", JNum "2"); ("c", JNum "3")] /\
  mp' (mp' c b) a <> mp' c (mp' b a) /\ compat [a; b] [c] = false.
Proof. exact mp_assoc_refuted. Qed.

(* ---------- 4. the property's fold over the imports' VALUES ---------- *)
(* gs: the layer lists of the merged imports in listing order; o: the own layer *)
Theorem C01_fold_compat : forall (gs : list (list json)) (o : json),
  Forall (fun g => jswf g) gs -> Forall (fun g => g <> []) gs -> jwf o = true -> flat_merge [o] = o ->
  chain_compat (rev gs) = true ->
  flat_merge (o :: concat (rev gs)) = fold_left mp' (map flat_merge gs ++ [o]) (JObj []).
Proof. exact C01_fold_compat. Qed.

Theorem C01_fold_partial : forall (gs : list (list json)) (o : json),
  Forall (fun g => jswf g) gs -> Forall (fun g => g <> []) gs -> jwf o = true -> flat_merge [o] = o ->
  (forall p, oso_scan p (rev gs) = false) ->
  flat_merge (o :: concat (rev gs)) = fold_left mp' (map flat_merge gs ++ [o]) (JObj []).
Proof. exact C01_fold_partial. Qed.

(* [oso_scan]/[kf_groups] are Corr/C01.v's known-class predicate, re-stated over groups *)
Theorem C01_kf_oso_is_kf_groups : forall c : case,
  kf_oso c =
  kf_groups (rev (map (fun im : string * bool =>
                         if snd im then match alookup (fst im) (w_envs (c_world c)) with
                                        | Some (LoadOk d') => flat model_fuel (c_world c) d'
                                        | _ => []
                                        end
                         else []) (ed_imports (c_def c)))).
Proof. exact kf_oso_is_kf_groups. Qed.

Theorem C01_fold_partial_kf : forall (gs : list (list json)) (o : json),
  Forall (fun g => jswf g) gs -> Forall (fun g => g <> []) gs -> jwf o = true -> flat_merge [o] = o ->
  Forall (fun l => jdepth l <= wire_fuel) (concat (rev gs)) -> kf_groups (rev gs) = false ->
  flat_merge (o :: concat (rev gs)) = fold_left mp' (map flat_merge gs ++ [o]) (JObj []).
Proof. exact C01_fold_partial_kf. Qed.

(* every depth, fan-in and repetition: over Corr/C01.v's [flat] of a whole import graph *)
Theorem C01_deep : forall (fuel : nat) (W : world) (d : envdef),
  wgood fuel W d -> flat_merge (flat fuel W d) = wspec fuel W d.
Proof. exact C01_deep. Qed.

Theorem C01_wgood_b_ok : forall fuel W d, wgood_b fuel W d = true -> wgood fuel W d.
Proof. exact wgood_b_ok. Qed.

(* ---------- 5. link to the evaluator ---------- *)
(* literal expressions evaluate to [lval]: own representation over the base handed down by declare; only memo entries in the
   expression's own id subtree are added *)
Theorem C01_lit_eval : forall (W : world) (m : nat) (x : expr), lit_ok m x = true ->
  forall (fuel : nat) (E : ectx) (xbase : chain) (id : eid), 2 * m <= fuel ->
    lit_run (eval_expr W fuel E x false xbase id) id (lval m x xbase).
Proof. exact lit_eval. Qed.

(* on acyclic fault-free worlds of literal environments eval_env computes the pure denotation ... *)
Theorem C01_eval_env_den : forall (W : world) (M0 : nat) (rank : string -> nat), lit_world W M0 rank ->
  forall (fuel : nat) (root name : string) (d : envdef),
    need M0 rank name <= fuel -> env_of W name = Some d -> fst (eval_env W fuel root name d st0) = dn W M0 rank name d.
Proof. exact eval_env_den. Qed.

(* ... which is the own layer over the merged imports' chains, last import first; merge:false contributes nothing ... *)
Theorem C01_den_flat_shape : forall (W : world) (M0 : nat) (rank : string -> nat), lit_world W M0 rank ->
  forall (name : string) (d : envdef), env_of W name = Some d ->
    dn W M0 rank name d =
    lval M0 (own_expr d) (concat (rev (map (fun nd => dn W M0 rank (fst nd) (snd nd)) (mimports_of W (ed_imports d))))).
Proof. exact den_flat_shape. Qed.

(* ... while imports.<x> holds x's own chain whatever its merge flag *)
Theorem C01_imports_name_holds_den : forall (W : world) (M0 : nat) (rank : string -> nat) (d : envdef) (x : string) (merge : bool)
    (dx : envdef) (f : nat),
  In (x, merge) (ed_imports d) -> env_of W x = Some dx ->
  value_access (S (S f)) (imports_value (pmy W M0 rank (ed_imports d) [])) [AName x] = (dn W M0 rank x dx, 0%N).
Proof. exact imports_name_holds_den. Qed.

(* the exported value of the evaluator's chain is flat_merge of the flattened layer list (duplicated bases are absorbed) *)
Theorem C01_eval_env_exports_flat : forall (W : world) (M0 : nat) (rank : string -> nat),
  lit_world W M0 rank ->
  (forall n d, env_of W n = Some d -> forallb (fun kv => negb (reserved (fst kv))) (ed_values d) = true) ->
  M0 <= wire_fuel ->
  forall (fuel : nat) (root name : string) (d : envdef),
    need M0 rank name <= fuel -> env_of W name = Some d ->
    let c := fst (eval_env W fuel root name d st0) in
    (forall fx v, export fx c = Some v -> xjson v = flat_merge (flat (S (rank name)) W d))
    /\ (forall fx, csize c < fx -> export fx c <> None).
Proof. exact eval_env_exports_flat. Qed.

(* C01 for the evaluator model, outside the known class, at every depth / fan-in / repetition / merge flag / listing order *)
Theorem C01_evaluator_lit : forall (W : world) (M0 : nat) (rank : string -> nat),
  lit_world W M0 rank ->
  (forall n d, env_of W n = Some d -> forallb (fun kv => negb (reserved (fst kv))) (ed_values d) = true) ->
  M0 <= wire_fuel ->
  forall (fuel : nat) (root name : string) (d : envdef),
    need M0 rank name <= fuel -> env_of W name = Some d -> wgood (S (rank name)) W d ->
    forall fx v, export fx (fst (eval_env W fuel root name d st0)) = Some v ->
      xjson v = wspec (S (rank name)) W d /\ forall fj, x_depth v <= fj -> x_to_json fj v = wspec (S (rank name)) W d.
Proof. exact C01_evaluator_lit. Qed.

(* ---------- the unrestricted property is false of the evaluator ---------- *)
(* the full intended statement for literal worlds: C01_evaluator_lit WITHOUT the known-class hypothesis [wgood] *)
Definition C01_full_statement : Prop :=
  forall (W : world) (M0 : nat) (rank : string -> nat),
    lit_world W M0 rank ->
    (forall n d, env_of W n = Some d -> forallb (fun kv => negb (reserved (fst kv))) (ed_values d) = true) ->
    M0 <= wire_fuel ->
    forall (fuel : nat) (root name : string) (d : envdef),
      need M0 rank name <= fuel -> env_of W name = Some d ->
      forall fx v, export fx (fst (eval_env W fuel root name d st0)) = Some v -> xjson v = wspec (S (rank name)) W d.

Theorem C01_fold_refuted :
  model_value "F" wit_F = Some (JObj [("x", JObj [("c", JNum "3")])]) /\
  model_value "D" wit_D = Some (JObj [("x", JObj [("b", JNum "2")])]) /\
  model_value "E" wit_E = Some (JObj [("x", JObj [("b", JNum "2")])]) /\
  fold_left mp' [JObj [("x", JObj [("c", JNum "3")])]; JObj [("x", JObj [("b", JNum "2")])]; JObj []] (JObj [])
    = JObj [("x", JObj [("b", JNum "2"); ("c", JNum "3")])] /\
  flat_merge (flat 8 wit_W wit_E) = JObj [("x", JObj [("b", JNum "2")])] /\
  wspec 8 wit_W wit_E = JObj [("x", JObj [("b", JNum "2"); ("c", JNum "3")])] /\
  kf_groups (rev (map (flat 7 wit_W) (merged_defs wit_W wit_E))) = true.
Proof. exact C01_fold_refuted. Qed.

Theorem C01_full_statement_refuted : ~ C01_full_statement.
Proof.
  intros H.
  assert (LW : lit_world wit_W 4 wit_rank) by (apply lit_world_b_ok; vm_compute; reflexivity).
  assert (NR := no_reserved_b_ok wit_W eq_refl).
  specialize (H wit_W 4 wit_rank LW NR ltac:(vm_compute; lia) 64 "" "E" wit_E ltac:(vm_compute; lia) eq_refl 64).
  assert (X : export 64 (fst (eval_env wit_W 64 "" "E" wit_E st0))
              = Some (XObj false false [("x", XObj false false [("b", XScalar false false (SNum "2"))])]))
    by (vm_compute; reflexivity).
  specialize (H _ X).
  assert (Y : wspec (S (wit_rank "E")) wit_W wit_E = JObj [("x", JObj [("b", JNum "2"); ("c", JNum "3")])])
    by (vm_compute; reflexivity).
  assert (Z : xjson (XObj false false [("x", XObj false false [("b", XScalar false false (SNum "2"))])])
              = JObj [("x", JObj [("b", JNum "2")])]) by (vm_compute; reflexivity).
  rewrite Y, Z in H. clear -H. discriminate H.
Qed.

(* ---------- non-vacuity ---------- *)
(* compat: true at nested depth; strictly weaker than the design's; false exactly on object / non-object / object *)
Example C01_compat_examples :
  compat [JObj [("a", JObj [("x", JNum "1")])]; JObj [("a", JObj [("y", JNum "2")])]] [JObj [("a", JObj [("z", JNum "3")]); ("b", JNum "4")]] = true
  /\ compat [JObj [("a", JNum "1")]; JNum "5"] [JObj []] = true
  /\ compat_design_f 16 [JObj [("a", JNum "1")]; JNum "5"] [JObj []] = false
  /\ compat [JObj [("a", JObj [("c", JNum "3")])]; JObj [("a", JNum "5")]] [JObj [("a", JObj [("b", JNum "2")])]] = false
  /\ flat_merge ([JObj [("a", JObj [("x", JNum "1")])]; JObj [("a", JObj [("y", JNum "2")])]] ++ [JObj [("a", JObj [("z", JNum "3")]); ("b", JNum "4")]])
     = JObj [("a", JObj [("x", JNum "1"); ("y", JNum "2"); ("z", JNum "3")]); ("b", JNum "4")].
Proof. vm_compute. repeat split. Qed.

(* export_flat_layers on a 3-layer chain with a cut *)
Example C01_export_flat_example :
  let js := [JObj [("k", JObj [("p", JBool true)])]; JObj [("k", JStr "s"); ("q", JNull)]; JObj [("k", JObj [("hidden", JNum "0")])]] in
  option_map xjson (export 64 (concat (map embed js))) = Some (flat_merge js)
  /\ flat_merge js = JObj [("k", JObj [("p", JBool true)]); ("q", JNull)].
Proof. vm_compute. split; reflexivity. Qed.

(* C01_deep / C01_evaluator_lit: a diamond with repetition and a merge:false import, depth 2 *)
Example C01_wgood_G : wgood 3 wit_W2 wit_G.
Proof. apply wgood_b_ok. vm_compute. reflexivity. Qed.

Example C01_lit_world_W2 : lit_world wit_W2 4 wit_rank.
Proof. apply lit_world_b_ok. vm_compute. reflexivity. Qed.

Example C01_evaluator_G : forall fuel root fx v,
  11 <= fuel -> export fx (fst (eval_env wit_W2 fuel root "G" wit_G st0)) = Some v ->
  xjson v = JObj [("x", JObj [("a", JNum "1"); ("b", JNum "2"); ("c", JNum "3"); ("g", JBool true)]); ("y", JArr [JNum "1"])].
Proof.
  intros fuel root fx v Hf E.
  exact (proj1 (C01_evaluator_lit wit_W2 4 wit_rank C01_lit_world_W2 (no_reserved_b_ok wit_W2 eq_refl) ltac:(vm_compute; lia)
                  fuel root "G" wit_G Hf eq_refl C01_wgood_G fx v E)).
Qed.

(* the same value, computed by the model directly *)
Example C01_evaluator_G_run :
  option_map xjson (ob_value (run 64 wit_W2 "G" wit_G))
  = Some (JObj [("x", JObj [("a", JNum "1"); ("b", JNum "2"); ("c", JNum "3"); ("g", JBool true)]); ("y", JArr [JNum "1"])]).
Proof. vm_compute. reflexivity. Qed.
