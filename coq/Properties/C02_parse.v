(* Properties/C02_parse.v — the step "decoded YAML syntax tree -> ast.EnvironmentDecl" (ast.ParseExpr,
   ast.ParseEnvironment), brought into the model as Model/Parse.v: the parser inverts the canonical rendering
   (evalgen.py's to_jsonable / render_env, here render_expr / render_env) on every canonical program, and every
   fall-back shape the parser builds is accompanied by a diagnostic.
   Statements only, closed by [exact]; proofs in Proofs/ParseProofs.v (on top of Proofs/InterpProofs.v).

   parse_expr t = (e, n, outside):  e the expression in the evaluator model's syntax (Model/Eval.v), n the number of
   diagnostics, outside = the Go AST has a shape [expr] cannot express (an entry without key, an fn::open without
   provider).  parse_env likewise for the top-level record (imports, values). *)
From Verif Require Import Base.Bytes Model.Chain Model.GoText Model.Eval Model.Interp Model.Parse.
From Verif Require Import Proofs.InterpProofs Proofs.ParseProofs Src.SrcParse Proofs.ParseSrc.

(* ====================================================================================================
   1. round trip: parse (render e) = e, no diagnostics — for every canonical expression / definition
   ==================================================================================================== *)
(* [canonical e] (a boolean function, Proofs/ParseProofs.v):
     string literals, number texts, provider names, ciphertexts and object keys are ARBITRARY byte strings (`$` is
       written `$$`; keys may even repeat);
     the key of a single-entry object literal does not start with "fn::" in any letter case;
     references are printable paths (C02_path_roundtrip) or the single empty name that `${}` denotes (path_ok),
       interpolation parts are in the parser's normal form (parts_normal) and are not one of the shapes that denote a
       plain string or a symbol (interp_proper);
     the plaintext of a secret is literal text in which no `${` is left unescaped (no_open);
     EMissing does not occur.
   Nesting depth, list lengths and the mix of builtins are unrestricted. *)
Theorem C02_parse_render_expr : forall e : expr,
  canonical e = true -> parse_expr (render_expr e) = (e, 0, false).
Proof. exact parse_render_expr. Qed.

(* definitions: any import names (taken as written) with any merge flags, any top-level keys (taken as written, repeats
   included), canonical values *)
Theorem C02_parse_render_env : forall d : envdef,
  canonical_env d = true -> parse_env (render_env d) = (d, 0, false).
Proof. exact parse_render_env. Qed.

(* the two string classes the statement rests on, each exact *)
Theorem C02_parse_literal_text : forall s : string, parse_expr (TStr (escape_dollar s)) = (EStr s, 0, false).
Proof. exact parse_literal_text. Qed.

Theorem C02_parse_plaintext_class : forall s : string,
  (exists t, fst (string_expr s) = EStr t) <-> no_open s = true.
Proof. exact plaintext_class. Qed.

Theorem C02_parse_reserved_prefix_escape : forall k : string, fn_reserved (escape_dollar k) = fn_reserved k.
Proof. exact fn_reserved_escape. Qed.

(* ====================================================================================================
   2. totality: the parser is a total function of the decoded tree (structural recursion, no fuel, no panic value:
      on trees the decoder produces — string keys, six node kinds — ast.ParseEnvironment has no failing type assertion
      and no nil dereference), and every fall-back shape it builds is REPORTED:
      a result without diagnostics contains no EMissing (nil Expr: fn::join / fn::open fall-backs), no entry without
      key and no fn::open without provider
   ==================================================================================================== *)
Theorem C02_parse_total : forall t : stree,
  snd (fst (parse_expr t)) = 0 ->
  snd (parse_expr t) = false /\ no_missing (fst (fst (parse_expr t))) = true.
Proof. exact parse_expr_reported. Qed.

Theorem C02_parse_env_total : forall t : stree,
  snd (fst (parse_env t)) = 0 ->
  snd (parse_env t) = false
  /\ forallb (fun kv : string * expr => no_missing (snd kv)) (ed_values (fst (fst (parse_env t)))) = true.
Proof. exact parse_env_reported. Qed.

(* ====================================================================================================
   3. exactness: diagnostics for EVERY malformed shape.  Whatever the parser accepts without a diagnostic is a canonical
      expression (and is not "outside"); hence the canonical class is exactly the image of the diagnostic-free parser,
      and any tree whose parse is not canonical — a builtin with a wrong argument shape, a reserved key, a key that is
      not a string literal, a reference that does not print back, … — draws at least one diagnostic
   ==================================================================================================== *)
Theorem C02_parse_accepts_canonical : forall t : stree,
  snd (fst (parse_expr t)) = 0 ->
  snd (parse_expr t) = false /\ canonical (fst (fst (parse_expr t))) = true.
Proof. exact parse_expr_accepted. Qed.

Theorem C02_parse_exact : forall e : expr,
  canonical e = true <-> exists t : stree, parse_expr t = (e, 0, false).
Proof. exact parse_exact. Qed.

Theorem C02_parse_env_accepts_canonical : forall t : stree,
  snd (fst (parse_env t)) = 0 -> snd (parse_env t) = false /\ canonical_env (fst (fst (parse_env t))) = true.
Proof. exact parse_env_accepted. Qed.

Theorem C02_parse_env_exact : forall d : envdef,
  canonical_env d = true <-> exists t : stree, parse_env t = (d, 0, false).
Proof. exact parse_env_exact. Qed.

(* the reserved prefix survives escaping and un-escaping (none of its bytes is a `$`) *)
Theorem C02_parse_reserved_prefix_unescape : forall k : string, fn_reserved (unescape_dollar k) = fn_reserved k.
Proof. exact fn_reserved_unescape. Qed.

(* ====================================================================================================
   4. the tables of the model are the tables of today's source (coq/Src/SrcParse.v is regenerated from ast/expr.go and
      ast/environment.go on every run): the switch of tryParseFunction with the parse function of every case, the
      short-open prefix tested and trimmed, the reserved prefix and its lower-casing, the keys of parseOpen, the arity
      of parseJoin, the key of parseSecret, the exported fields of EnvironmentDecl / ImportMetaDecl, no unknown-field
      warning at either record.  A changed table breaks this obligation (or follows into the correspondence).
   ==================================================================================================== *)
Theorem C02_parse_src_ok : parse_src_ok = true.
Proof. exact parse_src_ok_true. Qed.

(* the model's name switch IS the source's: a key selects parse function p in tryParseFunction's switch exactly when
   the model selects a kind that stands for p *)
Theorem C02_parse_fn_kind_in_source : forall (k : string) (kind : fnkind),
  fn_kind k = Some kind -> is_short kind = false -> in_table k (parser_of kind) = true.
Proof. exact fn_kind_in_source. Qed.

Theorem C02_parse_source_in_fn_kind : forall k p : string,
  in_table k p = true -> exists kind, fn_kind k = Some kind /\ is_short kind = false /\ parser_of kind = p.
Proof. exact source_in_fn_kind. Qed.

(* ====================================================================================================
   5. examples
   ==================================================================================================== *)
(* a program with every construct: hostile keys and texts, nested builtins, both secret forms, the short fn::open *)
Definition ex_prog : envdef :=
  {| ed_imports := [("base", true); ("org/other env", false); ("${not-a-ref}", true)];
     ed_values :=
       [("plain", EStr "cost: $5 ${not.a.ref}");
        ("fn::toJSON", ENum "3.5");                       (* top-level keys are taken as written *)
        ("ref", ESym [AName "a"; AKey "k.""q"; AIdx 0]);
        ("empty", ESym [AName ""]);                       (* `${}` *)
        ("mix", EInterp [("pre $", Some [AName "x"]); ("", Some [AKey "y z"; AIdx (-1)]); (" post", None)]);
        ("obj", EObj [("do$lar", ENull); ("fn::join", EBool true); ("fn::join", EArr [])]);
        ("one", EObj [("$fn::x", EObj [])]);
        ("j", EJoin (EStr ",") (EArr [EToString (ESym [AName "a"]); EFromB64 (EToB64 (EStr "x"))]));
        ("s", ESecretPlain "pa$$word $${x}");
        ("c", ESecretCipher "ZXNjeAAAAAEQbF1s");
        ("o", EOpen "aws::login $p" (EObj [("region", EStr "us"); ("n", EFromJSON (EToJSON (ENum "1")))]))] |}.

Example C02_parse_ex_canonical : canonical_env ex_prog = true.
Proof. vm_compute. reflexivity. Qed.

Example C02_parse_ex_roundtrip : parse_env (render_env ex_prog) = (ex_prog, 0, false).
Proof. vm_compute. reflexivity. Qed.

Example C02_parse_ex_render :
  render_expr (EObj [("do$lar", ESecretPlain "p$$"); ("r", ESym [AName "a"; AIdx 0])])
  = TObj [("do$$lar", TObj [("fn::secret", TStr "p$$")]); ("r", TStr "${a[0]}")].
Proof. vm_compute. reflexivity. Qed.

(* malformed shapes: the fall-back expression, the number of diagnostics, the "outside" flag *)
Example C02_parse_ex_join_shape :
  parse_expr (TObj [("fn::join", TNum "5")]) = (EJoin EMissing EMissing, 1, false)
  /\ parse_expr (TObj [("fn::join", TArr [TStr ","; TArr []; TNull])]) = (EJoin EMissing EMissing, 1, false)
  /\ parse_expr (TObj [("fn::join", TArr [TStr ","; TStr "${x"])]) = (EJoin (EStr ",") (ESym [AName "x"]), 1, false).
Proof. repeat split; vm_compute; reflexivity. Qed.

Example C02_parse_ex_open_shape :
  parse_expr (TObj [("fn::open", TStr "hello")]) = (EOpen "" EMissing, 1, true)
  /\ parse_expr (TObj [("fn::open", TObj [("provider", TNum "5")])]) = (EOpen "" EMissing, 2, true)
  /\ parse_expr (TObj [("fn::open", TObj [("inputs", TObj []); ("provider", TStr "p"); ("provider", TStr "q")])])
     = (EOpen "q" (EObj []), 0, false)
  /\ parse_expr (TObj [("fn::open::", TNull)]) = (EOpen "" ENull, 0, false).
Proof. repeat split; vm_compute; reflexivity. Qed.

Example C02_parse_ex_secret_shape :
  parse_expr (TObj [("fn::secret", TArr [TNum "1"])]) = (ESecretPlain "", 1, false)
  /\ parse_expr (TObj [("fn::secret", TStr "${b}")]) = (ESecretPlain "", 1, false)
  /\ parse_expr (TObj [("fn::secret", TObj [("ciphertext", TNum "5")])]) = (ESecretPlain "", 1, false)
  /\ parse_expr (TObj [("fn::secret", TObj [("ciphertext", TStr "a$$b")])]) = (ESecretCipher "a$b", 0, false)
  /\ parse_expr (TObj [("fn::secret", TStr "a$$b")]) = (ESecretPlain "a$$b", 0, false).
Proof. repeat split; vm_compute; reflexivity. Qed.

Example C02_parse_ex_keys :
  parse_expr (TObj [("FN::JOIN", TNum "1")]) = (EObj [("FN::JOIN", ENum "1")], 1, false)
  /\ parse_expr (TObj [("fn::join", TNum "1"); ("extra", TNull)]) = (EObj [("fn::join", ENum "1"); ("extra", ENull)], 0, false)
  /\ parse_expr (TObj [("${x}", TNum "1")]) = (EObj [("${x}", ENum "1")], 1, true)
  /\ parse_expr (TObj [("a$$b", TNum "1")]) = (EObj [("a$b", ENum "1")], 0, false).
Proof. repeat split; vm_compute; reflexivity. Qed.

Example C02_parse_ex_env_shapes :
  parse_env (TNum "5") = ({| ed_imports := []; ed_values := [] |}, 1, false)
  /\ parse_env (TObj [("imports", TNum "5"); ("values", TArr []); ("unknown", TNull)])
     = ({| ed_imports := []; ed_values := [] |}, 2, false)
  /\ parse_env (TObj [("IMPORTS", TArr [TStr "a$$b"; TObj [("b", TObj [("Merge", TStr "no")])]; TNum "5";
                                          TObj [("c", TNull)]; TObj [("d", TObj []); ("e", TObj [])]])])
     = ({| ed_imports := [("a$$b", true); ("b", false); ("c", true)]; ed_values := [] |}, 4, false)
  /\ parse_env (TObj [("values", TObj [("a", TNum "1")]); ("Values", TObj [("b$$", TNum "2")])])
     = ({| ed_imports := []; ed_values := [("b$$", ENum "2")] |}, 0, false).
Proof. repeat split; vm_compute; reflexivity. Qed.
