From Verif Require Import Model.Chain.
Example C10_placeholder : 1 = 1. Proof. reflexivity. Qed.
