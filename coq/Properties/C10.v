(* Properties/C10.v — An imported environment means the same everywhere.
   Only statements closed by [exact]; the proofs live in Proofs/ChainAlgebra{Eval,Lit,Env}.v.
   In the model chains are immutable values, so the aliasing half of the property (Go's merges mutate; the defensive
   copier) is runtime behaviour that only the correspondence check can observe; what is proved here is the memo
   discipline of the imports table and the state-independence of the value. *)
From Verif Require Import Base.Bytes Model.Chain Model.Eval Corr.EvalWire Corr.C01
  Proofs.ChainAlgebraSorted Proofs.ChainAlgebraExport Proofs.ChainAlgebra Proofs.ChainAlgebraDeep
  Proofs.ChainAlgebraEval Proofs.ChainAlgebraLit Proofs.ChainAlgebraEnv Proofs.ChainAlgebraSrc Proofs.ChainAlgebraLink.
From Coq Require Import Lia.
Local Open Scope nat_scope.

(* [imp_loop] is the import loop of eval_env (a named twin of the model's local fix) *)
Theorem C10_eval_env_S : forall (W : world) (f : nat) (root name : string) (d : envdef),
  eval_env W (S f) root name d =
    (let root' := if String.eqb root "" || String.eqb root "<yaml>" then name else root in
     imps_set name {| is_evaluating := true; is_value := None |} ;;;
     r <- imp_loop W (eval_env W f) root' (ed_imports d) [] [] ;;
     let '(base, my) := r in
     imps_set name {| is_evaluating := false; is_value := None |} ;;;
     add_err (N.of_nat (length (filter (fun kv => reserved (fst kv)) (ed_values d)))) ;;;
     let E := env_ctx W root' name d base my in
     eval_expr W f E (EObj (ec_values E)) false base (name, [])).
Proof. exact eval_env_S. Qed.

(* ---------- 6. the imports table is a memo ---------- *)
(* an import already in the table and not in progress is not re-evaluated (no load, no event, state untouched) and contributes
   exactly the stored value to imports.<n> and, when merged, to the base: for every position, listing order and repetition;
   an entry without a value is the memo of a FAILED import (eval.go: imported{failed: true}): nothing is loaded, reported,
   stored or merged *)
Theorem C10_imports_table_is_memo : forall (W : world) rec r n merge rest base my s i,
  alookup n (imps s) = Some i -> is_evaluating i = false ->
  imp_loop W rec r ((n, merge) :: rest) base my s =
    match is_value i with
    | Some v => imp_loop W rec r rest (if merge then v ++ base else base) (ainsert n v my) s
    | None => imp_loop W rec r rest base my s
    end.
Proof. exact imports_table_is_memo. Qed.

Theorem C10_imports_cycle_skipped : forall (W : world) rec r n merge rest base my s i,
  alookup n (imps s) = Some i -> is_evaluating i = true ->
  imp_loop W rec r ((n, merge) :: rest) base my s = imp_loop W rec r rest base my (snd (err s)).
Proof. exact imports_cycle_skipped. Qed.

(* the first encounter evaluates once and enters the result in the table, so every later occurrence is a memo hit *)
Theorem C10_imports_first_load : forall (W : world) rec r n merge rest base my s d',
  alookup n (imps s) = None -> w_fault W = None -> alookup n (w_envs W) = Some (LoadOk d') ->
  imp_loop W rec r ((n, merge) :: rest) base my s =
    let s1 := snd (emit (EvLoad n) (snd (call W s))) in
    let '(v, s2) := rec r n d' s1 in
    let s3 := set_imps n {| is_evaluating := false; is_value := Some v |} s2 in
    imp_loop W rec r rest (if merge then v ++ base else base) (ainsert n v my) s3.
Proof. exact imports_first_load. Qed.

Theorem C10_table_after_store : forall n i s, alookup n (imps (set_imps n i s)) = Some i.
Proof. exact set_imps_lookup. Qed.

(* ---------- 7. merging does not alter ---------- *)
(* ${imports.X} is exactly the stored chain, with no diagnostics *)
Theorem C10_imports_access_stored : forall (f : nat) (my : list (string * chain)) (x : string) (c : chain),
  alookup x my = Some c ->
  value_access (S (S f)) (imports_value my) [AName x] = (c ++ [], 0%N)
  /\ value_access (S (S f)) (imports_value my) [AKey x] = (c ++ [], 0%N).
Proof. exact imports_access_stored. Qed.

Theorem C10_imports_access_path : forall (f : nat) (my : list (string * chain)) (x : string) (rest : path) (c : chain) (a : accessor),
  object_key a = Some x -> alookup x my = Some c ->
  value_access (S f) (imports_value my) (a :: rest) = value_access f c rest.
Proof. exact imports_value_access. Qed.

(* storing further imports under other names leaves the entry for x alone *)
Theorem C10_merge_does_not_alter : forall (k x : string) (v : chain) (my : list (string * chain)),
  alookup x (ainsert k v my) = if String.eqb x k then Some v else alookup x my.
Proof. exact (fun k x v my => alookup_ainsert k x v my). Qed.

(* what the loop stores under imports.<x>, and the final state, never depend on the base values are merged onto *)
Theorem C10_imp_loop_base_irrelevant : forall (W : world) rec r is base base' my s,
  snd (fst (imp_loop W rec r is base my s)) = snd (fst (imp_loop W rec r is base' my s))
  /\ snd (imp_loop W rec r is base my s) = snd (imp_loop W rec r is base' my s).
Proof. exact imp_loop_base_irrelevant. Qed.

(* ---------- 8. the value does not depend on the importer, the path, the listing order, the root or the fuel ---------- *)
(* the full intended statement, for arbitrary expressions: every table entry left by evaluating R is the value of X opened on
   its own (environments not reading context.rootEnvironment; acyclic, fault-free worlds).  NOT proved in this generality:
   what is missing is a denotation of eval_expr/walk/eval_access for references, built-ins and providers together with the
   invariant that the shared expression memo only ever holds such denotations (the literal case below needs only freshness
   of memo ids). *)
Definition C10_memo_eq_pure_statement : Prop :=
  forall (W : world) (rank : string -> nat),
    w_fault W = None ->
    (forall n d im, env_of W n = Some d -> In im (ed_imports d) -> rank (fst im) < rank n) ->
    (forall n d, env_of W n = Some d -> no_context_reference d) ->
    forall (fuel fuel' : nat) (root root' R X : string) (dR dX : envdef) (i : imp_state),
      env_of W R = Some dR -> env_of W X = Some dX -> X <> R ->
      oof (snd (eval_env W fuel root R dR st0)) = false -> oof (snd (eval_env W fuel' root' X dX st0)) = false ->
      alookup X (imps (snd (eval_env W fuel root R dR st0))) = Some i ->
      is_value i = Some (fst (eval_env W fuel' root' X dX st0)).

(* proved for worlds of literal environments: *)
Theorem C10_imported_same_everywhere_lit : forall (W : world) (M0 : nat) (rank : string -> nat), lit_world W M0 rank ->
  forall (fuel : nat) (root R : string) (dR : envdef) (X : string) (i : imp_state),
    need M0 rank R <= fuel -> env_of W R = Some dR -> X <> R ->
    alookup X (imps (snd (eval_env W fuel root R dR st0))) = Some i ->
    (exists dX, env_of W X = Some dX /\ i = done (dn W M0 rank X dX) /\
                forall fuel' root', need M0 rank X <= fuel' -> is_value i = Some (fst (eval_env W fuel' root' X dX st0)))
    \/ (env_of W X = None /\ i = failed_imp).     (* a name the loader does not serve: the remembered failure *)
Proof. exact imported_same_everywhere_lit. Qed.

(* for a name the loader serves (the hypothesis of C10_memo_eq_pure_statement) the entry is the standalone value *)
Theorem C10_imported_same_everywhere_lit_served : forall (W : world) (M0 : nat) (rank : string -> nat), lit_world W M0 rank ->
  forall (fuel : nat) (root R : string) (dR : envdef) (X : string) (dX : envdef) (i : imp_state),
    need M0 rank R <= fuel -> env_of W R = Some dR -> X <> R -> env_of W X = Some dX ->
    alookup X (imps (snd (eval_env W fuel root R dR st0))) = Some i ->
    i = done (dn W M0 rank X dX) /\
    forall fuel' root', need M0 rank X <= fuel' -> is_value i = Some (fst (eval_env W fuel' root' X dX st0)).
Proof. exact imported_same_everywhere_lit_served. Qed.

(* state-independence: from ANY admissible incoming state (memo and table entries of other environments), any root, any
   sufficient fuel, eval_env returns the pure denotation *)
Theorem C10_memo_eq_pure_lit : forall (W : world) (M0 : nat) (rank : string -> nat), lit_world W M0 rank ->
  forall (fuel fuel' : nat) (root root' name : string) (d : envdef) (s s' : st),
    need M0 rank name <= fuel -> need M0 rank name <= fuel' -> env_of W name = Some d ->
    pre W M0 rank name s -> pre W M0 rank name s' ->
    fst (eval_env W fuel root name d s) = fst (eval_env W fuel' root' name d s') /\
    fst (eval_env W fuel root name d s) = dn W M0 rank name d.
Proof. exact memo_eq_pure_lit. Qed.

Theorem C10_pre_st0 : forall W M0 rank name, pre W M0 rank name st0.
Proof. exact pre_st0. Qed.

(* ---------- non-vacuity ---------- *)
(* a memo hit on concrete data: B is in the table; importing [B, B] loads nothing and stores/merges the stored chain twice *)
Example C10_memo_example :
  let v := [LScalar false false (ScType "number") (SNum "5")] in
  let s := set_imps "B" {| is_evaluating := false; is_value := Some v |} st0 in
  imp_loop wit_W (eval_env wit_W 8) "R" [("B", true); ("B", false)] [] [] s = ((v, [("B", v)]), s).
Proof. vm_compute. reflexivity. Qed.

Example C01_lit_world_W2_for_C10 : lit_world wit_W2 4 wit_rank.
Proof. apply lit_world_b_ok. vm_compute. reflexivity. Qed.

(* an admissible non-initial state: A already evaluated and stored *)
Definition s_A : st := set_imps "A" (done (dn wit_W2 4 wit_rank "A" wit_A)) st0.

Example C10_pre_sA : pre wit_W2 4 wit_rank "G" s_A.
Proof.
  split; [reflexivity|]. split; [intros ? ? []|]. split.
  - intros n i Hn Hi. unfold s_A, set_imps, imps_set in Hn. cbn [snd imps alookup] in Hn.
    destruct (String.eqb n "A") eqn:E; [|discriminate]. apply String.eqb_eq in E. subst n. injection Hn as <-.
    left. exists wit_A. split; reflexivity.
  - intros n i Hn Hi. unfold s_A, set_imps, imps_set in Hn. cbn [snd imps alookup] in Hn.
    destruct (String.eqb n "A"); [|discriminate]. injection Hn as <-. discriminate.
Qed.

(* G evaluated over that state (A comes from the table) and from scratch (A is loaded and evaluated), different roots and fuels *)
Example C10_memo_eq_pure_G :
  fst (eval_env wit_W2 20 "other-root" "G" wit_G s_A) = fst (eval_env wit_W2 64 "" "G" wit_G st0).
Proof.
  exact (proj1 (memo_eq_pure_lit wit_W2 4 wit_rank C01_lit_world_W2_for_C10 20 64 "other-root" "" "G" wit_G s_A st0
                  ltac:(vm_compute; lia) ltac:(vm_compute; lia) eq_refl C10_pre_sA (pre_st0 _ _ _ _))).
Qed.

(* a table in which the first entry of every name other than [g] has a value holds no remembered failure but [g]'s own *)
Lemma C10_no_failed_entry : forall (tbl : list (string * imp_state)) (X g : string),
  forallb (fun k => match alookup k tbl with
                    | Some e => match is_value e with Some _ => true | None => String.eqb k g end
                    | None => true end) (map fst tbl) = true ->
  alookup X tbl = Some failed_imp -> X = g.
Proof.
  intros tbl X g T Hi. rewrite forallb_forall in T. specialize (T X). rewrite Hi in T. cbn [failed_imp is_value] in T.
  apply String.eqb_eq, T. clear T. revert Hi. induction tbl as [|[k v] l IH]; [discriminate|]. cbn [alookup map fst].
  destruct (String.eqb X k) eqn:E; [intros _; left; symmetry; now apply String.eqb_eq|intros H; right; exact (IH H)].
Qed.

(* D2 is reached twice from G (repetition) and A both directly and through D2 (diamond): every table entry is the standalone value *)
Example C10_same_everywhere_G : forall X i,
  X <> "G" -> alookup X (imps (snd (eval_env wit_W2 64 "" "G" wit_G st0))) = Some i ->
  exists dX, env_of wit_W2 X = Some dX /\ is_value i = Some (fst (eval_env wit_W2 64 "" X dX st0)).
Proof.
  intros X i Hne Hi.
  destruct (imported_same_everywhere_lit wit_W2 4 wit_rank C01_lit_world_W2_for_C10 64 "" "G" wit_G X i
              ltac:(vm_compute; lia) eq_refl Hne Hi) as [(dX & HdX & _ & H)|(_ & ->)].
  - exists dX. split; [exact HdX|]. apply H.
    assert (R : wit_rank X <= 2) by (unfold wit_rank; repeat match goal with |- context [String.eqb X ?k] => destruct (String.eqb X k) end; lia).
    unfold need. lia.
  - (* no import of this world fails: every table entry other than G's own has a value *)
    exfalso.
    assert (T : forallb (fun k => match alookup k (imps (snd (eval_env wit_W2 64 "" "G" wit_G st0))) with
                                  | Some e => match is_value e with Some _ => true | None => String.eqb k "G" end
                                  | None => true end) (map fst (imps (snd (eval_env wit_W2 64 "" "G" wit_G st0)))) = true)
      by (vm_compute; reflexivity).
    exact (Hne (C10_no_failed_entry _ X "G" T Hi)).
Qed.
