(* Properties/C19.v — Reported source ranges point at the right text.
   Only statements closed by [exact]; the proofs live in Proofs/Positions*.v.

   [src_params] are the facts srcfacts reads from syntax/encoding/yaml.go on this run.  [u : uniseg] is the library
   github.com/rivo/uniseg, an external collaborator: every theorem below holds for EVERY behaviour of it, and the
   domain on which a statement needs the library to behave in a certain way is a hypothesis written in the statement:
     w1_prefix (u_seg u l) cs     the first clusters uniseg.Step yields on the line l are the code points cs, each of
                                  width 1.  FALSE for a TAB (width 0), for East-Asian wide characters and emoji
                                  (width 2: 世), for combining sequences (two code points, one cluster).
     u_width u v = nchars v       uniseg.StringWidth counts one column per code point of v.
   Both are irrelevant (not assumed) when the source advances one column per code point (pp_runes / pp_sr_runes).

   For each of the five statements there is
     C19_x_partial             the statement outside a decidable class, for today's source,
     C19_x_refuted             the full statement [C19_x_full src_params u] fails for today's source (conditional on
                               the source fact still having the defective value; witness checked by computation, the
                               same document is replayed against the implementation by the correspondence),
     C19_x_full_if_repaired    the full statement for EVERY parameter record with the repairs and every library.
   begin_le_end has no refutation: it holds for every node as stated (C19_begin_le_end, C19_begin_le_end_bytes).

   Decidable classes the partial statements exclude (and the recorded finding each one is):
     irregular_before    a cluster that is not one code point of width 1 before the position, on a line with non-ASCII
                         text (C19-zero-width); empty when pos advances one column per code point
     end_missing         the (line, column) the code computes for the END of a node does not exist in the text.  The end
                         is computed by the code under test from yaml.v3's value: begin column + length of the value
                         (of its last line for a literal scalar).  Excluded by this: block (|) scalars whose last
                         content line is shorter than the column of the `|` (C19_strict_column_refuted: the block
                         scalar of the witness, for every parameter record), folded (>) scalars, plain and quoted
                         scalars continued on following lines (their folded value is longer than the rest of the
                         first line), non-ASCII values while the length is in bytes (C19-bytes), and every collection
                         whose last descendant is one of these (C19-past-eol).  What holds for these nodes all the
                         same is C19_begin_le_end_bytes (begin correct, range reported, begin <= end in bytes);
                         what fails is C19_range_in_text_refuted (the end byte lies outside the text).
     non-ASCII value     scalar ends are computed with the byte length (C19-bytes); empty with the character count
     anchored            yaml.v3 reports an anchored scalar `&x 1` at the `&` with the value `1`: the hypothesis
                         "the value stands at (line, column)" of the slice theorems is false for such nodes, and the
                         code gives them the first |value| characters of `&x 1` (C19_anchored_slice_refuted,
                         C19-anchored).  The slice theorems are stated for nodes without anchor. *)
From Verif Require Import Base.Bytes Model.Positions Src.SrcPositions
  Proofs.PositionsBase Proofs.PositionsProofs Proofs.PositionsScan Proofs.PositionsSrc.
Local Open Scope Z_scope.

(* side condition on the source: the guard of pos lets every line of the text through, the last one included
   (line < 1 || line > len(lines)); discharged by computation on the extracted facts *)
Theorem C19_src_line_table_ok : line_table_fixed src_params = true.
Proof. exact src_line_table_fixed. Qed.

(* ===================================== 1. pos_consistent ===================================== *)
(* for every (line, col) inside the text — [true_byte] is the specification: the lines before, each with its newline,
   plus the first col-1 characters of the line — the reported byte offset is that one *)
Theorem C19_pos_consistent_partial : forall u text line col b,
  true_byte text line col = Some b ->
  irregular_before src_params u text line col = false ->
  pos src_params u (new_position_index text) line col = Some {| p_line := line; p_col := col; p_byte := b |}.
Proof. exact src_pos_consistent. Qed.

(* the same with the decomposition and the domain hypothesis written out: text = pre-lines ++ (cs1 ++ cs2) ++ post *)
Theorem C19_pos_offset_of_line_and_chars : forall u text pre l post cs1 cs2,
  lines_of text = pre ++ l :: post -> chars_of l = cs1 ++ cs2 ->
  (pp_runes src_params = true \/ is_ascii_str l = true \/ w1_prefix (u_seg u l) cs1 = true) ->
  pos src_params u (new_position_index text) (Z.of_nat (length pre) + 1) (Z.of_nat (length cs1) + 1)
  = Some {| p_line := Z.of_nat (length pre) + 1; p_col := Z.of_nat (length cs1) + 1;
            p_byte := lines_len pre + slenZ (concat_str cs1) |}.
Proof. exact src_pos_decomp. Qed.

(* the full statement (no class) *)
Definition C19_pos_consistent_full (p : pos_params) (u : uniseg) : Prop := forall text line col b,
  true_byte text line col = Some b ->
  pos p u (new_position_index text) line col = Some {| p_line := line; p_col := col; p_byte := b |}.

(* refuted while pos advances by uniseg width: a TAB before the position (width 0) and a wide character before the
   position (世, width 2), both on a line with non-ASCII text *)
Theorem C19_pos_consistent_refuted : pp_runes src_params = false ->
  ~ C19_pos_consistent_full src_params (uniseg_simple []) /\ ~ C19_pos_consistent_full src_params (uniseg_simple [wide_char]).
Proof. exact src_pos_consistent_not_full. Qed.

Theorem C19_pos_consistent_refuted_witness : pp_runes src_params = false ->
  bad_pos src_params (uniseg_simple []) tab_text 2 20 = true
  /\ bad_pos src_params (uniseg_simple [wide_char]) wide_text 2 7 = true.
Proof. exact src_pos_consistent_refuted. Qed.

(* the two witnesses lie outside the domain of the partial theorem, the second one only because 世 is wide *)
Theorem C19_pos_consistent_refuted_outside_domain : pp_runes src_params = false ->
  irregular_before src_params (uniseg_simple []) tab_text 2 20 = true
  /\ irregular_before src_params (uniseg_simple [wide_char]) wide_text 2 7 = true
  /\ irregular_before src_params (uniseg_simple []) wide_text 2 7 = false.
Proof. exact refuted_witnesses_are_irregular. Qed.

Theorem C19_pos_consistent_full_if_repaired : forall p u,
  line_table_fixed p = true -> pp_runes p = true -> C19_pos_consistent_full p u.
Proof. exact pos_consistent_full_if. Qed.

(* the text is its lines joined by newlines (with and without a final newline) *)
Theorem C19_text_is_its_lines : forall text, join_nl (lines_of text) = text.
Proof. exact lines_join. Qed.

(* the specification has a second, independent definition — one pass over the bytes counting newlines and code
   points — and the two agree on every text whose lines are whole code points (valid UTF-8); the oracle of the
   correspondence evaluates both *)
Theorem C19_two_definitions_agree : forall text line col,
  Forall (fun l => complete l = true) (lines_of text) ->
  scan_pos text 0 1 1 0 line col = true_byte text line col.
Proof. exact scan_pos_true_byte. Qed.

(* the oracle of the correspondence evaluates the specification over a table of the lines with their offsets, built
   once per document, and reads newline / UTF-8 lead bytes off the bits: the same functions *)
Theorem C19_fast_oracle_is_the_specification : forall text line col,
  true_byte_tab (text_table text) line col = true_byte text line col
  /\ (forall p u, irregular_before_tab p u (text_table text) line col = irregular_before p u text line col)
  /\ (forall value, located_tab text (text_table text) line col value = located text line col value).
Proof. exact fast_oracle_ok. Qed.

Theorem C19_byte_classes_by_bits : forall c, rune_size c = rune_size_N c /\ is_nl c = is_nl_N c.
Proof. exact byte_classes_ok. Qed.

(* the ASCII fast path of pos computes what the general walk computes, on the stated domain *)
Theorem C19_ascii_fast_path : forall cls l off col,
  is_ascii_str l = true -> w1_prefix cls (chars_of l) = true ->
  1 <= col -> col - 1 <= slenZ l ->
  walk cls off 1 col = off + col - 1.
Proof. exact ascii_fast_path. Qed.

(* positions that exist in the text are inside it and ordered like (line, column) *)
Theorem C19_position_in_text : forall text line col b, true_byte text line col = Some b -> 0 <= b <= slenZ text.
Proof. exact true_byte_bounds. Qed.

Theorem C19_position_order : forall text l1 c1 b1 l2 c2 b2,
  true_byte text l1 c1 = Some b1 -> true_byte text l2 c2 = Some b2 -> lex_le l1 c1 l2 c2 -> b1 <= b2.
Proof. exact true_byte_mono. Qed.

(* ===================================== 2. range_in_text ===================================== *)
(* the range of ANY node (scalar of any style, collection) outside the class [end_missing]: both positions are
   consistent, the range lies in the text, begin <= end *)
Theorem C19_range_in_text_partial : forall u text n tb,
  true_byte text (yn_line n) (yn_col n) = Some tb ->
  end_missing src_params text n = false ->
  irregular_before src_params u text (yn_line n) (yn_col n) = false ->
  irregular_before src_params u text (fst (end_lc src_params n)) (snd (end_lc src_params n)) = false ->
  lex_le (yn_line n) (yn_col n) (fst (end_lc src_params n)) (snd (end_lc src_params n)) ->
  exists te,
    true_byte text (fst (end_lc src_params n)) (snd (end_lc src_params n)) = Some te
    /\ node_range src_params u (new_position_index text) n
       = Some ({| p_line := yn_line n; p_col := yn_col n; p_byte := tb |},
               {| p_line := fst (end_lc src_params n); p_col := snd (end_lc src_params n); p_byte := te |})
    /\ 0 <= tb /\ tb <= te /\ te <= slenZ text.
Proof. exact src_range_in_text_class. Qed.

(* the full statement: every node whose begin exists and whose end line is a line of the text *)
Definition C19_range_in_text_full (p : pos_params) (u : uniseg) : Prop := forall text n tb,
  true_byte text (yn_line n) (yn_col n) = Some tb ->
  lex_le (yn_line n) (yn_col n) (fst (end_lc p n)) (snd (end_lc p n)) ->
  1 <= snd (end_lc p n) ->
  fst (end_lc p n) <= Z.of_nat (length (lines_of text)) ->
  exists e, node_range p u (new_position_index text) n
            = Some ({| p_line := yn_line n; p_col := yn_col n; p_byte := tb |}, e)
    /\ 0 <= tb /\ tb <= p_byte e /\ p_byte e <= slenZ text.

(* refuted, whatever the library does (the witness is ASCII): the block scalar of
   "values:\n  some_long_key_name: |\n    a\n" ends at byte 54 of a 38-byte text (known finding C19-past-eol) *)
Theorem C19_range_in_text_refuted : pp_clamp src_params = false -> forall u, ~ C19_range_in_text_full src_params u.
Proof. exact src_range_in_text_not_full. Qed.

Theorem C19_range_in_text_refuted_witness : pp_clamp src_params = false ->
  forall u, end_outside src_params u literal_text literal_node = true.
Proof. exact src_range_in_text_refuted. Qed.

(* that node is in the excluded class, for every parameter record: its end column does not exist on its line *)
Theorem C19_strict_column_refuted : forall p,
  past_eol literal_text (fst (end_lc p literal_node)) (snd (end_lc p literal_node)) = true
  /\ end_missing p literal_text literal_node = true.
Proof. exact strict_column_refuted. Qed.

Theorem C19_range_in_text_full_if_repaired : forall p u,
  line_table_fixed p = true -> pp_runes p = true -> pp_clamp p = true -> C19_range_in_text_full p u.
Proof. exact range_in_text_full_if. Qed.

(* ===================================== 3. begin_le_end ===================================== *)
(* the (line, column) of the end is never before that of the begin: scalars by construction, collections when
   yaml.v3 lists children in document order *)
Theorem C19_begin_le_end : forall n, ordered n ->
  lex_le (yn_line n) (yn_col n) (fst (end_lc src_params n)) (snd (end_lc src_params n)).
Proof. exact src_node_order. Qed.

(* ... and in bytes, for EVERY node whose begin exists (block, folded and multi-line scalars included: no hypothesis
   on the end beyond its line being a line of the text): the range is reported, begins at the right byte, and the end
   byte is not before the begin byte *)
Theorem C19_begin_le_end_bytes : forall u text n tb,
  true_byte text (yn_line n) (yn_col n) = Some tb ->
  irregular_before src_params u text (yn_line n) (yn_col n) = false ->
  lex_le (yn_line n) (yn_col n) (fst (end_lc src_params n)) (snd (end_lc src_params n)) ->
  1 <= snd (end_lc src_params n) ->
  fst (end_lc src_params n) <= Z.of_nat (length (lines_of text)) ->
  exists e, node_range src_params u (new_position_index text) n
            = Some ({| p_line := yn_line n; p_col := yn_col n; p_byte := tb |}, e)
    /\ p_line e = fst (end_lc src_params n) /\ p_col e = snd (end_lc src_params n)
    /\ 0 <= tb /\ tb <= p_byte e.
Proof. exact src_range_bytes_ordered. Qed.

(* ===================================== 4. plain_scalar_slice ===================================== *)
(* a plain single-line scalar [value] WITHOUT anchor located where yaml says (after the characters [a] on line
   |pre|+1; [pre], [post] arbitrary, [post] = [] is the last line without a final newline; [a] may contain non-ASCII
   text): both positions exist in the text and text[begin, end) = value *)
Theorem C19_plain_scalar_slice_partial : forall u text pre a value z post tag,
  lines_of text = pre ++ (a +++ value +++ z) :: post ->
  complete a = true -> complete value = true ->
  (pp_end_chars src_params = true \/ is_ascii_str value = true) ->
  (pp_runes src_params = true \/ is_ascii_str (a +++ value +++ z) = true
   \/ w1_prefix (u_seg u (a +++ value +++ z)) (chars_of (a +++ value)) = true) ->
  let line := Z.of_nat (length pre) + 1 in
  let col := nchars a + 1 in
  let b := lines_len pre + slenZ a in
  let e := b + slenZ value in
  node_range src_params u (new_position_index text) (YNode 8 0 tag value line col false [])
  = Some ({| p_line := line; p_col := col; p_byte := b |},
          {| p_line := line; p_col := col + nchars value; p_byte := e |})
  /\ substr b e text = value
  /\ 0 <= b /\ b <= e /\ e <= slenZ text
  /\ true_byte text line col = Some b /\ true_byte text line (col + nchars value) = Some e.
Proof. exact src_plain_scalar_slice. Qed.

Definition C19_plain_scalar_slice_full (p : pos_params) (u : uniseg) : Prop := forall text pre a value z post tag,
  lines_of text = pre ++ (a +++ value +++ z) :: post ->
  complete a = true -> complete value = true ->
  let line := Z.of_nat (length pre) + 1 in
  let col := nchars a + 1 in
  exists b e, node_range p u (new_position_index text) (YNode 8 0 tag value line col false []) = Some (b, e)
              /\ substr (p_byte b) (p_byte e) text = value
              /\ 0 <= p_byte b /\ p_byte b <= p_byte e /\ p_byte e <= slenZ text.

Theorem C19_plain_scalar_slice_refuted : pp_end_chars src_params = false ->
  ~ C19_plain_scalar_slice_full src_params (uniseg_simple []).
Proof. exact src_plain_scalar_slice_not_full. Qed.

Theorem C19_plain_scalar_slice_refuted_witness : pp_end_chars src_params = false ->
  bad_slice src_params (uniseg_simple []) nonascii_text 2 10 nonascii_value = true.
Proof. exact src_plain_scalar_slice_refuted. Qed.

Theorem C19_plain_scalar_slice_full_if_repaired : forall p u,
  line_table_fixed p = true -> pp_runes p = true -> pp_end_chars p = true -> C19_plain_scalar_slice_full p u.
Proof. exact plain_scalar_slice_full_if. Qed.

(* anchored scalars are outside the slice statements: for EVERY parameter record whose guard lets the lines through
   and every library, the range reported for the value `1` of `f: &x 1` is the text "&" — two positions that exist in
   the text, delimiting the wrong text (known finding C19-anchored) *)
Theorem C19_anchored_slice_refuted : forall p u, line_table_fixed p = true ->
  exists b e, node_range p u (new_position_index anchored_text) anchored_node = Some (b, e)
              /\ substr (p_byte b) (p_byte e) anchored_text = "&"
              /\ true_byte anchored_text 2 6 = Some (p_byte b)
              /\ true_byte anchored_text 2 7 = Some (p_byte e).
Proof. exact anchored_slice_refuted. Qed.

(* the anchor flag is not an input of the computation *)
Theorem C19_node_range_ignores_anchor : forall p u idx k s t v l c a1 a2 ch,
  node_range p u idx (YNode k s t v l c a1 ch) = node_range p u idx (YNode k s t v l c a2 ch).
Proof. exact node_range_ignores_anchor. Qed.

(* ===================================== 5. scalar_subrange ===================================== *)
(* accessor ranges: the piece v2 of a plain single-line scalar v1 ++ v2 ++ v3 without anchor *)
Theorem C19_scalar_subrange_partial : forall u text pre a v1 v2 v3 z post tag style,
  let value := v1 +++ v2 +++ v3 in
  lines_of text = pre ++ (a +++ value +++ z) :: post ->
  complete a = true -> complete v1 = true -> complete v2 = true -> complete v3 = true ->
  (pp_end_chars src_params = true \/ is_ascii_str value = true) ->
  (style = 0 \/ style = 32)%N ->
  let line := Z.of_nat (length pre) + 1 in
  let col := nchars a + 1 in
  (pp_runes src_params = true \/ is_ascii_str (a +++ value +++ z) = true
   \/ w1_prefix (u_seg u (a +++ value +++ z)) (chars_of (a +++ value)) = true) ->
  (pp_sr_runes src_params = true
   \/ (u_width u v1 = nchars v1 /\ u_width u (v1 +++ v2) = nchars (v1 +++ v2))) ->
  forall rng, node_range src_params u (new_position_index text) (YNode 8 0 tag value line col false []) = Some rng ->
  exists b' e',
    scalar_range src_params u (YNode 8 style tag value line col false []) rng
                 (String.length v1) (String.length v1 + String.length v2) = Some (b', e')
    /\ p_line b' = line /\ p_line e' = line
    /\ true_byte text line (p_col b') = Some (p_byte b')
    /\ true_byte text line (p_col e') = Some (p_byte e')
    /\ substr (p_byte b') (p_byte e') text = v2
    /\ p_byte b' <= p_byte e' <= slenZ text.
Proof. exact src_scalar_subrange. Qed.

Definition C19_scalar_subrange_full (p : pos_params) (u : uniseg) : Prop :=
  forall text pre a v1 v2 v3 z post tag style,
  let value := v1 +++ v2 +++ v3 in
  lines_of text = pre ++ (a +++ value +++ z) :: post ->
  complete a = true -> complete v1 = true -> complete v2 = true -> complete v3 = true ->
  (style = 0 \/ style = 32)%N ->
  let line := Z.of_nat (length pre) + 1 in
  let col := nchars a + 1 in
  forall rng, node_range p u (new_position_index text) (YNode 8 0 tag value line col false []) = Some rng ->
  exists b' e',
    scalar_range p u (YNode 8 style tag value line col false []) rng
                 (String.length v1) (String.length v1 + String.length v2) = Some (b', e')
    /\ p_line b' = line /\ p_line e' = line
    /\ true_byte text line (p_col b') = Some (p_byte b')
    /\ true_byte text line (p_col e') = Some (p_byte e')
    /\ substr (p_byte b') (p_byte e') text = v2
    /\ p_byte b' <= p_byte e' <= slenZ text.

(* refuted while ScalarRange advances by uniseg.StringWidth: a TAB inside the scalar before the accessor — the
   accessor a of "values:\n  a: 1\n  b: x\t${a}\n" is reported one column to the left of its byte (C19-accessor-tab) *)
Theorem C19_scalar_subrange_refuted : pp_sr_runes src_params = false ->
  ~ C19_scalar_subrange_full src_params (uniseg_simple []).
Proof. exact src_scalar_subrange_not_full. Qed.

Theorem C19_scalar_subrange_refuted_witness : pp_sr_runes src_params = false ->
  bad_sub src_params (uniseg_simple []) sr_text (YNode 8 0 "!!str" sr_value 3 6 false []) 4 5 = true.
Proof. exact src_scalar_subrange_refuted. Qed.

Theorem C19_scalar_subrange_full_if_repaired : forall p u,
  line_table_fixed p = true -> pp_runes p = true -> pp_end_chars p = true -> pp_sr_runes p = true ->
  C19_scalar_subrange_full p u.
Proof. exact scalar_subrange_full_if. Qed.

(* a record with every repair exists and satisfies all the premises above (the `_full_if_repaired` theorems are not
   vacuous) *)
Example C19_example_repaired_record :
  line_table_fixed repaired_params = true /\ pp_runes repaired_params = true /\ pp_clamp repaired_params = true
  /\ pp_end_chars repaired_params = true /\ pp_sr_runes repaired_params = true
  /\ forall u, C19_pos_consistent_full repaired_params u /\ C19_range_in_text_full repaired_params u
               /\ C19_plain_scalar_slice_full repaired_params u /\ C19_scalar_subrange_full repaired_params u.
Proof. exact example_repaired_record. Qed.

(* non-vacuity: the last line of a document without a final newline; non-ASCII text before the node; a collection;
   a block scalar (in the class end_missing) under the all-nodes theorem *)
Example C19_example_last_line : forall u,
  node_range src_params u (new_position_index last_line_text) (YNode 8 0 "!!str" "last" 2 6 false [])
  = Some ({| p_line := 2; p_col := 6; p_byte := 13 |}, {| p_line := 2; p_col := 10; p_byte := 17 |})
  /\ substr 13 17 last_line_text = "last"
  /\ lines_of last_line_text = ["values:"] ++ ("  k: " +++ "last" +++ "") :: [].
Proof. exact example_last_line. Qed.

Example C19_example_nonascii_before :
  node_range src_params (uniseg_simple []) (new_position_index nonascii_text) (YNode 8 0 "!!str" "z" 2 17 false [])
  = Some ({| p_line := 2; p_col := 17; p_byte := 27 |}, {| p_line := 2; p_col := 18; p_byte := 28 |})
  /\ substr 27 28 nonascii_text = "z"
  /\ located nonascii_text 2 17 "z" = true
  /\ irregular_before src_params (uniseg_simple []) nonascii_text 2 18 = false.
Proof. exact example_nonascii_before. Qed.

Example C19_example_collection :
  let n := YNode 4 32 "!!map" "" 2 6 false [YNode 8 0 "!!int" "1" 2 20 false []] in
  node_range src_params (uniseg_simple []) (new_position_index nonascii_text) n
  = Some ({| p_line := 2; p_col := 6; p_byte := 14 |}, {| p_line := 2; p_col := 21; p_byte := 31 |})
  /\ ordered n.
Proof. exact example_collection. Qed.

Example C19_example_block_scalar_ordered : forall u,
  end_missing src_params literal_text literal_node = true
  /\ exists e, node_range src_params u (new_position_index literal_text) literal_node
               = Some ({| p_line := 2; p_col := 23; p_byte := 30 |}, e) /\ 30 <= p_byte e.
Proof. exact example_block_scalar_ordered. Qed.
