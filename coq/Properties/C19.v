(* Properties/C19.v — Reported source ranges point at the right text.
   Only statements closed by [exact]; the proofs live in Proofs/Positions*.v.

   [src_params] are the facts srcfacts reads from syntax/encoding/yaml.go on this run.  Statements that the code
   violates are given as  *_refuted (conditional on the fact still having the defective value, witness checked by
   computation)  and  as the partial statement over the complement of a decidable class:
     zero_width_before   a TAB before the position on a line that contains non-ASCII text (uniseg width 0);
                         empty when pos advances one column per code point
     past_eol / true_byte = None   the (line, column) pair does not exist in the text: ends of block, folded and
                         multi-line scalars are reported on a line that is too short
     is_ascii value      scalar ends are computed with the byte length; empty when the character count is used. *)
From Verif Require Import Base.Bytes Model.Positions Src.SrcPositions
  Proofs.PositionsBase Proofs.PositionsProofs Proofs.PositionsScan Proofs.PositionsSrc.
Local Open Scope Z_scope.

(* side condition on the source: the guard of pos lets every line of the text through, the last one included
   (line < 1 || line > len(lines)); discharged by computation on the extracted facts *)
Theorem C19_src_line_table_ok : line_table_fixed src_params = true.
Proof. exact src_line_table_fixed. Qed.

(* pos_consistent: for every (line, col) inside the text — [true_byte] is the specification: the lines before,
   each with its newline, plus the first col-1 characters of the line — the reported byte offset is that one *)
Theorem C19_pos_consistent_partial : forall text line col b,
  true_byte text line col = Some b ->
  zero_width_before src_params text line col = false ->
  pos src_params (new_position_index text) line col = Some {| p_line := line; p_col := col; p_byte := b |}.
Proof. exact src_pos_consistent. Qed.

(* the same with the decomposition written out: text = pre-lines ++ (cs1 ++ cs2) ++ post-lines *)
Theorem C19_pos_offset_of_line_and_chars : forall text pre l post cs1 cs2,
  lines_of text = pre ++ l :: post -> chars_of l = cs1 ++ cs2 ->
  (pp_runes src_params = true \/ is_ascii_str l = true \/ forallb w1 cs1 = true) ->
  pos src_params (new_position_index text) (Z.of_nat (length pre) + 1) (Z.of_nat (length cs1) + 1)
  = Some {| p_line := Z.of_nat (length pre) + 1; p_col := Z.of_nat (length cs1) + 1;
            p_byte := lines_len pre + slenZ (concat_str cs1) |}.
Proof. exact src_pos_decomp. Qed.

(* the full statement (no class), refuted while pos advances by uniseg width, proved once it advances by code point *)
Definition C19_pos_consistent_full : Prop := forall text line col b,
  true_byte text line col = Some b ->
  pos src_params (new_position_index text) line col = Some {| p_line := line; p_col := col; p_byte := b |}.

Theorem C19_pos_consistent_refuted : pp_runes src_params = false -> ~ C19_pos_consistent_full.
Proof. exact src_pos_consistent_not_full. Qed.

Theorem C19_pos_consistent_refuted_witness : pp_runes src_params = false ->
  exists text line col, bad_pos src_params text line col = true.
Proof. exact src_pos_consistent_refuted. Qed.

Theorem C19_pos_consistent_full_if_repaired : pp_runes src_params = true -> C19_pos_consistent_full.
Proof. exact src_pos_consistent_full_if. Qed.

(* the text is its lines joined by newlines (with and without a final newline), and the first [b] bytes of the text
   are what [true_byte] says *)
Theorem C19_text_is_its_lines : forall text, join_nl (lines_of text) = text.
Proof. exact lines_join. Qed.

(* the specification has a second, independent definition — one pass over the bytes counting newlines and code
   points — and the two agree on every text whose lines are whole code points (valid UTF-8); the oracle of the
   correspondence evaluates both *)
Theorem C19_two_definitions_agree : forall text line col,
  Forall (fun l => complete l = true) (lines_of text) ->
  scan_pos text 0 1 1 0 line col = true_byte text line col.
Proof. exact scan_pos_true_byte. Qed.

(* the ASCII fast path of pos computes what the general walk computes *)
Theorem C19_ascii_fast_path : forall runes l off col,
  is_ascii_str l = true -> (runes = true \/ forallb w1 (chars_of l) = true) ->
  1 <= col -> col - 1 <= slenZ l ->
  walk runes (chars_of l) off 1 col = off + col - 1.
Proof. exact ascii_fast_path. Qed.

(* positions that exist in the text are inside it and ordered like (line, column) *)
Theorem C19_position_in_text : forall text line col b, true_byte text line col = Some b -> 0 <= b <= slenZ text.
Proof. exact true_byte_bounds. Qed.

Theorem C19_position_order : forall text l1 c1 b1 l2 c2 b2,
  true_byte text l1 c1 = Some b1 -> true_byte text l2 c2 = Some b2 -> lex_le l1 c1 l2 c2 -> b1 <= b2.
Proof. exact true_byte_mono. Qed.

(* range_in_text and begin_le_end for the range of ANY node (scalar of any style, collection) whose two
   (line, column) pairs exist in the text *)
Theorem C19_range_in_text_partial : forall text n tb te,
  true_byte text (yn_line n) (yn_col n) = Some tb ->
  true_byte text (fst (end_lc src_params n)) (snd (end_lc src_params n)) = Some te ->
  zero_width_before src_params text (yn_line n) (yn_col n) = false ->
  zero_width_before src_params text (fst (end_lc src_params n)) (snd (end_lc src_params n)) = false ->
  lex_le (yn_line n) (yn_col n) (fst (end_lc src_params n)) (snd (end_lc src_params n)) ->
  node_range src_params (new_position_index text) n
  = Some ({| p_line := yn_line n; p_col := yn_col n; p_byte := tb |},
          {| p_line := fst (end_lc src_params n); p_col := snd (end_lc src_params n); p_byte := te |})
  /\ 0 <= tb /\ tb <= te /\ te <= slenZ text.
Proof. exact src_range_in_text. Qed.

(* the (line, column) of the end is never before that of the begin: scalars by construction, collections when
   yaml.v3 lists children in document order *)
Theorem C19_begin_le_end : forall n, ordered n ->
  lex_le (yn_line n) (yn_col n) (fst (end_lc src_params n)) (snd (end_lc src_params n)).
Proof. exact src_node_order. Qed.

Theorem C19_range_in_text_refuted : pp_clamp src_params = false ->
  exists text n, end_outside src_params text n = true.
Proof. exact src_range_in_text_refuted. Qed.

Theorem C19_strict_column_refuted : forall p,
  past_eol literal_text (fst (end_lc p literal_node)) (snd (end_lc p literal_node)) = true.
Proof. exact strict_column_refuted. Qed.

(* plain_scalar_slice: a plain single-line scalar [value] located where yaml says (after the characters [a] on
   line |pre|+1; [pre], [post] arbitrary, [post] = [] is the last line without a final newline; [a] may contain
   non-ASCII text): both positions exist in the text and text[begin, end) = value *)
Theorem C19_plain_scalar_slice_partial : forall text pre a value z post tag anch,
  lines_of text = pre ++ (a +++ value +++ z) :: post ->
  complete a = true -> complete value = true ->
  (pp_end_chars src_params = true \/ is_ascii_str value = true) ->
  (pp_runes src_params = true \/ is_ascii_str (a +++ value +++ z) = true
   \/ forallb w1 (chars_of (a +++ value)) = true) ->
  let line := Z.of_nat (length pre) + 1 in
  let col := nchars a + 1 in
  let b := lines_len pre + slenZ a in
  let e := b + slenZ value in
  node_range src_params (new_position_index text) (YNode 8 0 tag value line col anch [])
  = Some ({| p_line := line; p_col := col; p_byte := b |},
          {| p_line := line; p_col := col + nchars value; p_byte := e |})
  /\ substr b e text = value
  /\ 0 <= b /\ b <= e /\ e <= slenZ text
  /\ true_byte text line col = Some b /\ true_byte text line (col + nchars value) = Some e.
Proof. exact src_plain_scalar_slice. Qed.

Definition C19_plain_scalar_slice_full : Prop := forall text pre a value z post tag anch,
  lines_of text = pre ++ (a +++ value +++ z) :: post ->
  complete a = true -> complete value = true ->
  let line := Z.of_nat (length pre) + 1 in
  let col := nchars a + 1 in
  exists b e, node_range src_params (new_position_index text) (YNode 8 0 tag value line col anch []) = Some (b, e)
              /\ substr (p_byte b) (p_byte e) text = value
              /\ 0 <= p_byte b /\ p_byte b <= p_byte e /\ p_byte e <= slenZ text.

Theorem C19_plain_scalar_slice_refuted : pp_end_chars src_params = false -> ~ C19_plain_scalar_slice_full.
Proof. exact src_plain_scalar_slice_not_full. Qed.

Theorem C19_plain_scalar_slice_refuted_witness : pp_end_chars src_params = false ->
  exists text line col value, bad_slice src_params text line col value = true.
Proof. exact src_plain_scalar_slice_refuted. Qed.

Theorem C19_plain_scalar_slice_full_if_repaired :
  pp_runes src_params = true -> pp_end_chars src_params = true -> C19_plain_scalar_slice_full.
Proof. exact src_plain_scalar_slice_full_if. Qed.

(* accessor ranges: the piece v2 of a plain single-line scalar v1 ++ v2 ++ v3 *)
Theorem C19_scalar_subrange_partial : forall text pre a v1 v2 v3 z post tag anch style,
  let value := v1 +++ v2 +++ v3 in
  lines_of text = pre ++ (a +++ value +++ z) :: post ->
  complete a = true -> complete v1 = true -> complete v2 = true -> complete v3 = true ->
  (pp_end_chars src_params = true \/ is_ascii_str value = true) ->
  (style = 0 \/ style = 32)%N ->
  let line := Z.of_nat (length pre) + 1 in
  let col := nchars a + 1 in
  (pp_runes src_params = true \/ is_ascii_str (a +++ value +++ z) = true
   \/ forallb w1 (chars_of (a +++ value)) = true) ->
  (pp_sr_runes src_params = true \/ forallb w1 (chars_of (v1 +++ v2)) = true) ->
  forall rng, node_range src_params (new_position_index text) (YNode 8 0 tag value line col anch []) = Some rng ->
  exists b' e',
    scalar_range src_params (YNode 8 style tag value line col anch []) rng
                 (String.length v1) (String.length v1 + String.length v2) = Some (b', e')
    /\ p_line b' = line /\ p_line e' = line
    /\ true_byte text line (p_col b') = Some (p_byte b')
    /\ true_byte text line (p_col e') = Some (p_byte e')
    /\ substr (p_byte b') (p_byte e') text = v2
    /\ p_byte b' <= p_byte e' <= slenZ text.
Proof. exact src_scalar_subrange. Qed.

(* non-vacuity: the last line of a document without a final newline; non-ASCII text before the node; a collection *)
Example C19_example_last_line :
  node_range src_params (new_position_index last_line_text) (YNode 8 0 "!!str" "last" 2 6 false [])
  = Some ({| p_line := 2; p_col := 6; p_byte := 13 |}, {| p_line := 2; p_col := 10; p_byte := 17 |})
  /\ substr 13 17 last_line_text = "last"
  /\ lines_of last_line_text = ["values:"] ++ ("  k: " +++ "last" +++ "") :: [].
Proof. exact example_last_line. Qed.

Example C19_example_nonascii_before :
  node_range src_params (new_position_index nonascii_text) (YNode 8 0 "!!str" "z" 2 17 false [])
  = Some ({| p_line := 2; p_col := 17; p_byte := 27 |}, {| p_line := 2; p_col := 18; p_byte := 28 |})
  /\ substr 27 28 nonascii_text = "z"
  /\ located nonascii_text 2 17 "z" = true
  /\ zero_width_before src_params nonascii_text 2 18 = false.
Proof. exact example_nonascii_before. Qed.

Example C19_example_collection :
  let n := YNode 4 32 "!!map" "" 2 6 false [YNode 8 0 "!!int" "1" 2 20 false []] in
  node_range src_params (new_position_index nonascii_text) n
  = Some ({| p_line := 2; p_col := 6; p_byte := 14 |}, {| p_line := 2; p_col := 21; p_byte := 31 |})
  /\ ordered n.
Proof. exact example_collection. Qed.
