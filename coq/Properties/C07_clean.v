(* Properties/C07_clean.v — C07 at the observation level: the run terminates CLEANLY (ob_oof = false).
   Statements only, each closed by [exact]; proofs in Proofs/RefSem2Depth*.v, Proofs/RefSem2Clean.v.

   [ob_oof] of [run] is (fuel flag of the state) || (the final [export big_fuel] failed).  C07_fuel_suffices
   (Properties/C07.v) clears the first disjunct above [fuel_bound W d]; here the second is cleared too.
   What is provable is a bound by SIZE, not by literal nesting alone: a chain of references a: [${b}], b: [${c}], ...
   adds one level per link, so the depth of a value can be the number of literal positions of the environment.  The
   bound [depth_bound W d] = max (context depth, provider-constant depth) + sum over the root and the loadable
   definitions of (number of expression positions + 1) is computed from the text of the world; the condition is
   [depth_bound W d < big_fuel] (= 4096).  The bound is on DEPTH only: chains may be arbitrarily long (the tower of
   Properties/C07_helpers.v has 8193 layers and satisfies the hypotheses with depth_bound = 35).  The inner helpers no
   longer use a constant fuel (Properties/C07_helpers.v: each is called with a fuel computed from its argument and proved
   sufficient; the merged view inside the evaluator, [export_t], is total); C07_inner_* are kept: below the depth
   [export big_fuel] and [export_t] agree, and [to_string] is fuel-independent. *)
From Verif Require Import Base.Bytes Model.Chain Model.GoText Model.Envelope Model.Eval
  Proofs.EvalTotalSyntax Proofs.EvalTotalRecover Proofs.EvalTotalBound Proofs.ChainAlgebraExport
  Proofs.RefSem2Depth Proofs.RefSem2DepthEval Proofs.RefSem2DepthEnv Proofs.RefSem2Clean.
From Coq Require Import Lia.

(* export needs fuel above the nesting DEPTH only (C01_export_total: above the size) *)
Theorem C07_export_total_depth : forall fuel c, (cdepth c < fuel)%nat -> export fuel c <> None.
Proof. exact export_total_depth. Qed.

(* the depth of the value of an environment never exceeds the textual bound: every fuel, every fault plan, import and
   reference cycles included (worlds without fn::toJSON / fn::fromJSON: a parsed JSON text can be arbitrarily deep) *)
Theorem C07_value_depth_bounded : forall W f root name d,
  world_no_json W d = true -> (cdepth (fst (eval_env W f root name d st0)) <= depth_bound W d)%nat.
Proof. exact eval_env_depth. Qed.

(* expression level: depth <= (depth of what comes from outside) + (number of memoised positions) *)
Theorem C07_expression_depth_invariant : forall W E Dx,
  (1 <= Dx)%nat -> (cdepth (ec_base E) <= Dx)%nat -> (cdepth (ec_imports E) <= Dx)%nat -> (cdepth (ec_context E) <= Dx)%nat ->
  (forall pn p v, alookup pn (w_provs W) = Some p -> pv_beh p = PConst v -> (x_depth v <= Dx)%nat) ->
  no_json (root_of E) = true ->
  forall f, D5 W E Dx f.
Proof. exact D5_all. Qed.

(* THE THEOREM *)
Theorem C07_run_terminates_cleanly : forall W name d f,
  world_no_json W d = true -> (depth_bound W d < big_fuel)%nat -> (fuel_bound W d <= f)%nat ->
  ob_oof (run f W name d) = false.
Proof. exact run_terminates_cleanly. Qed.

Theorem C07_run_value_present : forall W name d f,
  world_no_json W d = true -> (depth_bound W d < big_fuel)%nat -> (fuel_bound W d <= f)%nat ->
  exists v, ob_value (run f W name d) = Some v.
Proof. exact run_value_present. Qed.

(* the semantic form: whatever the world, a result of depth below big_fuel is exported *)
Theorem C07_run_clean_of_depth : forall W name d f,
  world_no_json W d = true -> (fuel_bound W d <= f)%nat ->
  (cdepth (fst (eval_env W f "" name d st0)) < big_fuel)%nat ->
  ob_oof (run f W name d) = false.
Proof. exact run_clean_of_depth. Qed.

(* the inner consumers of big_fuel *)
Theorem C07_inner_contains_exact : forall c, (cdepth c < big_fuel)%nat ->
  exists v, export big_fuel c = Some v /\ contains_unknowns c = x_has_unknown v /\ contains_secrets c = x_has_secret v.
Proof. exact contains_unknowns_exact. Qed.

Theorem C07_inner_to_string_fuel : forall f f' c, (cdepth c < f)%nat -> (cdepth c < f')%nat -> to_string f c = to_string f' c.
Proof. exact to_string_fuel. Qed.

(* ================= Examples ================= *)
Definition ex_world : world :=
  {| w_envs := [("base", LoadOk {| ed_imports := [];
                                   ed_values := [("o", EObj [("x", EStr "bx"); ("y", EArr [ENum "1"; ENum "2"])]);
                                                 ("p", ENum "7")] |});
                ("loop", LoadOk {| ed_imports := [("loop", true); ("base", true)];
                                   ed_values := [("u", EArr [ESym [AName "v"]]); ("v", EArr [ESym [AName "u"]])] |})];
     w_provs := [("pr", {| pv_in := InAlways; pv_out := ScAlways;
                           pv_beh := PConst (XObj false false [("t", XArr false false [XScalar false false (SNum "1")])]) |})];
     w_ctx := []; w_check := false; w_show := false; w_fault := None; w_decrypt := fun _ _ => None |}.
Definition ex_def : envdef :=
  {| ed_imports := [("base", true); ("loop", true); ("missing", true)];
     ed_values := [("a", EObj [("b", EArr [EObj [("k", EStr "v")]; ESym [AName "c"; AName "d"]])]);
                   ("c", EObj [("d", EOpen "pr" (EObj []))]);
                   ("w", ESym [AName "imports"])] |}.

Example C07_ex_bounds : depth_bound ex_world ex_def = 28%nat /\ fuel_bound ex_world ex_def = 84%nat.
Proof. vm_compute. split; reflexivity. Qed.

(* the theorem applies for EVERY fault plan and every fuel above the bound: the run ends cleanly *)
Example C07_ex_clean : forall fault f, (84 <= f)%nat ->
  ob_oof (run f {| w_envs := w_envs ex_world; w_provs := w_provs ex_world; w_ctx := []; w_check := false;
                   w_show := false; w_fault := fault; w_decrypt := fun _ _ => None |} "e" ex_def) = false.
Proof.
  intros fault f Hf. apply C07_run_terminates_cleanly; [vm_compute; reflexivity|vm_compute; lia|exact Hf].
Qed.

(* and the computation agrees: errors (cyclic references in "loop", self-import, missing import) but a value, flag clear *)
Example C07_ex_run :
  ob_oof (run 84 ex_world "e" ex_def) = false /\ ob_errors (run 84 ex_world "e" ex_def) = true /\
  cdepth (fst (eval_env ex_world 84 "" "e" ex_def st0)) = 6%nat.
Proof. vm_compute. repeat split; reflexivity. Qed.
