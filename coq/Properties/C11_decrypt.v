(* Properties/C11_decrypt.v — C11, last clause: an envelope that is rejected is never handed to the decrypter
   (decode before decrypt), tied to the syntax of the definitions.  Statements only; proofs in
   Proofs/EvalLog2.v (evaluator) and Proofs/Envelope*.v (which envelopes are rejected).
   For ALL worlds (incl. the decrypter, fault plans, modes), fuels, definitions, states. *)
From Verif Require Import Base.Bytes Model.Chain Model.GoText Model.Envelope Model.Eval.
From Verif Require Import Proofs.EnvelopeBase64 Proofs.EnvelopeProofs Proofs.EnvelopeCRC Proofs.EnvelopeText.
From Verif Require Import Proofs.EvalLogKit Proofs.EvalLogInd Proofs.EvalLog Proofs.EvalTotalSyntax.
From Verif Require Import Proofs.EvalLog2Ind Proofs.EvalLog2.
From Verif Require Properties.C11.

(* the evaluator's envelope parameters are the ones C11 is proved for *)
Theorem C11_params_agree : std_params = std /\ std_params = C11.src_params.
Proof. split; reflexivity. Qed.

(* ---- decode before decrypt ---- *)
(* every ciphertext handed to the decrypter is the payload [decode_ct] extracted from the [repr] of an
   [ESecretCipher repr] sub-expression of the definition of the environment whose key is used *)
Theorem C11_decode_before_decrypt : forall W fuel root name d env ct,
  In (EvDecrypt env ct) (log (snd (eval_env W fuel root name d st0))) ->
  exists dn path repr,
    env_def W name d env dn
    /\ sub_at (EObj (vals_of2 dn)) path = Some (ESecretCipher repr)
    /\ decode_ct std repr = DOk ct
    /\ (w_check W && negb (w_show W)) = false.
Proof. exact decode_before_decrypt. Qed.

Theorem C11_run_decode_before_decrypt : forall fuel W name d env ct,
  In (EvDecrypt env ct) (ob_log (run fuel W name d)) ->
  exists dn path repr,
    env_def W name d env dn
    /\ sub_at (EObj (vals_of2 dn)) path = Some (ESecretCipher repr)
    /\ decode_ct std repr = DOk ct
    /\ (w_check W && negb (w_show W)) = false.
Proof. exact run_decode_before_decrypt. Qed.

(* ---- the contrapositive ---- *)
(* rejected_effect W f E repr xbase id s :=
     let r := eval_repr W (S f) E (ESecretCipher repr) xbase id s in
     log (snd r) = log s /\ calls (snd r) = calls s /\ nerr (snd r) = nerr s + 1
   i.e. no decrypt event (no event at all), no collaborator call, exactly one diagnostic *)
Theorem C11_rejected_never_decrypted : forall W f E repr xbase id s,
  (forall ct, decode_ct std repr <> DOk ct) -> rejected_effect W f E repr xbase id s.
Proof. exact rejected_cipher_effect. Qed.

(* the whole expression (first evaluation) *)
Theorem C11_rejected_expr : forall W f E repr xsec xbase id s,
  (forall ct, decode_ct std repr <> DOk ct) -> memo_get id (memo s) = None ->
  let r := eval_expr W (S (S f)) E (ESecretCipher repr) xsec xbase id s in
  log (snd r) = log s /\ calls (snd r) = calls s /\ nerr (snd r) = nerr s + 1.
Proof. exact rejected_cipher_expr. Qed.

(* whole evaluation: if every ciphertext expression of every definition involved is rejected, nothing is decrypted *)
Theorem C11_all_rejected_no_decrypt : forall W fuel root name d,
  (forall n dn path repr, env_def W name d n dn -> sub_at (EObj (vals_of2 dn)) path = Some (ESecretCipher repr) ->
     forall ct, decode_ct std repr <> DOk ct) ->
  forall e, In e (log (snd (eval_env W fuel root name d st0))) -> is_decrypt e = false.
Proof. exact all_rejected_no_decrypt. Qed.

(* ---- the corruption classes of C11: each is never handed to the decrypter and costs one diagnostic ---- *)
(* the guaranteed class (at most three flipped bits, or one burst of span <= 32) minus the boundary-straddling
   bursts recorded as C11-boundary *)
Theorem C11_corrupt_guaranteed_never_decrypted : forall W f E xbase id s (ct m : string),
  String.length m = String.length (env_bin std ct) -> guaranteed_mask m = true -> boundary_burst m = false ->
  rejected_effect W f E (b64_encode (sxor (env_bin std ct) m)) xbase id s.
Proof.
  exact (fun W f E xbase id s ct m Hl Hg Hb =>
           rejected_cipher_effect W f E _ xbase id s (guaranteed_mask_rejected std ct m Hl Hg Hb)).
Qed.

Theorem C11_corrupt_le3_flips_never_decrypted : forall W f E xbase id s (ct m : string),
  String.length m = String.length (env_bin std ct) -> mask_le3 m = true ->
  rejected_effect W f E (b64_encode (sxor (env_bin std ct) m)) xbase id s.
Proof.
  exact (fun W f E xbase id s ct m Hl Hg => rejected_cipher_effect W f E _ xbase id s (mask_le3_rejected std ct m Hl Hg)).
Qed.

Theorem C11_corrupt_burst32_body_never_decrypted : forall W f E xbase id s (ct m : string),
  String.length m = String.length (env_bin std ct) -> mask_burst32_body m = true ->
  rejected_effect W f E (b64_encode (sxor (env_bin std ct) m)) xbase id s.
Proof.
  exact (fun W f E xbase id s ct m Hl Hg =>
           rejected_cipher_effect W f E _ xbase id s (mask_burst32_body_rejected std ct m Hl Hg)).
Qed.

Theorem C11_corrupt_trailer_never_decrypted : forall W f E xbase id s (ct m : string),
  String.length m = String.length (env_bin std ct) -> mask_in_trailer m = true ->
  rejected_effect W f E (b64_encode (sxor (env_bin std ct) m)) xbase id s.
Proof.
  exact (fun W f E xbase id s ct m Hl Hg =>
           rejected_cipher_effect W f E _ xbase id s (mask_in_trailer_rejected std ct m Hl Hg)).
Qed.

Theorem C11_short_never_decrypted : forall W f E xbase id s (bin : string),
  slen bin < 12 -> rejected_effect W f E (b64_encode bin) xbase id s.
Proof. exact (fun W f E xbase id s bin H => rejected_cipher_effect W f E _ xbase id s (reject_short std bin H)). Qed.

Theorem C11_wrong_magic_never_decrypted : forall W f E xbase id s (bin : string),
  stake 4 bin <> "escx" -> rejected_effect W f E (b64_encode bin) xbase id s.
Proof. exact (fun W f E xbase id s bin H => rejected_cipher_effect W f E _ xbase id s (reject_wrong_magic std bin H)). Qed.

Theorem C11_wrong_version_never_decrypted : forall W f E xbase id s (bin : string),
  be32_read (sdrop 4 bin) <> 1 -> rejected_effect W f E (b64_encode bin) xbase id s.
Proof. exact (fun W f E xbase id s bin H => rejected_cipher_effect W f E _ xbase id s (reject_wrong_version std bin H)). Qed.

Theorem C11_wrong_checksum_never_decrypted : forall W f E xbase id s (bin : string),
  crc32 (stake (String.length bin - 4) bin) <> be32_read (sdrop (String.length bin - 4) bin) ->
  rejected_effect W f E (b64_encode bin) xbase id s.
Proof. exact (fun W f E xbase id s bin H => rejected_cipher_effect W f E _ xbase id s (reject_wrong_checksum std bin H)). Qed.

(* the TEXT level: one character of the stored text replaced by a character that is neither in the base64 alphabet nor
   '=' (one flipped bit that leaves the alphabet; CR / LF included) - envelopes of every length *)
Theorem C11_text_char_outside_alphabet_never_decrypted : forall W f E xbase id s (ct : string) (k : nat) (c' : ascii),
  (k < String.length (encode_ct std ct))%nat -> b64_or_pad c' = false ->
  rejected_effect W f E (text_set k c' (encode_ct std ct)) xbase id s.
Proof.
  exact (fun W f E xbase id s ct k c' Hk Hc =>
           undecodable_cipher_effect W f E _ xbase id s
             (@eq_ind_r dec_result DErrBase64 (fun d => match d with DOk _ => false | _ => true end = true)
                          (eq_refl true) _ (C11.C11_text_char_outside_alphabet ct k c' Hk Hc))).
Qed.

(* not base64 at all, or any other rejection *)
Theorem C11_undecodable_never_decrypted : forall W f E xbase id s (repr : string),
  (match decode_ct std repr with DOk _ => false | _ => true end) = true -> rejected_effect W f E repr xbase id s.
Proof. exact (fun W f E xbase id s repr => undecodable_cipher_effect W f E repr xbase id s). Qed.

(* ---- examples ---- *)
(* a 25-byte envelope with three flipped bits (mask of Proofs/EnvelopeCRC.v): rejected, hence never decrypted *)
Definition C11x_bad : string := b64_encode (sxor (env_bin std g_ct) ex_mask3).
Definition C11x_good : string := encode_ct std g_ct.
Definition C11x_world : world :=
  {| w_envs := []; w_provs := []; w_ctx := []; w_check := false; w_show := false; w_fault := None;
     w_decrypt := fun env ct => Some ("plain:" +++ ct) |}.
Definition C11x_def : envdef :=
  {| ed_imports := []; ed_values := [("bad", ESecretCipher C11x_bad); ("good", ESecretCipher C11x_good)] |}.

Example C11x_bad_is_rejected : forall ct, decode_ct std C11x_bad <> DOk ct.
Proof. exact (mask_le3_rejected std g_ct ex_mask3 eq_refl eq_refl). Qed.

Example C11x_run :
  ob_log (run 20 C11x_world "e" C11x_def) = [EvDecrypt "e" g_ct]
  /\ ob_errors (run 20 C11x_world "e" C11x_def) = true
  /\ sub_at (EObj (vals_of2 C11x_def)) [IKey "good"] = Some (ESecretCipher C11x_good)
  /\ decode_ct std C11x_good = DOk g_ct.
Proof. vm_compute. repeat split; reflexivity. Qed.
