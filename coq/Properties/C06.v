(* Properties/C06.v — checking has no effects (and what it cannot know is unknown, not invented).
   Statements only; proofs in Proofs/EvalLog*.v.  For ALL worlds, fuels, definitions, start states.
   NOT covered here: the approximation relation between check and open results (check_approx_open) and
   schema soundness (schema_sound) of DESIGN.md C06 — they need a simulation between the two modes. *)
From Verif Require Import Base.Bytes Model.Chain Model.GoText Model.Envelope Model.Eval Corr.EvalWire.
From Verif Require Import Proofs.EvalLogKit Proofs.EvalLogInd Proofs.EvalLog Proofs.EvalLogCheck Proofs.EvalLogCorr.
From Verif Require Corr.C06.

(* ---- check_effect_free ---- *)
(* checking opens no provider *)
Theorem C06_check_opens_no_provider : forall fuel W name d,
  w_check W = true -> forall e, In e (ob_log (run fuel W name d)) -> is_open e = false.
Proof. exact run_check_no_open. Qed.

(* and, unless secrets are explicitly requested, decrypts nothing *)
Theorem C06_check_decrypts_nothing : forall fuel W name d,
  w_check W = true -> w_show W = false -> forall e, In e (ob_log (run fuel W name d)) -> is_decrypt e = false.
Proof. exact run_check_no_decrypt. Qed.

Theorem C06_check_opens_no_provider_env : forall W fuel root name d,
  w_check W = true -> forall e, In e (log (snd (eval_env W fuel root name d st0))) -> is_open e = false.
Proof. exact check_no_open_env. Qed.

Theorem C06_check_decrypts_nothing_env : forall W fuel root name d,
  w_check W = true -> w_show W = false ->
  forall e, In e (log (snd (eval_env W fuel root name d st0))) -> is_decrypt e = false.
Proof. exact check_no_decrypt_env. Qed.

(* as invariants of each of the six evaluator functions, from any start state *)
Theorem C06_check_no_open : forall W fuel, w_check W = true ->
  all_six W fuel (fun s s' => Forall (fun e => is_open e = false) (log s) -> Forall (fun e => is_open e = false) (log s')).
Proof. exact check_no_open. Qed.

Theorem C06_check_no_decrypt : forall W fuel, w_check W = true -> w_show W = false ->
  all_six W fuel (fun s s' => Forall (fun e => is_decrypt e = false) (log s) -> Forall (fun e => is_decrypt e = false) (log s')).
Proof. exact check_no_decrypt. Qed.

(* in every mode: only ciphertexts that came out of a successfully decoded envelope are ever passed to the
   decrypter (decode before decrypt; C11's last clause), and never while checking without showSecrets *)
Theorem C06_decrypt_only_valid_envelopes : forall fuel W name d env ct,
  In (EvDecrypt env ct) (ob_log (run fuel W name d)) ->
  (exists repr, decode_ct std_params repr = DOk ct) /\ (w_check W && negb (w_show W)) = false.
Proof. exact run_decrypt_only_valid_envelopes. Qed.

(* the environment whose key is used is the one evaluated or one whose Load is in the log *)
Theorem C06_decrypt_env_own_or_loaded : forall W fuel root name d e c,
  In e (log (snd (eval_env W fuel root name d st0))) -> ev_env e = Some c ->
  c = name \/ In (EvLoad c) (log (snd (eval_env W fuel root name d st0))).
Proof. exact event_env_own_or_loaded. Qed.

(* ---- unknown_not_invented, simple form ---- *)
(* while checking, a fn::open expression evaluates to ONE unknown layer carrying the provider's declared
   output schema (ScAlways if the provider could not be loaded) *)
Theorem C06_check_open_repr_unknown : forall W f E pname inputs xbase id s,
  w_check W = true ->
  fst (eval_repr W (S f) E (EOpen pname inputs) xbase id s)
  = [unknown_layer false (out_schema (seen_provider W pname s))].
Proof. exact check_open_repr_unknown. Qed.

Theorem C06_check_open_expr_unknown : forall W f E pname inputs xsec xbase id s,
  w_check W = true -> memo_get id (memo s) = None ->
  exists l,
    fst (eval_expr W (S (S f)) E (EOpen pname inputs) xsec xbase id s) = l :: xbase
    /\ l_unk l = true
    /\ l_sch l = out_schema (seen_provider W pname s).
Proof. exact check_open_expr_unknown. Qed.

(* while checking without showSecrets, a ciphertext secret is an unknown secret string, whatever the envelope *)
Theorem C06_check_cipher_repr_unknown : forall W f E repr xbase id s,
  w_check W = true -> w_show W = false ->
  fst (eval_repr W (S f) E (ESecretCipher repr) xbase id s) = [LScalar true true (ScType "string") SNull].
Proof. exact check_cipher_repr_unknown. Qed.

(* ---- transfer to the correspondence check: the effect clauses of Corr/C06.spec_fail cannot fire on an
   implementation log that matches the model's ---- *)
Theorem C06_matched_check_has_no_open : forall fuel W name d lg,
  w_check W = true -> log_matches (ob_log (run fuel W name d)) lg = true -> C06.has_open lg = false.
Proof. exact matched_check_has_no_open. Qed.

Theorem C06_matched_check_has_no_decrypt : forall fuel W name d lg,
  w_check W = true -> w_show W = false ->
  log_matches (ob_log (run fuel W name d)) lg = true -> C06.has_decrypt lg = false.
Proof. exact matched_check_has_no_decrypt. Qed.

(* ---- examples: same program, three modes ---- *)
Example C06_ex_open :
  ob_log (run 30 (ex_world false false) "e" ex_def2)
  = [EvLoad "imp"; EvLoadProvider "p";
     EvOpen ("imp", [IKey "b"]) "p" (XObj false false [("k", XScalar false false (SStr "w"))]) "e" "imp";
     EvLoadProvider "p";
     EvOpen ("e", [IKey "a"]) "p" (XObj false false [("k", XScalar false false (SStr "v"))]) "e" "e";
     EvDecrypt "e" "c1ph3r"].
Proof. vm_compute. reflexivity. Qed.

Example C06_ex_check :
  ob_log (run 30 (ex_world true false) "e" ex_def2) = [EvLoad "imp"; EvLoadProvider "p"; EvLoadProvider "p"].
Proof. vm_compute. reflexivity. Qed.

Example C06_ex_check_showsecrets :
  ob_log (run 30 (ex_world true true) "e" ex_def2)
  = [EvLoad "imp"; EvLoadProvider "p"; EvLoadProvider "p"; EvDecrypt "e" "c1ph3r"].
Proof. vm_compute. reflexivity. Qed.

Example C06_ex_envelope : decode_ct std_params ex_ct = DOk "c1ph3r".
Proof. vm_compute. reflexivity. Qed.

(* check mode: the provider's value is unknown with the provider's output schema (string) *)
Example C06_ex_check_value :
  ob_value (run 20 (ex_world true false) "e" ex_def1)
  = Some (XObj false false [("a", XScalar false true SNull)]).
Proof. vm_compute. reflexivity. Qed.
