From Verif Require Import Model.Chain.
Example C06_placeholder : 1 = 1. Proof. reflexivity. Qed.
