(* Properties/C20.v — The API client addresses the right resource, once.
   Only statements closed by [exact]; the proofs live in Proofs/Client*.v.  All statements are over
   Src.SrcClient.client_ops, the operation table regenerated from cmd/esc/cli/client/{client,retry}.go on every run. *)
From Verif Require Import Base.Bytes Model.Client Src.SrcClient Proofs.ClientPath Proofs.ClientAddr Proofs.ClientRetry
  Proofs.ClientCross.

(* ---- side conditions on the extracted facts, discharged by computation -----------------------------------
   every template is "/"-separated literal segments (valid names) and %v/%s holes, with as many holes as
   arguments; suffixes are one literal segment; hole sources are parameters of the method; the two templates of
   resolveEnvironmentPath differ by at least two segments; every operation that is not a GET runs under a policy
   whose shouldRetry is false and every GET under one whose shouldRetry is true; the Authorization scheme is
   "token %s" and the tag header is ETag or If-Match; the methods that decode diagnostics are not GETs *)
Theorem C20_src_table_wf : table_ok = true.
Proof. exact (eq_refl true). Qed.

(* every method of the Client interface is in the table (or is an accessor that sends nothing) *)
Theorem C20_src_interface_covered :
  forallb (fun m => existsb (String.eqb m) client_accessors
                    || existsb (fun f => String.eqb (of_name f) m) client_ops) client_interface = true.
Proof. exact (eq_refl true). Qed.

(* ---- addressing ------------------------------------------------------------------------------------------ *)
(* for valid names the request target is the instantiated template followed by the encoded query: cleanPath and
   the url.Parse/RequestURI round trip change nothing *)
Theorem C20_target_identity : forall f, In f client_ops -> forall a n, names_ok f a = true ->
  request_target f a n
    = op_path f (effective_args f a) (flag_of f n) +++ query_string (of_query f) (query_values f a n)
  /\ wire_target (request_target f a n) = Some (request_target f a n).
Proof. exact (t_target_identity C20_src_table_wf). Qed.

(* per operation: equal request targets => every parameter the path mentions is equal, the version/decrypt shape
   is equal, and the query is equal (distinct valid name tuples never map to the same path) *)
Theorem C20_path_injective : forall f, In f client_ops -> forall a a' n n',
  names_ok f a = true -> names_ok f a' = true ->
  request_target f a n = request_target f a' n' ->
  (forall i, In (HParam i) (of_holes f) -> nth i (effective_args f a) "" = nth i (effective_args f a') "")
  /\ (of_flag_suffix f <> "" -> flag_of f n = flag_of f n')
  /\ query_string (of_query f) (query_values f a n) = query_string (of_query f) (query_values f a' n').
Proof. exact (t_path_injective C20_src_table_wf). Qed.

(* the WHOLE request of an operation with valid names - verb, target, credentials, tag header, and the leaves of the
   JSON body (string leaves; the revision numbers and preserveHistory as decimal / "true").  The names an operation
   carries in its body (CreateEnvironment* project and name, the Clone destination, tag names and values, the
   revision a tag points to) are therefore part of what the theorems below identify.  Correspondence-only: the
   JSON text itself (encoding/json escaping; invalid UTF-8 in a body string is replaced by U+FFFD). *)
Theorem C20_request_identity : forall f, In f client_ops -> forall token a n, names_ok f a = true ->
  build_request f token a n
  = Some (mk_req (of_verb f)
                 (op_path f (effective_args f a) (flag_of f n) +++ query_string (of_query f) (query_values f a n))
                 (auth_value token)
                 (if header_is etag_header "ETag" then tag_value f a else "")
                 (if header_is etag_header "If-Match" then tag_value f a else "")
                 (body_fields f a n)).
Proof. exact (request_identity C20_src_table_wf). Qed.

(* per operation: equal (target, body) => every parameter the path OR the body mentions is equal (two different
   destination projects / environment names / tag names never give the same request) *)
Theorem C20_request_injective : forall f, In f client_ops -> forall a a' n n',
  names_ok f a = true -> names_ok f a' = true ->
  request_target f a n = request_target f a' n' -> body_fields f a n = body_fields f a' n' ->
  (forall i, In (HParam i) (of_holes f) -> nth i (effective_args f a) "" = nth i (effective_args f a') "")
  /\ (of_flag_suffix f <> "" -> flag_of f n = flag_of f n')
  /\ query_string (of_query f) (query_values f a n) = query_string (of_query f) (query_values f a' n')
  /\ (forall i, In i (body_params f) -> nth i a "" = nth i a' "")
  /\ body_num f n = body_num f n'.
Proof. exact (request_injective C20_src_table_wf). Qed.

(* ---- addressing ACROSS operations ------------------------------------------------------------------------
   [op_route] tags every path segment as a literal route word of the template (TLit) or as a substituted name
   (TName).  Full statement: two operations with the same verb and the same request target have the same route, i.e.
   address the same resource (GetEnvironment without version = EnvironmentExists, GetRevisionNumber =
   GetEnvironmentRevisionTag, the *WithProject delegations).  REFUTED by the faithful model and on the real client
   (known finding C20-route-words): names are valid path segments, but the REST routes reuse segments as both words
   and names - GetEnvironment(o,p,e, version "tags", decrypt) and GetEnvironmentRevisionTag(o,p,e,"decrypt") are both
   GET /api/esc/environments/o/p/e/versions/tags/decrypt. *)
Theorem C20_target_injective_across_ops_refuted : ~ across_ops_full_statement.
Proof. exact across_ops_refuted. Qed.

(* ... and PROVED outside the decidable class [reserved_names]: no name or version is one of the route words read
   from the operation table ([route_words]: every literal segment of every template and suffix) *)
Theorem C20_target_injective_across_ops_partial : forall f f', In f client_ops -> In f' client_ops ->
  forall a a' n n', names_ok f a = true -> names_ok f' a' = true ->
  reserved_names f a = false -> reserved_names f' a' = false ->
  request_target f a n = request_target f' a' n' ->
  op_route f a n = op_route f' a' n'
  /\ query_string (of_query f) (query_values f a n) = query_string (of_query f') (query_values f' a' n').
Proof. exact (across_ops_partial C20_src_table_wf). Qed.

(* every request of a call has the operation's method and target, the access token, and the revision tag of a
   conditional update *)
Theorem C20_carries_token_and_tag : forall f, In f client_ops -> forall token a n env r,
  In r (co_requests (run_call_env f token a n env)) ->
  rq_method r = of_verb f
  /\ wire_target (request_target f a n) = Some (rq_target r)
  /\ (token <> "" -> rq_auth r = "token " +++ token)
  /\ (forall i, of_tag_param f = Some i -> nth i a "" <> "" -> rq_etag r = nth i a "" \/ rq_ifmatch r = nth i a "").
Proof. exact (fun f _ => t_carries C20_src_table_wf f). Qed.

(* a sequence of operations on one client instance: the observation of each operation is that of the operation run
   alone (it does not depend on the operations before or after it), and each of its requests carries exactly the
   tag given to THAT call (tag_value = "" when the method has no tag parameter or none was given) *)
Theorem C20_sequence_requests_independent : forall token pre c post,
  nth_error (run_sequence token (pre ++ c :: post)) (length pre)
    = Some (run_call_env (oc_fact c) token (oc_args c) (oc_nums c) (oc_env c))
  /\ forall r, In r (co_requests (run_call_env (oc_fact c) token (oc_args c) (oc_nums c) (oc_env c))) ->
       (rq_etag r = tag_value (oc_fact c) (oc_args c) /\ rq_ifmatch r = "")
       \/ (rq_etag r = "" /\ rq_ifmatch r = tag_value (oc_fact c) (oc_args c)).
Proof. exact (sequence_requests_independent (proj1 (proj2 (proj2 (proj2 (table_ok_parts C20_src_table_wf)))))). Qed.

(* ---- once ------------------------------------------------------------------------------------------------- *)
(* for ALL server behaviours (any sequence of 5xx replies and connection errors, of any length): an operation
   that is not a GET is never submitted twice; with valid names it is submitted exactly once and the first reply
   decides the result *)
Theorem C20_non_get_sent_once : forall f, In f client_ops -> of_verb f <> "GET" ->
  forall token a n (env : nat -> reply),
  (length (co_requests (run_call_env f token a n env)) <= 1)%nat
  /\ (co_attempts (run_call_env f token a n env) <= 1)%nat
  /\ (names_ok f a = true -> local_revision f a = None ->
      exists rq, run_call_env f token a n env = mk_obs [rq] 1 (http_result f token (env 0%nat))).
Proof. exact (t_non_get_once C20_src_table_wf). Qed.

(* any operation, any server: at most max_retry_count tries; at most 2*max-1 requests reach the server (a GET
   that dies on a reused connection is replayed once by net/http).  ASSUMPTION of this bound, explicit in the model:
   the FIRST request of the call travels on a fresh connection ([do_with_retry] starts the loop with reused = false;
   every call of the correspondence runs against its own new server).  For a call whose first connection was kept
   alive by an earlier operation of the same client the bound is 2*max: [C20_get_bounded_any_connection]. *)
Theorem C20_get_bounded : forall f token a n (env : nat -> reply),
  (co_attempts (run_call_env f token a n env) <= Nat.max 1 (N.to_nat max_retry_count))%nat
  /\ (length (co_requests (run_call_env f token a n env)) <= 2 * Nat.max 1 (N.to_nat max_retry_count) - 1)%nat.
Proof. exact attempts_bounded. Qed.

(* the retry loop from either connection state *)
Theorem C20_get_bounded_any_connection : forall fuel max replay reused (env : nat -> reply) r att srv,
  retry_loop fuel max 0 0 replay reused env = LDone r att srv ->
  (att <= Nat.max 1 max)%nat /\ (srv <= 2 * Nat.max 1 max - (if reused then 0 else 1))%nat.
Proof. exact retry_loop_any_connection. Qed.

(* the two branches of the model that report ZERO requests without having run the loop are unreachable, so the
   bounds above are not satisfied vacuously: the loop's fuel always suffices (any policy, verb, server), and for
   the operations of the table no policy is unknown to shouldRetry (the contract.Failf branch) *)
Theorem C20_model_never_out_of_fuel : forall policy verb (env : nat -> reply),
  do_with_retry policy verb env <> Some LOutOfFuel.
Proof. exact do_with_retry_no_oof. Qed.

Theorem C20_model_never_panics : forall f, In f client_ops -> forall token a n (env : nat -> reply),
  do_with_retry (policy_of f) (of_verb f) env <> None
  /\ co_result (run_call_env f token a n env) <> RPanic.
Proof.
  exact (fun f Hin token a n env =>
    let HR := in_table_ok _ f (proj1 (proj2 (proj2 (table_ok_parts C20_src_table_wf)))) Hin in
    conj (do_with_retry_no_panic f env HR) (run_call_no_panic f token a n env HR)).
Qed.

(* every call is one of: answered locally / request not buildable (no request at all), or exactly the loop's result *)
Theorem C20_call_is_loop_result : forall f, In f client_ops -> forall token a n (env : nat -> reply),
  (exists r, (local_revision f a = Some r \/ (local_revision f a = None /\ build_request f token a n = None
                                                /\ r = RErr "badreq" 0))
             /\ run_call_env f token a n env = mk_obs [] 0 r)
  \/ (exists rq r att srv, local_revision f a = None /\ build_request f token a n = Some rq
        /\ do_with_retry (policy_of f) (of_verb f) env = Some (LDone r att srv)
        /\ run_call_env f token a n env = mk_obs (repeat rq srv) att (http_result f token r)).
Proof.
  exact (fun f Hin token a n env =>
    run_call_total f token a n env (in_table_ok _ f (proj1 (proj2 (proj2 (table_ok_parts C20_src_table_wf)))) Hin)).
Qed.

(* a GET whose first k < max replies fail (5xx or connection error) is retried until reply k, which decides the
   result; the server has then seen exactly k+1 requests *)
Theorem C20_get_retries_until_success : forall f, In f client_ops -> of_verb f = "GET" ->
  forall token a n (env : nat -> reply) k,
  names_ok f a = true -> local_revision f a = None -> (k < N.to_nat max_retry_count)%nat ->
  (forall i, (i < k)%nat -> failing (env i) = true) -> failing (env k) = false ->
  exists att rq, run_call_env f token a n env = mk_obs (repeat rq (S k)) att (http_result f token (env k))
                 /\ (att <= S k)%nat /\ rq_target rq = request_target f a n.
Proof. exact (t_get_retries C20_src_table_wf). Qed.

(* ---- diagnostics ------------------------------------------------------------------------------------------ *)
(* Hypothesis of both statements, not part of the known class: [diag_applicable] - the status is not 429 and not
   (401 on a client without a token); httpCall answers those before any body is decoded
   ([C20_diagnostics_intercepted]).
   The unqualified statement is refuted by the faithful model: the methods test the "code" field of the BODY
   (== 400), not the HTTP status; a 4xx reply with diagnostics whose body code is absent or differs is returned
   as a failure (witness: PATCH -> 400 {"message":..,"diagnostics":[d]} without "code"). *)
Theorem C20_diagnostics_full_refuted : ~ diagnostics_full_statement.
Proof. exact diagnostics_full_refuted. Qed.

(* outside the decidable class kf_diag_code (EXACTLY: the body code is absent or differs from 400) a 4xx reply
   with diagnostics is returned as diagnostics, after exactly one request *)
Theorem C20_diagnostics_partial : forall f, In f client_ops -> of_err_resp f = true ->
  forall token a n (env : nat -> reply) s code nd etag rev,
  names_ok f a = true -> local_revision f a = None ->
  env 0%nat = RpResp s (BJson code nd) etag rev -> 400 <= s -> s <= 499 -> nd <> 0%nat ->
  diag_applicable s token = true -> kf_diag_code code = false ->
  co_result (run_call_env f token a n env) = RDiags nd
  /\ length (co_requests (run_call_env f token a n env)) = 1%nat.
Proof. exact (t_diagnostics C20_src_table_wf). Qed.

(* the replies excluded by [diag_applicable] are the generic "login required" / "rate limit" failures, whatever
   their body *)
Theorem C20_diagnostics_intercepted : forall f token s b etag rev, diag_applicable s token = false ->
  http_result f token (RpResp s b etag rev) = RErr "login" 0
  \/ http_result f token (RpResp s b etag rev) = RErr "ratelimit" 0.
Proof. exact intercepted_result. Qed.

(* ---- non-vacuity and observations (computed on the extracted table) ------------------------------------------ *)
Example C20_example_values :
  max_retry_count = 4
  /\ map of_name (filter of_err_resp client_ops)
     = ["UpdateEnvironmentWithRevision"; "UpdateEnvironment"; "UpdateEnvironmentWithProject"; "OpenEnvironment";
        "CheckYAMLEnvironment"; "OpenYAMLEnvironment"]
  /\ length client_ops = 33%nat
  /\ names_ok (op_named "GetEnvironment") ["my-org"; "proj.1"; "env_a"; "stable"] = true
  /\ request_target (op_named "GetEnvironment") ["my-org"; "proj.1"; "env_a"; "stable"] [Some 1%Z]
     = "/api/esc/environments/my-org/proj.1/env_a/versions/stable/decrypt"
  /\ request_target (op_named "ListEnvironmentTags") ["o"; "p"; "e"; "a b"] [None]
     = "/api/esc/environments/o/p/e/tags?after=a+b&count=".
Proof. exact (conj eq_refl (conj eq_refl (conj eq_refl (conj eq_refl (conj eq_refl eq_refl))))). Qed.

(* a conditional update under a 503 then success: sent once, fails, carries token and tag *)
Example C20_example_patch_once :
  run_call (op_named "UpdateEnvironmentWithRevision") "tok" ["o"; "p"; "e"; "etag-7"] []
           [RpResp 503 BEmpty "" None] (RpResp 200 BOk "" (Some 8))
  = mk_obs [mk_req "PATCH" "/api/esc/environments/o/p/e" "token tok" "etag-7" "" []] 1 (RErr "http" 503).
Proof. exact eq_refl. Qed.

(* a GET under alternating empty 503 / connection reset: 4 tries, 7 requests on the wire (the bound 2*max-1 is
   reached), success at the 7th *)
Example C20_example_get_replay :
  let o := run_call (op_named "EnvironmentExists") "tok" ["o"; "p"; "e"] []
             [RpResp 503 BEmpty "" None; RpReset; RpResp 503 BEmpty "" None; RpReset; RpResp 503 BEmpty "" None; RpReset]
             (RpResp 200 BOk "" None) in
  (length (co_requests o), co_attempts o, co_result o) = (7%nat, 4%nat, ROk ["true"]).
Proof. exact eq_refl. Qed.

(* a request that starts on a connection kept alive by an earlier operation: 8 = 2*max requests reach the server *)
Example C20_example_get_replay_reused :
  retry_loop 5 4 0 0 true true
    (env_of [RpReset; RpResp 503 BEmpty "" None; RpReset; RpResp 503 BEmpty "" None; RpReset; RpResp 503 BEmpty "" None;
             RpReset] (RpResp 200 BOk "" None))
  = LDone (RpResp 200 BOk "" None) 4 8.
Proof. exact eq_refl. Qed.

(* the route words of today's table, two routes, and the class of the cross-operation finding; a body *)
Example C20_example_routes :
  route_words = ["api"; "esc"; "environments"; "api"; "esc"; "environments"; "versions"]
                ++ flat_map op_words client_ops
  /\ forallb is_route_word ["api"; "user"; "esc"; "environments"; "versions"; "tags"; "open"; "yaml"; "check"; "clone";
                            "retract"; "decrypt"] = true
  /\ existsb is_route_word ["default"; "latest"; "stable"; "hooks"; "o"; "p"; "e"] = false
  /\ op_route (op_named "GetEnvironment") ["o"; "p"; "e"; "tags"] [Some 1%Z]
     = [TLit "api"; TLit "esc"; TLit "environments"; TName "o"; TName "p"; TName "e"; TLit "versions"; TName "tags";
        TLit "decrypt"]
  /\ op_route (op_named "GetEnvironmentRevisionTag") ["o"; "p"; "e"; "decrypt"] []
     = [TLit "api"; TLit "esc"; TLit "environments"; TName "o"; TName "p"; TName "e"; TLit "versions"; TLit "tags";
        TName "decrypt"]
  /\ reserved_names (op_named "GetEnvironment") ["o"; "p"; "e"; "tags"] = true
  /\ reserved_names (op_named "GetEnvironment") ["my-org"; "proj.1"; "env_a"; "stable"] = false
  /\ op_route (op_named "GetEnvironment") ["o"; "p"; "e"; ""] [Some 0%Z]
     = op_route (op_named "EnvironmentExists") ["o"; "p"; "e"] []
  /\ body_fields (op_named "CloneEnvironment") ["o"; "p"; "e"; "p2"; "e2"] [Some 1%Z]
     = [("name", "e2"); ("preserveHistory", "true"); ("project", "p2")]
  /\ body_fields (op_named "CreateEnvironmentRevisionTag") ["o"; "p"; "e"; "stable"] [Some 7%Z]
     = [("name", "stable"); ("revision", "7")].
Proof. exact (conj eq_refl (conj eq_refl (conj eq_refl (conj eq_refl (conj eq_refl (conj eq_refl (conj eq_refl (conj eq_refl (conj eq_refl eq_refl))))))))). Qed.

(* OBSERVATIONS.  (1) the second witness of C20-route-words: a project "yaml" with an environment "open", read with
   decryption, is the request that reads the anonymous open session "decrypt".  (2) names are not escaped and the
   path is cleaned: the environment-tag name ".." (NOT a valid name) turns DeleteEnvironmentTag into the DELETE of
   the environment itself. *)
Example C20_observation_collisions :
  request_target (op_named "GetEnvironment") ["o"; "yaml"; "open"; ""] [Some 1%Z]
  = request_target (op_named "GetAnonymousOpenEnvironment") ["o"; "decrypt"] []
  /\ of_verb (op_named "GetEnvironment") = of_verb (op_named "GetAnonymousOpenEnvironment")
  /\ request_target (op_named "DeleteEnvironmentTag") ["o"; "p"; "e"; ".."] []
     = request_target (op_named "DeleteEnvironment") ["o"; "p"; "e"] []
  /\ of_verb (op_named "DeleteEnvironmentTag") = of_verb (op_named "DeleteEnvironment").
Proof. exact (conj eq_refl (conj eq_refl (conj eq_refl eq_refl))). Qed.
