(* Properties/C07.v — Evaluation is total: diagnostics, never a crash or a hang.
   Statements only, each closed by [exact]; the proofs live in Proofs/EvalTotal*.v.

   Scope.  The theorems are about the executable model Model/Eval.v (validated against the Go evaluator by
   Corr/C07.v).  A Gallina function cannot crash, so "total" means here:
     (A) the fuel of the model is a technical device only — results do not depend on it once it suffices
         (C07_fuel_monotone) and it always suffices above an explicit bound, reference cycles, dangling
         references, import cycles, self-imports and all collaborator faults included (C07_fuel_suffices);
     (B) error recovery — every failure becomes an UNKNOWN value plus at least one diagnostic, and the rest of
         the environment is still produced (C07_run_keys_present, C07_declared_keys_present, the per-construct
         theorems below).
   Go panics, stack exhaustion and the YAML layer on arbitrary bytes are runtime behaviour: they are observed
   by the fault-enumeration harness, not proved here. *)
From Verif Require Import Proofs.EvalTotal.
From Coq Require Import Lia Sorting.Sorted.

(* ================= (A) fuel ================= *)

(* a run that ended with the fuel flag clear is reproduced exactly (value AND final state) with more fuel:
   all five mutually recursive functions and eval_env *)
Theorem C07_fuel_monotone : forall (W : world) (f f' : nat), (f <= f')%nat ->
  (forall E x xsec xbase id s, oof s = false -> oof (snd (eval_expr W f E x xsec xbase id s)) = false ->
     eval_expr W f' E x xsec xbase id s = eval_expr W f E x xsec xbase id s) /\
  (forall E x xbase id s, oof s = false -> oof (snd (eval_repr W f E x xbase id s)) = false ->
     eval_repr W f' E x xbase id s = eval_repr W f E x xbase id s) /\
  (forall E x a id s, oof s = false -> oof (snd (eval_typed W f E x a id s)) = false ->
     eval_typed W f' E x a id s = eval_typed W f E x a id s) /\
  (forall E p s, oof s = false -> oof (snd (eval_access W f E p s)) = false ->
     eval_access W f' E p s = eval_access W f E p s) /\
  (forall E rx rsec rbase rid accs s, oof s = false -> oof (snd (walk W f E rx rsec rbase rid accs s)) = false ->
     walk W f' E rx rsec rbase rid accs s = walk W f E rx rsec rbase rid accs s) /\
  (forall root name d s, oof s = false -> oof (snd (eval_env W f root name d s)) = false ->
     eval_env W f' root name d s = eval_env W f root name d s).
Proof. exact fuel_monotone. Qed.

Theorem C07_run_fuel_irrelevant : forall f f' W n d,
  ob_oof (run f W n d) = false -> (f <= f')%nat -> run f' W n d = run f W n d.
Proof. exact run_fuel_irrelevant. Qed.

(* the fuel flag is never reset, the number of diagnostics never decreases *)
Theorem C07_oof_sticky : forall (W : world) (f : nat),
  (forall E x xsec xbase id, keeps (eval_expr W f E x xsec xbase id)) /\
  (forall E x xbase id, keeps (eval_repr W f E x xbase id)) /\
  (forall E x a id, keeps (eval_typed W f E x a id)) /\
  (forall E p, keeps (eval_access W f E p)) /\
  (forall E rx rsec rbase rid accs, keeps (walk W f E rx rsec rbase rid accs)) /\
  (forall root name d, keeps (eval_env W f root name d)).
Proof. exact oof_sticky. Qed.

(* ... nor anything else: calls, memo table and import table only grow (the full state preorder) *)
Theorem C07_state_monotone : forall W f root name d s, st_le s (snd (eval_env W f root name d s)).
Proof. exact eval_env_mono. Qed.

(* THE TERMINATION ARGUMENT.  [fuel_bound W d] = (number of loadable environments) + max over the root and the
   loadable definitions of ((2 * longest reference path + 4) * number of expression positions + 1) + 1.
   With that much fuel the flag stays clear for every world without fn::toJSON / fn::fromJSON (whose
   non-ASCII cases the model reports through the same flag): reference cycles, dangling references, import
   cycles, self-imports, missing / unparsable imports, failing providers and decrypters, and every fault
   plan [w_fault] included. *)
Theorem C07_fuel_suffices : forall W name d f,
  world_no_json W d = true -> (fuel_bound W d <= f)%nat ->
  oof (snd (eval_env W f "" name d st0)) = false.
Proof. exact fuel_suffices. Qed.

(* expression level: K * (number of positions) + 1 units are enough for any expression of a JSON-free
   environment, from ANY state (any memo contents, e.g. in the middle of a reference cycle) *)
Theorem C07_eval_expr_fuel_suffices : forall W f E x xsec xbase id s,
  no_json (root_of E) = true -> at_id E id x ->
  (K (max_path (root_of E)) * length (all_paths (root_of E)) + 1 <= f)%nat ->
  oof s = false -> oof (snd (eval_expr W f E x xsec xbase id s)) = false.
Proof. exact eval_expr_fuel_suffices. Qed.

(* hence the observation is independent of the fuel from the bound on *)
Theorem C07_run_stable : forall W name d f,
  world_no_json W d = true -> (fuel_bound W d <= f)%nat -> run f W name d = run (fuel_bound W d) W name d.
Proof. exact run_stable. Qed.

(* the boundary of (A).  [ob_oof] of the observation also records a failed [export] of the result (a value
   nested deeper than big_fuel = 4096 levels): above the bound that is the only way it can be set ... *)
Theorem C07_run_oof_only_export : forall W name d f,
  world_no_json W d = true -> (fuel_bound W d <= f)%nat ->
  ob_oof (run f W name d) = match ob_value (run f W name d) with None => true | Some _ => false end.
Proof. exact run_oof_only_export. Qed.

(* ... and the restriction to worlds without fn::toJSON / fn::fromJSON cannot be dropped: the model raises the
   same flag as an "unsupported" marker for non-ASCII JSON text (witness: x: {fn::fromJSON: "\"\233\""}) *)
Theorem C07_fuel_suffices_unrestricted_refuted :
  ~ (forall W name d f, (fuel_bound W d <= f)%nat -> oof (snd (eval_env W f "" name d st0)) = false).
Proof. exact fuel_suffices_unrestricted_refuted. Qed.

(* ================= (B) error recovery ================= *)

(* the observation of a run that did not exhaust its fuel is an object containing every declared, non-reserved
   root key — whatever failed on the way.  This is exactly the check [keys_present] of Corr/C07.v. *)
Theorem C07_run_keys_present : forall f W name d,
  ob_oof (run f W name d) = false ->
  exists m, ob_value (run f W name d) = Some (XObj false false m) /\
            forall k, In k (map fst (ed_values d)) -> reserved k = false -> In k (map fst m).
Proof. exact run_keys_present. Qed.

(* the same for eval_env from any state in which no expression of [name] has been entered: the top layer of
   the returned chain is an object whose key list is exactly [env_keys d] *)
Theorem C07_declared_keys_present : forall W fuel root name d s,
  untouched name s ->
  oof (snd (eval_env W fuel root name d s)) = false ->
  exists props rest,
    fst (eval_env W fuel root name d s) = obj_layer props :: rest /\ map fst props = env_keys d.
Proof. exact declared_keys_present. Qed.

(* ... where [env_keys d] is: sorted, duplicate-free, the non-reserved keys of [ed_values d] *)
Theorem C07_env_keys_spec : forall d,
  StronglySorted slt (env_keys d) /\ NoDup (env_keys d) /\
  (forall k, In k (env_keys d) <-> In k (map fst (ed_values d)) /\ reserved k = false).
Proof. exact env_keys_spec. Qed.

(* every object literal evaluates to an object with exactly its declared keys (first occurrences, sorted),
   every array literal to an array of the same length: a failed member is a member (unknown), never missing.
   No hypothesis on the state, the collaborators or the fuel left for the members. *)
Theorem C07_object_keys : forall W f E entries xbase id s,
  exists props,
    fst (eval_repr W (S f) E (EObj entries) xbase id s) = [obj_layer props] /\
    map fst props = declared_keys_of entries.
Proof. exact eval_repr_obj_keys. Qed.

Theorem C07_declared_keys_of_spec : forall (entries : list (string * expr)),
  StronglySorted slt (declared_keys_of entries) /\ NoDup (declared_keys_of entries) /\
  (forall k, In k (declared_keys_of entries) <-> In k (map fst entries)).
Proof. exact (@declared_keys_of_spec expr). Qed.

Theorem C07_array_length : forall W f E l xbase id s,
  exists elems,
    fst (eval_repr W (S f) E (EArr l) xbase id s)
      = [LArr false false (ScArray (map top_sch elems) (Some ScNever)) elems] /\
    length elems = length l.
Proof. exact eval_repr_arr_length. Qed.

(* ---- failed sub-expressions are UNKNOWN values + at least one diagnostic, construct by construct ----
   [bump s] is [s] with one more diagnostic; every value below has [l_unk = true]. *)
Theorem C07_bump : forall s, nerr (bump s) = nerr s + 1 /\ oof (bump s) = oof s /\ log (bump s) = log s.
Proof. exact (fun s => conj (bump_nerr s) (conj (bump_oof s) (bump_log s))). Qed.

Theorem C07_error_values_unknown :
  Forall (fun l => l_unk l = true) invalid_access /\ (forall sec c, l_unk (unknown_layer sec c) = true).
Proof. exact (conj invalid_access_unknown unknown_layer_unknown). Qed.

(* cyclic reference: the expression is being evaluated (memo entry [Some None]) *)
Theorem C07_cyclic_reference_is_unknown : forall W f E x xsec xbase id s,
  memo_get id (memo s) = Some None ->
  eval_expr W (S f) E x xsec xbase id s = ([unknown_layer false ScAlways], bump s).
Proof. exact cyclic_reference_is_unknown. Qed.

(* dangling reference ${k...}: no such key, nothing inherited *)
Theorem C07_dangling_reference_is_unknown : forall W f E a k rest s,
  object_key a = Some k -> reserved k = false ->
  alookup k (ec_values E) = None -> is_object (ec_base E) = false ->
  eval_access W (S (S f)) E (a :: rest) s = (invalid_access, bump s).
Proof. exact dangling_reference_is_unknown. Qed.

(* invalid accesses while walking the syntax of the referenced definition *)
Theorem C07_walk_bad_index : forall W f E elems rsec rbase rid a rest s,
  array_index a (Z.of_nat (length elems)) = None ->
  walk W (S f) E (EArr elems) rsec rbase rid (a :: rest) s = (invalid_access, bump s).
Proof. exact walk_bad_index. Qed.

Theorem C07_walk_bad_key : forall W f E entries rsec rbase rid a rest s,
  object_key a = None ->
  walk W (S f) E (EObj entries) rsec rbase rid (a :: rest) s = (invalid_access, bump s).
Proof. exact walk_bad_key. Qed.

Theorem C07_walk_dangling : forall W f E entries rsec rbase rid a k rest s,
  object_key a = Some k -> alookup k entries = None -> is_object rbase = false ->
  walk W (S f) E (EObj entries) rsec rbase rid (a :: rest) s = (invalid_access, bump s).
Proof. exact walk_dangling. Qed.

Theorem C07_walk_into_ciphertext : forall W f E repr rsec rbase rid a rest s,
  walk W (S f) E (ESecretCipher repr) rsec rbase rid (a :: rest) s = (invalid_access, bump s).
Proof. exact walk_into_ciphertext. Qed.

(* invalid accesses into a VALUE (provider output, import, context, inherited base): whenever the pure access
   function reports a diagnostic, the result is the unknown [invalid_access] and the count is exactly 1 *)
Theorem C07_value_access_failure : forall f c accs,
  snd (value_access f c accs) <> 0 -> value_access f c accs = (invalid_access, 1).
Proof. exact value_access_failure. Qed.

(* argument validation of the builtins: a rejected argument costs at least one diagnostic — with TWO exceptions
   that mirror the implementation:
   (1) a CLOSED provider-input record with an extra key is rejected by a `false` subschema that reports nothing
       itself, and nothing is reported when the inputs contain unknowns ([silent_accept]);
   (2) an UNKNOWN value whose schema is `false` is rejected by validateSchemaType without reporting
       (eval_validate.go:191-193) and evaluateTypedExpr's fallback is skipped for values containing unknowns
       (eval.go:565): the decidable class [never_arg a v] (Proofs/EvalTotalFail.v) — the argument itself, an element of a
       known array / a prefix item of an unknown array argument of fn::join, a declared property of known provider
       inputs.  Such values arise while checking, e.g. ${o.tok} where provider o declares {type: object}
       (known finding C06-schema-absent-is-never).
   For each statement T that (2) makes false: T_refuted (computed witness: the program of [never_program]) and
   T_partial (T with the one extra hypothesis that the argument is outside [never_arg]).  The witnesses show both
   exceptions are real. *)
Theorem C07_typed_failure_refuted :
  exists W f E x a id s,
    let t := eval_typed W (S f) E x a id s in
    snd (fst t) = false /\ silent_accept a = false /\ nerr (snd t) = nerr s.
Proof. exact eval_typed_failure_refuted. Qed.

Theorem C07_typed_failure_partial : forall W f E x a id s,
  let t := eval_typed W (S f) E x a id s in
  snd (fst t) = false ->
  never_arg a (fst (fst t)) = false ->
  silent_accept a = false \/ contains_unknowns (fst (fst t)) = false ->
  nerr s + 1 <= nerr (snd t).
Proof. exact eval_typed_failure_partial. Qed.

Theorem C07_validate_fail_diag_refuted :
  exists a v, validate a v = (false, 0) /\ silent_accept a = false /\ never_arg a v = true.
Proof. exact validate_fail_diag_refuted. Qed.

Theorem C07_validate_fail_diag_partial : forall a v n,
  never_arg a v = false ->
  validate a v = (false, n) -> silent_accept a = false \/ contains_unknowns v = false -> 1 <= n.
Proof. exact validate_fail_diag_partial. Qed.

Theorem C07_validate_silent_witness :
  validate (AccIn (InRecord [] [] true)) [LObj false false ScAlways [("x", [unknown_layer false ScAlways])]] = (false, 0).
Proof. exact validate_silent_witness. Qed.

(* every position of the class, on the smallest values *)
Theorem C07_validate_silent_never_witness :
  validate AccString [unknown_layer false ScNever] = (false, 0)
  /\ validate AccArrString [unknown_layer false ScNever] = (false, 0)
  /\ validate AccArrString [LArr false false (ScArray [ScNever; ScType "string"] (Some ScNever))
                              [[unknown_layer false ScNever]; [str_layer false false "hello"]]] = (false, 0)
  /\ validate AccArrString [unknown_layer false (ScArray [ScNever] (Some ScNever))] = (false, 0)
  /\ validate (AccIn (InRecord [] [] false)) [unknown_layer false ScNever] = (false, 0)
  /\ validate (AccIn (InRecord [("region", "string")] [] false))
       [LObj false false (ScObject [("region", ScNever)] None) [("region", [unknown_layer false ScNever])]] = (false, 0).
Proof. exact validate_silent_never_witness. Qed.

(* the whole program: provider p declares {type: object}; checking; join element, join delimiter, toBase64, fromBase64,
   fromJSON and a record-typed provider input fed with ${o.tok}: all unknown, NO diagnostic *)
Theorem C07_never_program_silent :
  let o := run 100 never_world "root" never_program in
  ob_errors o = false /\ ob_oof o = false
  /\ ob_value o = Some (XObj false false
       [("c", XScalar false true SNull); ("d", XScalar false true SNull); ("e", XScalar false true SNull);
        ("f", XScalar false true SNull); ("g", XScalar false true SNull); ("h", XScalar false true SNull);
        ("o", XScalar false true SNull)]).
Proof. exact never_program_silent. Qed.

(* ... and the builtin then yields an unknown value of its result type *)
Theorem C07_tob64_bad_argument_refuted :
  exists W f E e id s,
    let t := eval_typed W (S f) E e AccString (arg_id id 0) s in
    snd (fst t) = false /\ nerr (snd t) = nerr s.
Proof. exact tob64_bad_argument_refuted. Qed.

Theorem C07_tob64_bad_argument_partial : forall W f E e xbase id s,
  let t := eval_typed W (S f) E e AccString (arg_id id 0) s in
  snd (fst t) = false ->
  never_arg AccString (fst (fst t)) = false ->
  eval_repr W (S (S f)) E (EToB64 e) xbase id s = ([unknown_layer false (ScType "string")], snd t)
  /\ nerr s + 1 <= nerr (snd t).
Proof. exact tob64_bad_argument_partial. Qed.

Theorem C07_fromb64_bad_argument_refuted :
  exists W f E e id s,
    let t := eval_typed W (S f) E e AccString (arg_id id 0) s in
    snd (fst t) = false /\ nerr (snd t) = nerr s.
Proof. exact tob64_bad_argument_refuted. Qed.

Theorem C07_fromb64_bad_argument_partial : forall W f E e xbase id s,
  let t := eval_typed W (S f) E e AccString (arg_id id 0) s in
  snd (fst t) = false ->
  never_arg AccString (fst (fst t)) = false ->
  eval_repr W (S (S f)) E (EFromB64 e) xbase id s = ([unknown_layer false (ScType "string")], snd t)
  /\ nerr s + 1 <= nerr (snd t).
Proof. exact fromb64_bad_argument_partial. Qed.

Theorem C07_fromjson_bad_argument_refuted :
  exists W f E e id s,
    let t := eval_typed W (S f) E e AccString (arg_id id 0) s in
    snd (fst t) = false /\ nerr (snd t) = nerr s.
Proof. exact tob64_bad_argument_refuted. Qed.

Theorem C07_fromjson_bad_argument_partial : forall W f E e xbase id s,
  let t := eval_typed W (S f) E e AccString (arg_id id 0) s in
  snd (fst t) = false ->
  never_arg AccString (fst (fst t)) = false ->
  eval_repr W (S (S f)) E (EFromJSON e) xbase id s = ([unknown_layer false ScAlways], snd t)
  /\ nerr s + 1 <= nerr (snd t).
Proof. exact fromjson_bad_argument_partial. Qed.

Theorem C07_join_bad_argument_refuted :
  exists W f E d vs id s,
    let t1 := eval_typed W (S f) E d AccString (arg_id id 0) s in
    let t2 := eval_typed W (S f) E vs AccArrString (arg_id id 1) (snd t1) in
    (snd (fst t1) = false \/ snd (fst t2) = false) /\ nerr (snd t2) = nerr s.
Proof. exact join_bad_argument_refuted. Qed.

Theorem C07_join_bad_argument_partial : forall W f E d vs xbase id s,
  let t1 := eval_typed W (S f) E d AccString (arg_id id 0) s in
  let t2 := eval_typed W (S f) E vs AccArrString (arg_id id 1) (snd t1) in
  snd (fst t1) = false \/ snd (fst t2) = false ->
  never_arg AccString (fst (fst t1)) = false /\ never_arg AccArrString (fst (fst t2)) = false ->
  eval_repr W (S (S f)) E (EJoin d vs) xbase id s = ([unknown_layer false (ScType "string")], snd t2)
  /\ nerr s + 1 <= nerr (snd t2).
Proof. exact join_bad_argument_partial. Qed.

(* well-typed argument, malformed contents *)
Theorem C07_fromb64_bad_text : forall W f E e xbase id s sec' unk' sc' txt rest,
  let t := eval_typed W f E e AccString (arg_id id 0) s in
  let v := LScalar sec' unk' sc' (SStr txt) :: rest in
  fst t = (v, true) -> contains_unknowns v = false -> b64_decode txt = None ->
  eval_repr W (S f) E (EFromB64 e) xbase id s
  = ([LScalar (contains_secrets v) true (ScType "string") SNull], bump (snd t)).
Proof. exact fromb64_bad_text. Qed.

Theorem C07_fromjson_bad_text : forall W f E e xbase id s sec' unk' sc' txt rest,
  let t := eval_typed W f E e AccString (arg_id id 0) s in
  let v := LScalar sec' unk' sc' (SStr txt) :: rest in
  fst t = (v, true) -> contains_unknowns v = false -> json_parse txt = JPErr ->
  eval_repr W (S f) E (EFromJSON e) xbase id s
  = ([LScalar (contains_secrets v) true ScAlways SNull], bump (snd t)).
Proof. exact fromjson_bad_text. Qed.

(* secrets: invalid envelope; decrypter failing or faulted *)
Theorem C07_bad_ciphertext_is_unknown : forall W f E repr xbase id s,
  (forall ct, decode_ct esc_params repr <> DOk ct) ->
  eval_repr W (S f) E (ESecretCipher repr) xbase id s = ([LScalar true true (ScType "string") SNull], bump s).
Proof. exact bad_ciphertext_is_unknown. Qed.

Theorem C07_decrypt_failure_is_unknown : forall W f E repr ct xbase id s,
  decode_ct esc_params repr = DOk ct -> w_check W && negb (w_show W) = false ->
  (w_fault W = Some (calls s) \/ w_decrypt W (ec_name E) ct = None) ->
  exists s',
    eval_repr W (S f) E (ESecretCipher repr) xbase id s = ([LScalar true true (ScType "string") SNull], s') /\
    nerr s' = nerr s + 1 /\ log s' = EvDecrypt (ec_name E) ct :: log s /\ oof s' = oof s.
Proof. exact decrypt_failure_is_unknown. Qed.

(* providers: unknown provider / faulted LoadProvider; rejected inputs; Open failing or faulted; inputs that are
   not an object although the schema let them through *)
Theorem C07_provider_load_failure : forall W f E pname inputs xbase id s,
  (w_fault W = Some (calls s) \/ alookup pname (w_provs W) = None) ->
  fst (eval_repr W (S f) E (EOpen pname inputs) xbase id s) = [unknown_layer false ScAlways] /\
  nerr s + 1 <= nerr (snd (eval_repr W (S f) E (EOpen pname inputs) xbase id s)).
Proof. exact provider_load_failure. Qed.

Theorem C07_provider_bad_inputs : forall W f E pname inputs xbase id s p,
  fst (call W s) = false -> alookup pname (w_provs W) = Some p ->
  let s1 := snd (emit (EvLoadProvider pname) (snd (call W s))) in
  let t := eval_typed W f E inputs (AccIn (pv_in p)) (arg_id id 0) s1 in
  snd (fst t) = false ->
  eval_repr W (S f) E (EOpen pname inputs) xbase id s = ([unknown_layer false (pv_out p)], snd t).
Proof. exact provider_bad_inputs. Qed.

Theorem C07_provider_open_failure : forall W f E pname inputs xbase id s p,
  fst (call W s) = false -> alookup pname (w_provs W) = Some p ->
  let s1 := snd (emit (EvLoadProvider pname) (snd (call W s))) in
  let t := eval_typed W f E inputs (AccIn (pv_in p)) (arg_id id 0) s1 in
  forall iv a b m,
  fst t = (iv, true) -> contains_unknowns iv = false -> w_check W = false ->
  export_t iv = Some (XObj a b m) ->
  (w_fault W = Some (calls (snd t)) \/ pv_beh p = PFail) ->
  exists s',
    eval_repr W (S f) E (EOpen pname inputs) xbase id s = ([unknown_layer false (pv_out p)], s') /\
    nerr s' = nerr (snd t) + 1 /\
    log s' = EvOpen id pname (XObj a b m) (ec_root E) (ec_name E) :: log (snd t).
Proof. exact provider_open_failure. Qed.

Theorem C07_provider_nonobject_inputs : forall W f E pname inputs xbase id s p,
  fst (call W s) = false -> alookup pname (w_provs W) = Some p ->
  let s1 := snd (emit (EvLoadProvider pname) (snd (call W s))) in
  let t := eval_typed W f E inputs (AccIn (pv_in p)) (arg_id id 0) s1 in
  forall iv x,
  fst t = (iv, true) -> contains_unknowns iv = false -> w_check W = false ->
  export_t iv = Some x -> (forall a b m, x <> XObj a b m) ->
  eval_repr W (S f) E (EOpen pname inputs) xbase id s = ([unknown_layer false (pv_out p)], bump (snd t)).
Proof. exact provider_nonobject_inputs. Qed.

(* imports: a failing / missing / unparsable / faulted load, or an import cycle (self-import included), costs
   one diagnostic and is skipped; the remaining imports are processed with the same accumulated base; the failure is
   entered in the imports table (eval.go: imported{failed: true}) ... *)
Theorem C07_import_failure_skipped : forall W ev n merge rest base my s,
  alookup n (imps s) = None ->
  load_result W (fst (call W s)) n = LoadFail \/ load_result W (fst (call W s)) n = LoadNoParse ->
  env_go W ev ((n, merge) :: rest) base my s
  = env_go W ev rest base my
      (snd (imps_set n {| is_evaluating := false; is_value := None |} (bump (snd (emit (EvLoad n) (snd (call W s))))))).
Proof. exact import_failure_skipped. Qed.

(* ... so that a later listing of the same name costs nothing at all: no load, no call, no event, no diagnostic *)
Theorem C07_import_remembered_failure_skipped : forall W ev n merge rest base my s i,
  alookup n (imps s) = Some i -> is_evaluating i = false -> is_value i = None ->
  env_go W ev ((n, merge) :: rest) base my s = env_go W ev rest base my s.
Proof. exact import_remembered_failure_skipped. Qed.

Theorem C07_load_fault_fails : forall W n s, w_fault W = Some (calls s) -> load_result W (fst (call W s)) n = LoadFail.
Proof. exact load_result_fault. Qed.

Theorem C07_load_missing_fails : forall W n b, alookup n (w_envs W) = None -> load_result W b n = LoadFail.
Proof. exact load_result_missing. Qed.

Theorem C07_import_cycle_skipped : forall W ev n merge rest base my s i,
  alookup n (imps s) = Some i -> is_evaluating i = true ->
  env_go W ev ((n, merge) :: rest) base my s = env_go W ev rest base my (bump s).
Proof. exact import_cycle_skipped. Qed.

(* ================= Examples: the hypotheses are satisfiable on non-trivial data ================= *)
Definition ex_world (envs : list (string * env_load)) (fault : option N) : world :=
  {| w_envs := envs; w_provs := []; w_ctx := []; w_check := false; w_show := false;
     w_fault := fault; w_decrypt := fun _ _ => None |}.

(* a: ${a}   b: 2     — the self-reference is cut: unknown value, exactly one diagnostic, b unaffected *)
Definition ex_self : envdef :=
  {| ed_imports := []; ed_values := [("a", ESym [AName "a"]); ("b", ENum "2")] |}.

Example C07_ex_self_reference :
  run 40 (ex_world [] None) "e" ex_self
  = {| ob_value := Some (XObj false false [("a", XScalar false true SNull); ("b", XScalar false false (SNum "2"))]);
       ob_errors := true; ob_log := []; ob_oof := false |}
  /\ nerr (snd (eval_env (ex_world [] None) 40 "" "e" ex_self st0)) = 1.
Proof. vm_compute. split; reflexivity. Qed.

(* the bound of this world is 20; the theorem applies and agrees with the computation *)
Example C07_ex_self_bound :
  fuel_bound (ex_world [] None) ex_self = 20%nat /\
  oof (snd (eval_env (ex_world [] None) 20 "" "e" ex_self st0)) = false /\
  run 1000 (ex_world [] None) "e" ex_self = run 20 (ex_world [] None) "e" ex_self.
Proof.
  split; [vm_compute; reflexivity|]. split.
  - apply C07_fuel_suffices; [vm_compute; reflexivity|vm_compute; lia].
  - apply (C07_run_stable (ex_world [] None) "e" ex_self 1000); [vm_compute; reflexivity|vm_compute; lia].
Qed.

(* a failing import, a missing one, one that imports the root back (cycle) and a self-import: four
   diagnostics from the imports, a fifth for ${imports.bad}; all three declared keys are present, the
   successfully imported key z too *)
Definition ex_envs : list (string * env_load) :=
  [("bad", LoadFail);
   ("ok", LoadOk {| ed_imports := [("e", true)]; ed_values := [("z", ENum "9")] |})].
Definition ex_imp : envdef :=
  {| ed_imports := [("bad", true); ("nope", true); ("ok", true); ("e", true)];
     ed_values := [("a", ENum "1"); ("b", ESym [AName "z"]); ("c", ESym [AName "imports"; AName "bad"])] |}.

Example C07_ex_failing_imports :
  run 40 (ex_world ex_envs None) "e" ex_imp
  = {| ob_value := Some (XObj false false [("a", XScalar false false (SNum "1"));
                                           ("b", XScalar false false (SNum "9"));
                                           ("c", XScalar false true SNull);
                                           ("z", XScalar false false (SNum "9"))]);
       ob_errors := true; ob_log := [EvLoad "bad"; EvLoad "nope"; EvLoad "ok"]; ob_oof := false |}
  /\ nerr (snd (eval_env (ex_world ex_envs None) 40 "" "e" ex_imp st0)) = 5
  /\ env_keys ex_imp = ["a"; "b"; "c"].
Proof. vm_compute. repeat split; reflexivity. Qed.

(* the same with the third collaborator call (loading "ok") made to fail: keys still all there *)
Example C07_ex_fault_injected :
  exists m, ob_value (run 40 (ex_world ex_envs (Some 2)) "e" ex_imp) = Some (XObj false false m) /\
            forall k, In k (map fst (ed_values ex_imp)) -> reserved k = false -> In k (map fst m).
Proof. apply C07_run_keys_present. vm_compute. reflexivity. Qed.

Example C07_ex_fault_value :
  ob_value (run 40 (ex_world ex_envs (Some 2)) "e" ex_imp)
  = Some (XObj false false [("a", XScalar false false (SNum "1"));
                            ("b", XScalar false true SNull);
                            ("c", XScalar false true SNull)]).
Proof. vm_compute. reflexivity. Qed.

Example C07_ex_imports_bound :
  fuel_bound (ex_world ex_envs None) ex_imp = 36%nat /\
  forall fault f, (36 <= f)%nat -> oof (snd (eval_env (ex_world ex_envs fault) f "" "e" ex_imp st0)) = false.
Proof.
  split; [vm_compute; reflexivity|]. intros fault f Hf.
  apply C07_fuel_suffices; [vm_compute; reflexivity|exact Hf].
Qed.
