From Verif Require Import Model.Chain.
Example C07_placeholder : 1 = 1. Proof. reflexivity. Qed.
