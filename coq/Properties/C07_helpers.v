(* Properties/C07_helpers.v — C07: no inner helper of the evaluator runs out of fuel silently.
   Statements only; proofs in Proofs/HelperFuel.v, Proofs/RefSem2Depth.v.

   The five evaluator functions and eval_env mark fuel exhaustion in the state ([oof]).  The helpers they call are
   fuelled too; each is called with a fuel COMPUTED from its argument (Model/Eval.v, header "FUEL"), and for each the
   theorems below say that from that fuel on the result does not depend on the fuel - the [O] branch of the helper
   (which returns an ordinary-looking value: an "invalid access" diagnostic, an unknown, [], JNull, `false`) is not
   reached.  The merged view the evaluator LOOKS at (containsUnknowns / containsSecrets / validate, provider inputs) is
   [export_t]: always defined.  The only constant fuel left, [big_fuel] = 4096 as a bound on the nesting depth of a
   value that is PRINTED (fn::toJSON, the final export of [run]), is matched explicitly ([out_of_fuel] / [ob_oof]).
   A chain may be arbitrarily LONG: C07_tower_* run the audit's witness (8193 layers) through C07_run_terminates_cleanly. *)
From Verif Require Import Base.Bytes Model.Chain Model.GoText Model.Envelope Model.Eval
  Proofs.HelperFuel Proofs.EvalTotalSyntax Proofs.EvalTotalBound Proofs.RefSem2Depth Proofs.RefSem2DepthEnv
  Proofs.RefSem2Clean.
From Verif Require Properties.C07_clean.
From Coq Require Import Lia.

(* ---------- evaluateValueAccess: fuel = the exact number of its steps, for chains of any length ---------- *)
(* [value_access_s]: evaluateValueAccess by structural recursion on the path and the chain, without fuel *)
Theorem C07_value_access_exact : forall c accs, value_access (va_need c accs) c accs = value_access_s accs c.
Proof. exact value_access_exact. Qed.

Theorem C07_value_access_fuel_stable : forall c accs f,
  (va_need c accs <= f)%nat -> value_access f c accs = value_access (va_need c accs) c accs.
Proof. exact value_access_fuel_stable. Qed.

(* ---------- toString, unexport, ToJSON, the unknown / secret scans: fuel = depth of what they traverse ---------- *)
Theorem C07_to_string_fuel_stable : forall c f, (ts_need c <= f)%nat -> to_string f c = to_string (ts_need c) c.
Proof. exact to_string_fuel_stable. Qed.

Theorem C07_unexport_fuel_stable : forall sec v f,
  (S (x_depth v) <= f)%nat -> unexport f sec v = unexport (S (x_depth v)) sec v.
Proof. exact unexport_fuel_stable. Qed.

Theorem C07_x_to_json_fuel_stable : forall v f, (S (x_depth v) <= f)%nat -> x_to_json f v = x_to_json (S (x_depth v)) v.
Proof. exact x_to_json_fuel_stable. Qed.

Theorem C07_x_has_unknown_fuel : forall v f, (S (x_depth v) <= f)%nat -> x_any (fun _ u => u) f v = x_has_unknown v.
Proof. exact x_has_unknown_fuel. Qed.

Theorem C07_x_has_secret_fuel : forall v f, (S (x_depth v) <= f)%nat -> x_any (fun s _ => s) f v = x_has_secret v.
Proof. exact x_has_secret_fuel. Qed.

(* ---------- schema.Property / Item / mergedSchema / the type test: fuel = nesting depth of the schema ---------- *)
Theorem C07_sch_property_fuel_stable : forall k s f, (sch_depth s <= f)%nat -> sch_property f k s = sch_property (sch_depth s) k s.
Proof. exact sch_property_fuel_stable. Qed.

Theorem C07_sch_item_fuel_stable : forall i s f, (sch_depth s <= f)%nat -> sch_item f i s = sch_item (sch_depth s) i s.
Proof. exact sch_item_fuel_stable. Qed.

Theorem C07_sch_is_type_fuel_stable : forall ty s f, (sch_depth s <= f)%nat -> sch_is_type f ty s = sch_is_type (sch_depth s) ty s.
Proof. exact sch_is_type_fuel_stable. Qed.

Theorem C07_merged_schema_fuel_stable : forall b t f,
  (sch_depth t <= f)%nat -> merged_schema f b t = merged_schema (sch_depth t) b t.
Proof. exact merged_schema_fuel_stable. Qed.

(* ---------- the merged view inside the evaluator is total ---------- *)
Theorem C07_export_t_total : forall c, exists v, export_t c = Some v.
Proof. exact export_t_total. Qed.

(* it is [export] at ANY fuel above the depth of the chain (in particular it extends [export big_fuel]) *)
Theorem C07_export_t_at : forall c f, (cdepth c < f)%nat -> export_t c = export f c.
Proof. exact export_t_at. Qed.

Theorem C07_export_t_big : forall c v, export big_fuel c = Some v -> export_t c = Some v.
Proof. exact export_t_big. Qed.

(* containsUnknowns / containsSecrets are exact for EVERY value: the [None => true] of their definition is dead code *)
Theorem C07_contains_exact : forall c,
  exists v, export_t c = Some v /\ contains_unknowns c = x_has_unknown v /\ contains_secrets c = x_has_secret v.
Proof. exact contains_unknowns_t. Qed.

(* ================= the tower: a LONG chain =================
   t00 = {}, t(i+1) imports [ti, ti] (the second listing is a memo hit; the value is merged twice: 2^i layers),
   z = {k: 1}, the root imports [z, t_n] and reads ${k}, which sits below all layers of t_n *)
Definition C07_tname (i : nat) : string := "t" +++ of_bytes [N.of_nat (48 + i / 10); N.of_nat (48 + i mod 10)].
Fixpoint C07_tower_envs (n : nat) : list (string * env_load) :=
  match n with
  | O => [(C07_tname 0, LoadOk {| ed_imports := []; ed_values := [] |})]
  | S m => (C07_tname (S m), LoadOk {| ed_imports := [(C07_tname m, true); (C07_tname m, true)]; ed_values := [] |})
           :: C07_tower_envs m
  end.
Definition C07_tower_world (n : nat) (fault : option N) : world :=
  {| w_envs := ("z", LoadOk {| ed_imports := []; ed_values := [("k", ENum "1")] |}) :: C07_tower_envs n;
     w_provs := []; w_ctx := []; w_check := false; w_show := false; w_fault := fault; w_decrypt := fun _ _ => None |}.
Definition C07_tower_def (n : nat) : envdef :=
  {| ed_imports := [("z", true); (C07_tname n, true)]; ed_values := [("a", ESym [AName "k"])] |}.

(* the hypotheses of C07_run_terminates_cleanly hold, with small bounds: the chain is long, not deep *)
Example C07_tower12_bounds :
  world_no_json (C07_tower_world 12 None) (C07_tower_def 12) = true
  /\ depth_bound (C07_tower_world 12 None) (C07_tower_def 12) = 35%nat
  /\ fuel_bound (C07_tower_world 12 None) (C07_tower_def 12) = 28%nat.
Proof. vm_compute. repeat split; reflexivity. Qed.

(* through the theorem: every fault plan, every fuel from 28 on *)
Example C07_tower12_clean : forall fault f, (28 <= f)%nat ->
  ob_oof (run f (C07_tower_world 12 fault) "root" (C07_tower_def 12)) = false.
Proof.
  intros fault f Hf. apply C07_clean.C07_run_terminates_cleanly; [vm_compute; reflexivity|vm_compute; lia|exact Hf].
Qed.

(* and the computation: 8193 layers under the root's own one, a = 1, no diagnostic (levels 3 and 12 agree) *)
Example C07_tower_values :
  (let r := run 28 (C07_tower_world 3 None) "root" (C07_tower_def 3) in
   ob_value r = Some (XObj false false [("a", XScalar false false (SNum "1")); ("k", XScalar false false (SNum "1"))])
   /\ ob_errors r = false /\ ob_oof r = false)
  /\ (let r := run 28 (C07_tower_world 12 None) "root" (C07_tower_def 12) in
      ob_value r = Some (XObj false false [("a", XScalar false false (SNum "1")); ("k", XScalar false false (SNum "1"))])
      /\ ob_errors r = false /\ ob_oof r = false)
  /\ length (fst (eval_env (C07_tower_world 12 None) 28 "" "root" (C07_tower_def 12) st0)) = 8193%nat.
Proof. vm_compute. repeat split; reflexivity. Qed.

(* the access itself: 8193 steps are needed and taken (the constant 4096 it once had is not enough) *)
Example C07_tower12_access_steps :
  let c := fst (eval_env (C07_tower_world 12 None) 28 "" "root" (C07_tower_def 12) st0) in
  va_need (tl c) [AName "k"] = 8193%nat
  /\ fst (value_access 4096 (tl c) [AName "k"]) = invalid_access
  /\ value_access (va_need (tl c) [AName "k"]) (tl c) [AName "k"] = ([LScalar false false (ScType "number") (SNum "1")], 0%N).
Proof. vm_compute. repeat split; reflexivity. Qed.
