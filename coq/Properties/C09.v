From Verif Require Import Model.Chain.
Example C09_placeholder : 1 = 1. Proof. reflexivity. Qed.
