(* Properties/C09.v — Evaluation is deterministic (with the key-order clause of C02).
   Statements only, each closed by [exact]; the proofs live in Proofs/EvalTotalPerm.v.

   Scope.  The model is a FUNCTION of (fuel, world, name, definition): "same input, same output" is the
   reflexivity of equality (C09_run_deterministic, stated for completeness, not sold as a result).  The
   nondeterminism C09 is about — Go's randomised map iteration order, state left over from earlier
   evaluations, fresh processes — is a runtime phenomenon and is exercised by the correspondence
   (Corr/C09.v: repeated and fresh-process runs, byte-compared).
   What a theorem about the model CAN say, and what makes the Go implementation's sorting sites
   (evaluateObject, value.keys) sufficient: NOTHING DEPENDS ON THE ORDER IN WHICH KEYS ARE WRITTEN OR
   ITERATED.  Objects are evaluated through [declared] + [sort_entries], expression identities are key-based
   paths, and lookups take the first occurrence; so two definitions that differ only in the order of their
   (unique) keys — at every nesting level, in the root environment and in every imported one — produce equal
   values, equal final states (memo table, diagnostics count, collaborator-call log) and equal observations. *)
From Verif Require Import Proofs.EvalTotal.
From Coq Require Import Sorting.Permutation.

(* [expr_perm x x']: x' is x with the entries of some objects reordered, recursively.  An object may be
   reordered only if its keys are unique ([reorder]: identical lists, or a permutation of a duplicate-free
   one): with duplicate keys the first occurrence wins, which IS order dependent. *)
Theorem C09_expr_perm_refl : forall x, expr_perm x x.
Proof. exact expr_perm_refl. Qed.

Theorem C09_expr_perm_reorder : forall l l',
  NoDup (map fst l) -> Permutation l l' -> expr_perm (EObj l) (EObj l').
Proof. exact expr_perm_obj_reorder. Qed.

(* what evaluateObject iterates over — first occurrences, key-sorted — is the same list for every order of
   writing the entries, up to the source positions (which the evaluation never uses); and no duplicate is
   reported *)
Theorem C09_declared_perm : forall (l l' : list (string * expr)),
  NoDup (map fst l) -> Permutation l l' ->
  strip (sort_entries (fst (declared l 0%nat []))) = strip (sort_entries (fst (declared l' 0%nat []))) /\
  snd (declared l 0%nat []) = 0 /\ snd (declared l' 0%nat []) = 0.
Proof. exact (@declared_perm expr). Qed.

(* a reference finds the same definition (first occurrence) whatever the order *)
Theorem C09_find_entry_perm : forall k (l l' : list (string * expr)) i j,
  NoDup (map fst l) -> Permutation l l' ->
  option_map snd (find_entry k l i) = option_map snd (find_entry k l' j).
Proof. exact (@find_entry_perm expr). Qed.

(* evaluating an object literal from the same state with the same identity: same value, same final state *)
Theorem C09_eval_repr_obj_perm : forall W f E l l' xbase id s,
  NoDup (map fst l) -> Permutation l l' ->
  eval_repr W f E (EObj l) xbase id s = eval_repr W f E (EObj l') xbase id s.
Proof. exact eval_repr_obj_perm. Qed.

(* whole expressions, objects reordered at every nesting level, in contexts whose declared root values are
   reordered too; and the reference walk *)
Theorem C09_eval_expr_perm : forall W f E E' x x' xsec xbase id s,
  ectx_perm E E' -> expr_perm x x' ->
  eval_expr W f E x xsec xbase id s = eval_expr W f E' x' xsec xbase id s.
Proof. exact eval_expr_perm. Qed.

Theorem C09_walk_perm : forall W f E E' rx rx' rsec rbase rid accs s,
  ectx_perm E E' -> expr_perm rx rx' ->
  walk W f E rx rsec rbase rid accs s = walk W f E' rx' rsec rbase rid accs s.
Proof. exact walk_perm. Qed.

(* environments: [envdef_perm d d'] = same imports (their order is semantically significant and is kept),
   values related by expr_perm; [world_perm W W'] = same collaborators, loadable definitions related *)
Theorem C09_eval_env_perm : forall W W' f root name d d' s,
  world_perm W W' -> envdef_perm d d' ->
  eval_env W f root name d s = eval_env W' f root name d' s.
Proof. exact eval_env_perm. Qed.

(* THE THEOREM: key order is irrelevant for the observation — value, "has errors", call log, fuel flag *)
Theorem C09_key_order_irrelevant : forall f W W' name d d',
  world_perm W W' -> envdef_perm d d' -> run f W name d = run f W' name d'.
Proof. exact key_order_irrelevant. Qed.

(* the top-level [values] of the root environment *)
Theorem C09_values_order_irrelevant : forall f W name imports vals vals',
  NoDup (map fst vals) -> Permutation vals vals' ->
  run f W name {| ed_imports := imports; ed_values := vals |}
  = run f W name {| ed_imports := imports; ed_values := vals' |}.
Proof. exact values_order_irrelevant. Qed.

(* stated for completeness: [run] is a function *)
Theorem C09_run_deterministic : forall f W name d o1 o2,
  run f W name d = o1 -> run f W name d = o2 -> o1 = o2.
Proof. exact run_deterministic. Qed.

(* ================= Examples ================= *)
Definition ex_world : world :=
  {| w_envs := [("base", LoadOk {| ed_imports := []; ed_values := [("p", ENum "7"); ("q", EStr "x")] |})];
     w_provs := []; w_ctx := []; w_check := false; w_show := false; w_fault := None;
     w_decrypt := fun _ _ => None |}.
Definition ex_world' : world :=
  {| w_envs := [("base", LoadOk {| ed_imports := []; ed_values := [("q", EStr "x"); ("p", ENum "7")] |})];
     w_provs := []; w_ctx := []; w_check := false; w_show := false; w_fault := None;
     w_decrypt := fun _ _ => None |}.

(* a: 1, b: {y: ${a}, x: "s${p}", e: ${nope}}   versus   b: {e: ..., x: ..., y: ...}, a: 1
   (two levels reordered, a reference crossing them, an erroneous member, an import reordered as well) *)
Definition ex_ab : envdef :=
  {| ed_imports := [("base", true)];
     ed_values := [("a", ENum "1");
                   ("b", EObj [("y", ESym [AName "a"]);
                               ("x", EInterp [("s", Some [AName "p"])]);
                               ("e", ESym [AName "nope"])])] |}.
Definition ex_ba : envdef :=
  {| ed_imports := [("base", true)];
     ed_values := [("b", EObj [("e", ESym [AName "nope"]);
                               ("x", EInterp [("s", Some [AName "p"])]);
                               ("y", ESym [AName "a"])]);
                   ("a", ENum "1")] |}.

Lemma ex_nodup2 (a b : string) : a <> b -> NoDup [a; b].
Proof. intro H. constructor; [intros [E|[]]; congruence|]. constructor; [intros []|constructor]. Qed.

Example C09_ex_defs_related : envdef_perm ex_ab ex_ba.
Proof.
  split; [reflexivity|].
  apply EP_obj with (m := [("b", EObj [("y", ESym [AName "a"]);
                                       ("x", EInterp [("s", Some [AName "p"])]);
                                       ("e", ESym [AName "nope"])]); ("a", ENum "1")]).
  - right. split; [apply ex_nodup2; discriminate|apply perm_swap].
  - constructor; [split; [reflexivity|]|constructor; [split; [reflexivity|constructor]|constructor]].
    cbn [snd]. apply C09_expr_perm_reorder.
    + constructor; [intros [E|[E|[]]]; discriminate|]. apply ex_nodup2. discriminate.
    + (* [y; x; e] ~ [e; x; y] *)
      eapply perm_trans; [apply perm_swap|]. eapply perm_trans; [apply perm_skip, perm_swap|].
      eapply perm_trans; [apply perm_swap|]. apply Permutation_refl.
Qed.

Example C09_ex_worlds_related : world_perm ex_world ex_world'.
Proof.
  constructor; try reflexivity.
  constructor; [|constructor]. split; [reflexivity|]. constructor. split; [reflexivity|].
  apply C09_expr_perm_reorder; [apply ex_nodup2; discriminate|apply perm_swap].
Qed.

(* the theorem applied: equal observations for every fuel ... *)
Example C09_ex_same_observation : forall f, run f ex_world "e" ex_ab = run f ex_world' "e" ex_ba.
Proof.
  intro f. apply C09_key_order_irrelevant; [exact C09_ex_worlds_related|exact C09_ex_defs_related].
Qed.

(* ... and the observation is not trivial: merged import, resolved references, one unknown, one diagnostic *)
Example C09_ex_value :
  run 60 ex_world "e" ex_ab
  = {| ob_value :=
         Some (XObj false false
                 [("a", XScalar false false (SNum "1"));
                  ("b", XObj false false [("e", XScalar false true SNull);
                                          ("x", XScalar false false (SStr "s7"));
                                          ("y", XScalar false false (SNum "1"))]);
                  ("p", XScalar false false (SNum "7"));
                  ("q", XScalar false false (SStr "x"))]);
       ob_errors := true; ob_log := [EvLoad "base"]; ob_oof := false |}.
Proof. vm_compute. reflexivity. Qed.

(* a two-key object in both orders, directly *)
Example C09_ex_two_keys :
  run 30 ex_world "e" {| ed_imports := []; ed_values := [("k1", ENum "1"); ("k2", EBool true)] |}
  = run 30 ex_world "e" {| ed_imports := []; ed_values := [("k2", EBool true); ("k1", ENum "1")] |}.
Proof. apply C09_values_order_irrelevant; [apply ex_nodup2; discriminate|apply perm_swap]. Qed.

(* why uniqueness is required: with a duplicated key the first occurrence wins, so order matters *)
Example C09_ex_duplicates_are_order_dependent :
  ob_value (run 30 ex_world "e" {| ed_imports := []; ed_values := [("k", ENum "1"); ("k", ENum "2")] |})
  <> ob_value (run 30 ex_world "e" {| ed_imports := []; ed_values := [("k", ENum "2"); ("k", ENum "1")] |}).
Proof. vm_compute. discriminate. Qed.
