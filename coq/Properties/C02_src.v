(* Properties/C02_src.v — side conditions of C02 on the SOURCE of the evaluator: the behaviour tables that
   harness/cmd/srcfacts/evalcore.go reads out of eval/value.go, eval/eval.go, eval/crypt.go and environment.go on every run
   (coq/Src/SrcEval.v) are the ones the models Model/Chain.v / Model/Eval.v were written against (Proofs/EvalSrc.v, where
   each table is listed next to the model definition it is the source of).  What C02 rests on: the dispatch and memo discipline of evaluateExpr, reference resolution and its unconditional copy, the merged view, and the text-level builtins.
   Statements only, closed by [exact]; decided by computation. *)
From Verif Require Import Base.Bytes Src.SrcEval Proofs.EvalSrc Proofs.EvalSrcExpr Proofs.EvalSrcAccess Proofs.EvalSrcChainView Proofs.EvalSrcMerge Proofs.EvalSrcText Proofs.EvalSrcBuiltins Proofs.EvalSrcDeclare.

Theorem C02_src_expr_dispatch_memo : eval_src_expr_ok = true.
Proof. exact eval_src_expr_ok_true. Qed.

Theorem C02_src_reference_resolution : eval_src_access_ok = true.
Proof. exact eval_src_access_ok_true. Qed.

Theorem C02_src_merged_view : eval_src_chain_view_ok = true.
Proof. exact eval_src_chain_view_ok_true. Qed.

Theorem C02_src_merge_is_append : eval_src_merge_ok = true.
Proof. exact eval_src_merge_ok_true. Qed.

Theorem C02_src_text_functions : eval_src_text_ok = true.
Proof. exact eval_src_text_ok_true. Qed.

Theorem C02_src_builtins : eval_src_builtins_ok = true.
Proof. exact eval_src_builtins_ok_true. Qed.

Theorem C02_src_declared_over_base : eval_src_declare_ok = true.
Proof. exact eval_src_declare_ok_true. Qed.

Theorem C02_src_dispatch_matches_constructors : dispatch_ok = true.
Proof. exact dispatch_ok_true. Qed.
