(* Properties/C02_refs.v — C02, first clause: EVERY REFERENCE DENOTES THE VALUE FOUND AT ITS PATH IN THE FINAL MERGED
   VALUE OF THE ENVIRONMENT IN WHICH IT IS WRITTEN (whatever order keys are declared in: Properties/C09.v).
   Statements only, each closed by [exact]; proofs in Proofs/RefSem*.v.

   About the model Model/Eval.v.  [x_access p v] is the reference semantics of a path on an exported value: names and
   quoted keys through objects, indices through arrays; it is Corr/C02.v's [jaccess] on the JSON rendering
   (C02_x_access_is_jaccess).  The three resolution routes of eval.go are covered:
     (a) evaluateExprAccess walking object / array / fn::secret literals down to a sub-expression, which is then
         evaluated (or found memoised, or found being evaluated = cycle diagnostic);
     (b) falling through to the inherited base when the literal lacks the key (evaluateValueAccess on the base);
     (c) references rooted at imports.<x> and context.<...> (evaluateValueAccess on those values).
   Hypotheses of the main theorem, all on the observable result: no diagnostics, fuel sufficed, the key's expression is
   the bare reference, nothing is inherited under the reference's own key ([property k base = []]: otherwise the
   result is the merge of the referenced value over the inherited one), and no layer of the result is unknown
   ([cknown]: an unknown provider output in check mode resolves ${a.x} to an unknown without diagnostic).  Both side
   conditions are shown necessary by computed witnesses (C02_..._needs_...).  Key-sortedness of all chains, which
   absorption of re-merged bases needs, is PROVED of the evaluator (C02_values_sorted), not assumed. *)
From Verif Require Import Base.Bytes Model.Chain Model.GoText Model.Envelope Model.Eval Corr.EvalWire Corr.C01 Corr.C02
  Proofs.EvalTotalRecover Proofs.EvalTotalBound Proofs.ChainAlgebraExport
  Proofs.RefSemAccess Proofs.RefSemWf Proofs.RefSemMemo Proofs.RefSem Proofs.RefSemSorted Proofs.RefSemMain.

(* ================= value level ================= *)

(* [va_known f c p = Some c']: value_access resolves p in c to c' without diagnostic and without looking into an
   unknown layer; it is value_access on those runs ... *)
Theorem C02_va_known_is_value_access : forall f c p c',
  va_known f c p = Some c' -> value_access f c p = (c', 0%N).
Proof. exact va_known_sound. Qed.

(* ... and then the path denotes, in the exported (merged) value of c, the exported value of c' *)
Theorem C02_value_access_denotes_strict : forall p c c' fe xv,
  (exists fa, va_known fa c p = Some c') -> export fe c = Some xv ->
  exists xk, x_access p xv = Some xk /\ export fe c' = Some xk.
Proof. exact va_known_export. Qed.

(* for chains without unknown layers (and key-sorted, as all evaluator chains are) in terms of value_access itself *)
Theorem C02_value_access_denotes : forall f c p c' fe xv,
  cgood c = true -> value_access f c p = (c', 0%N) -> export fe c = Some xv ->
  exists xk, x_access p xv = Some xk /\ export fe c' = Some xk.
Proof. exact value_access_export. Qed.

Theorem C02_good_is_known_and_sorted : forall c, cknown c = true -> csorted c = true -> cgood c = true.
Proof. exact cgood_of_known_sorted. Qed.

(* x_access is the oracle's jaccess on the JSON rendering *)
Theorem C02_x_access_is_jaccess : forall p v x,
  xknown v = true -> x_access p v = Some x -> jaccess p (xj v) = Some (xj x).
Proof. exact x_access_jaccess_xj. Qed.

(* ABSORPTION: [declare] re-merges every property with base.property(k), so stored children already end with the
   part of the base that [property] appends once more; the duplicate is invisible in the exported value *)
Theorem C02_export_absorbs_duplicate_base : forall f x y,
  cgood (x ++ y) = true -> export f (x ++ y ++ y) = export f (x ++ y).
Proof. exact export_dup. Qed.

(* every value the evaluator returns for an environment is key-sorted at every depth: no hypothesis at all *)
Theorem C02_values_sorted : forall W f root name d, csorted (fst (eval_env W f root name d st0)) = true.
Proof. exact eval_env_sorted. Qed.

(* ================= the memo table (what makes route (a) work) ================= *)

(* entries are never changed once written *)
Theorem C02_memo_frozen : forall W f E x xsec xbase id s, frozen s (snd (eval_expr W f E x xsec xbase id s)).
Proof. exact (fun W f E x xsec xbase id s => proj1 (F5_all W f) E x xsec xbase id s). Qed.

(* in a clean run every call returns the value memoised for its identity, and the reference walk returns what the pure
   function [resolve] reads off the memo table *)
Theorem C02_eval_expr_returns_memoised : forall W E f x xsec xbase id s,
  clean (snd (eval_expr W f E x xsec xbase id s)) ->
  done (memo (snd (eval_expr W f E x xsec xbase id s))) id = Some (fst (eval_expr W f E x xsec xbase id s)).
Proof. exact eval_expr_done. Qed.

Theorem C02_walk_resolves : forall W E f rx rsec rbase rid accs s,
  clean (snd (walk W f E rx rsec rbase rid accs s)) ->
  resolve (memo (snd (walk W f E rx rsec rbase rid accs s))) rx rbase rid accs
  = Some (fst (walk W f E rx rsec rbase rid accs s)).
Proof. exact walk_resolves. Qed.

(* the memo invariant Q (object / array literals store the memoised values of their members, references the resolved
   value, every value ends with the base handed down to it) is kept by all five functions *)
Theorem C02_memo_invariant : forall W E f, J5 W E f.
Proof. exact J5_all. Qed.

(* from the invariant to the exported value: what [resolve] finds from a memoised literal V is what the path denotes
   in the export of V — literal steps, absorption of the re-merged base, fall-through, value accesses *)
Theorem C02_resolve_denotes : forall E m, Q E m ->
  forall accs rx rbase rid V w,
  at_id E rid rx -> rbase = xbof E rid -> done m rid = Some V -> cgood V = true ->
  resolve m rx rbase rid accs = Some w ->
  forall fe xv, export fe V = Some xv -> exists xk, x_access accs xv = Some xk /\ export fe w = Some xk.
Proof. exact resolve_denotes. Qed.

(* ================= THE THEOREM ================= *)
Theorem C02_reference_denotes_final_value : forall W fuel root name d k p,
  let r := eval_env W fuel root name d st0 in
  nerr (snd r) = 0 -> oof (snd r) = false ->
  alookup k (ed_values d) = Some (ESym p) -> reserved k = false -> local_path p = true ->
  property k (tl (fst r)) = [] -> cknown (fst r) = true ->
  forall xv, export big_fuel (fst r) = Some xv ->
  exists xk, export big_fuel (property k (fst r)) = Some xk /\ x_access p xv = Some xk.
Proof. exact reference_denotes. Qed.

(* the same as the claim the correspondence oracle checks (Corr/C02.v [ClPath k p]): it never fails *)
Theorem C02_ClPath_claim_holds : forall W fuel root name d k p,
  let r := eval_env W fuel root name d st0 in
  nerr (snd r) = 0 -> oof (snd r) = false ->
  alookup k (ed_values d) = Some (ESym p) -> reserved k = false -> local_path p = true ->
  property k (tl (fst r)) = [] -> cknown (fst r) = true ->
  forall xv, export big_fuel (fst r) = Some xv -> xknown xv = true ->
  claim_fails (xj xv) (ClPath k p) = false.
Proof. exact ClPath_holds. Qed.

(* route (c): ${imports.<...>} and ${context.<...>} denote the path in the imports table / execution context of the
   environment ([env_E] is the evaluation context eval_env builds: merged base, imports table, context) *)
Theorem C02_imports_reference_denotes : forall W f root name d k a0 rest,
  let E := env_E W f root name d st0 in
  let r := eval_env W (S f) root name d st0 in
  nerr (snd r) = 0 -> oof (snd r) = false ->
  alookup k (ed_values d) = Some (ESym (a0 :: rest)) -> reserved k = false ->
  object_key a0 = Some "imports" ->
  property k (tl (fst r)) = [] -> cknown (ec_imports E) = true ->
  forall xt, export big_fuel (ec_imports E) = Some xt ->
  exists xk, export big_fuel (property k (fst r)) = Some xk /\ x_access rest xt = Some xk.
Proof. exact imports_reference. Qed.

Theorem C02_context_reference_denotes : forall W f root name d k a0 rest,
  let E := env_E W f root name d st0 in
  let r := eval_env W (S f) root name d st0 in
  nerr (snd r) = 0 -> oof (snd r) = false ->
  alookup k (ed_values d) = Some (ESym (a0 :: rest)) -> reserved k = false ->
  object_key a0 = Some "context" ->
  property k (tl (fst r)) = [] -> cknown (ec_context E) = true ->
  forall xt, export big_fuel (ec_context E) = Some xt ->
  exists xk, export big_fuel (property k (fst r)) = Some xk /\ x_access rest xt = Some xk.
Proof. exact context_reference. Qed.

(* the two side conditions cannot be dropped *)
Theorem C02_reference_denotes_needs_known : ~ reference_denotes_hyps false true.
Proof. exact reference_denotes_needs_known. Qed.
Theorem C02_reference_denotes_needs_nobase : ~ reference_denotes_hyps true false.
Proof. exact reference_denotes_needs_nobase. Qed.
Theorem C02_reference_denotes_with_both : reference_denotes_hyps true true.
Proof. exact reference_denotes_hyps_proved. Qed.

(* ================= Examples ================= *)
(* base:  o: {x: "bx", y: [1, 2]},  p: 7
   e (imports base):
     a:  {b: [{"k.dot": "v"}, 3]}          o: {z: "mine"}            (o is merged with base.o)
     r1: ${a.b[0]["k.dot"]}                 literal walk: name, name, index, quoted key with a dot
     r2: ${o.y[1]}                          crosses from the local literal o into the inherited base
     r3: ${imports.base.o.x}                r4: ${context.rootEnvironment.name}
     r5: ${p}                               only inherited            r6: ${o}   the merged object itself *)
Definition ex_world : world :=
  {| w_envs := [("base", LoadOk {| ed_imports := [];
                                   ed_values := [("o", EObj [("x", EStr "bx"); ("y", EArr [ENum "1"; ENum "2"])]);
                                                 ("p", ENum "7")] |})];
     w_provs := []; w_ctx := []; w_check := false; w_show := false; w_fault := None; w_decrypt := fun _ _ => None |}.
Definition ex_def : envdef :=
  {| ed_imports := [("base", true)];
     ed_values := [("a", EObj [("b", EArr [EObj [("k.dot", EStr "v")]; ENum "3"])]);
                   ("o", EObj [("z", EStr "mine")]);
                   ("r1", ESym [AName "a"; AName "b"; AIdx 0; AKey "k.dot"]);
                   ("r2", ESym [AName "o"; AName "y"; AIdx 1]);
                   ("r3", ESym [AName "imports"; AName "base"; AName "o"; AName "x"]);
                   ("r4", ESym [AName "context"; AName "rootEnvironment"; AName "name"]);
                   ("r5", ESym [AName "p"]);
                   ("r6", ESym [AName "o"])] |}.
Definition ex_run := eval_env ex_world 60 "" "e" ex_def st0.

Example C02_ex_clean : nerr (snd ex_run) = 0 /\ oof (snd ex_run) = false /\ cknown (fst ex_run) = true.
Proof. vm_compute. repeat split; reflexivity. Qed.

Definition ex_xv : xval :=
  XObj false false
    [("a", XObj false false [("b", XArr false false [XObj false false [("k.dot", XScalar false false (SStr "v"))];
                                                       XScalar false false (SNum "3")])]);
     ("o", XObj false false [("x", XScalar false false (SStr "bx"));
                             ("y", XArr false false [XScalar false false (SNum "1"); XScalar false false (SNum "2")]);
                             ("z", XScalar false false (SStr "mine"))]);
     ("p", XScalar false false (SNum "7"));
     ("r1", XScalar false false (SStr "v"));
     ("r2", XScalar false false (SNum "2"));
     ("r3", XScalar false false (SStr "bx"));
     ("r4", XScalar false false (SStr "e"));
     ("r5", XScalar false false (SNum "7"));
     ("r6", XObj false false [("x", XScalar false false (SStr "bx"));
                              ("y", XArr false false [XScalar false false (SNum "1"); XScalar false false (SNum "2")]);
                              ("z", XScalar false false (SStr "mine"))])].

Example C02_ex_value : export big_fuel (fst ex_run) = Some ex_xv.
Proof. vm_compute. reflexivity. Qed.

(* the theorem applied to each local reference of the example (hypotheses by computation) *)
Example C02_ex_r1_literal_walk :
  exists xk, export big_fuel (property "r1" (fst ex_run)) = Some xk /\
             x_access [AName "a"; AName "b"; AIdx 0; AKey "k.dot"] ex_xv = Some xk.
Proof.
  apply (C02_reference_denotes_final_value ex_world 60 "" "e" ex_def "r1"); try (vm_compute; reflexivity).
Qed.

Example C02_ex_r2_crosses_into_base :
  exists xk, export big_fuel (property "r2" (fst ex_run)) = Some xk /\
             x_access [AName "o"; AName "y"; AIdx 1] ex_xv = Some xk.
Proof.
  apply (C02_reference_denotes_final_value ex_world 60 "" "e" ex_def "r2"); try (vm_compute; reflexivity).
Qed.

Example C02_ex_r5_inherited_only :
  exists xk, export big_fuel (property "r5" (fst ex_run)) = Some xk /\ x_access [AName "p"] ex_xv = Some xk.
Proof.
  apply (C02_reference_denotes_final_value ex_world 60 "" "e" ex_def "r5"); try (vm_compute; reflexivity).
Qed.

Example C02_ex_r6_merged_object :
  exists xk, export big_fuel (property "r6" (fst ex_run)) = Some xk /\ x_access [AName "o"] ex_xv = Some xk.
Proof.
  apply (C02_reference_denotes_final_value ex_world 60 "" "e" ex_def "r6"); try (vm_compute; reflexivity).
Qed.

(* ... and the conclusions computed directly *)
Example C02_ex_computed :
  x_access [AName "a"; AName "b"; AIdx 0; AKey "k.dot"] ex_xv = export big_fuel (property "r1" (fst ex_run)) /\
  x_access [AName "o"; AName "y"; AIdx 1] ex_xv = export big_fuel (property "r2" (fst ex_run)) /\
  x_access [AName "o"] ex_xv = export big_fuel (property "r6" (fst ex_run)) /\
  claim_fails (xj ex_xv) (ClPath "r1" [AName "a"; AName "b"; AIdx 0; AKey "k.dot"]) = false.
Proof. vm_compute. repeat split; reflexivity. Qed.

(* imports / context *)
Example C02_ex_r3_imports : forall xt,
  export big_fuel (ec_imports (env_E ex_world 59 "" "e" ex_def st0)) = Some xt ->
  exists xk, export big_fuel (property "r3" (fst (eval_env ex_world (S 59) "" "e" ex_def st0))) = Some xk /\
             x_access [AName "base"; AName "o"; AName "x"] xt = Some xk.
Proof.
  apply (C02_imports_reference_denotes ex_world 59 "" "e" ex_def "r3" (AName "imports")
           [AName "base"; AName "o"; AName "x"]); vm_compute; reflexivity.
Qed.

Example C02_ex_r4_context : forall xt,
  export big_fuel (ec_context (env_E ex_world 59 "" "e" ex_def st0)) = Some xt ->
  exists xk, export big_fuel (property "r4" (fst (eval_env ex_world (S 59) "" "e" ex_def st0))) = Some xk /\
             x_access [AName "rootEnvironment"; AName "name"] xt = Some xk.
Proof.
  apply (C02_context_reference_denotes ex_world 59 "" "e" ex_def "r4" (AName "context")
           [AName "rootEnvironment"; AName "name"]); vm_compute; reflexivity.
Qed.

Example C02_ex_rooted_computed :
  match export big_fuel (ec_imports (env_E ex_world 59 "" "e" ex_def st0)) with
  | Some xt => x_access [AName "base"; AName "o"; AName "x"] xt | None => None end
  = Some (XScalar false false (SStr "bx")) /\
  match export big_fuel (ec_context (env_E ex_world 59 "" "e" ex_def st0)) with
  | Some xt => x_access [AName "rootEnvironment"; AName "name"] xt | None => None end
  = Some (XScalar false false (SStr "e")) /\
  export big_fuel (property "r3" (fst ex_run)) = Some (XScalar false false (SStr "bx")) /\
  export big_fuel (property "r4" (fst ex_run)) = Some (XScalar false false (SStr "e")).
Proof. vm_compute. repeat split; reflexivity. Qed.
