(* Properties/C10_src.v — side conditions of C10 on the SOURCE of the evaluator: the behaviour tables that
   harness/cmd/srcfacts/evalcore.go reads out of eval/value.go, eval/eval.go, eval/crypt.go and environment.go on every run
   (coq/Src/SrcEval.v) are the ones the models Model/Chain.v / Model/Eval.v were written against (Proofs/EvalSrc.v, where
   each table is listed next to the model definition it is the source of).  What C10 rests on: an import is evaluated in its own context (its own decrypter, name, execution-context copy) against the shared table, and what is merged or referenced is a deep copy.
   Statements only, closed by [exact]; decided by computation. *)
From Verif Require Import Base.Bytes Src.SrcEval Proofs.EvalSrc Proofs.EvalSrcImport Proofs.EvalSrcContext Proofs.EvalSrcAccess Proofs.EvalSrcChainView.

Theorem C10_src_imports_table : eval_src_import_ok = true.
Proof. exact eval_src_import_ok_true. Qed.

Theorem C10_src_own_context : eval_src_context_ok = true.
Proof. exact eval_src_context_ok_true. Qed.

Theorem C10_src_reference_resolution : eval_src_access_ok = true.
Proof. exact eval_src_access_ok_true. Qed.

Theorem C10_src_merged_view : eval_src_chain_view_ok = true.
Proof. exact eval_src_chain_view_ok_true. Qed.
