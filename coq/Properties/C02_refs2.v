(* Properties/C02_refs2.v — C02, first clause, continued: references at ANY position of the literal nest of an
   environment, and string interpolation tied to the same reference semantics.
   Statements only, each closed by [exact]; proofs in Proofs/RefSem2Nested.v, Proofs/RefSem2Interp.v. *)
From Verif Require Import Base.Bytes Model.Chain Model.GoText Model.Envelope Model.Eval
  Proofs.EvalTotalRecover Proofs.EvalTotalBound
  Proofs.RefSemAccess Proofs.RefSemWf Proofs.RefSemMemo Proofs.RefSem Proofs.RefSemSorted Proofs.RefSemMain
  Proofs.RefSem2Nested Proofs.RefSem2Interp.

(* [lit_at x q]: the sub-expression at key path q, going through object literals (first occurrence of a key) and array
   literals only; [acc_of q]: the reference path (quoted keys, indices) that addresses the same position;
   [xb base q]: the base handed down to position q = base.property(k1)...property(kn), empty below an array index. *)

(* resolving the path of a literal position reads the memoised value of that position *)
Theorem C02_resolve_literal_position : forall m q rx rbase rid y,
  lit_at rx q = Some y -> resolve m rx rbase rid (acc_of q) = done m (fst rid, snd rid ++ q).
Proof. exact resolve_lit. Qed.

(* THE THEOREM: the value shown at q is the value found at p *)
Theorem C02_nested_reference_denotes : forall W fuel root name d q p,
  let r := eval_env W fuel root name d st0 in
  nerr (snd r) = 0 -> oof (snd r) = false ->
  lit_at (EObj (vals_of d)) q = Some (ESym p) -> local_path p = true ->
  xb (tl (fst r)) q = [] -> cknown (fst r) = true ->
  forall xv, export big_fuel (fst r) = Some xv ->
  exists xk, x_access (acc_of q) xv = Some xk /\ x_access p xv = Some xk.
Proof. exact nested_reference_denotes. Qed.

(* the base condition is automatic below an array element, and persists once it holds *)
Theorem C02_no_base_below_index : forall b q1 i q2, xb b (q1 ++ IIdx i :: q2) = [].
Proof. exact xb_index. Qed.
Theorem C02_no_base_persists : forall b q1 q2, xb b q1 = [] -> xb b (q1 ++ q2) = [].
Proof. exact xb_app_nil. Qed.

(* INTERPOLATION.  For "t1${p1}t2${p2}...": if every referenced path denotes a known scalar in the exported root, the
   exported value of the key is the (known) string  t1 ++ text(v1) ++ t2 ++ text(v2) ++ ...  where text is
   [scalar_text] of the denoted scalar ([interp_text], computed on the EXPORTED value).  Scalars only: the string form
   of merged objects is the known finding C02-tostring. *)
Theorem C02_interpolation_denotes : forall W fuel root name d k parts,
  let r := eval_env W fuel root name d st0 in
  nerr (snd r) = 0 -> oof (snd r) = false ->
  alookup k (ed_values d) = Some (EInterp parts) -> reserved k = false ->
  cknown (fst r) = true ->
  forall xv, export big_fuel (fst r) = Some xv ->
  (forall text p, In (text, Some p) parts ->
     local_path p = true /\ exists s0 x0, x_access p xv = Some (XScalar s0 false x0)) ->
  exists sec, export big_fuel (property k (fst r)) = Some (XScalar sec false (SStr (interp_text parts xv EmptyString))).
Proof. exact interp_denotes. Qed.

(* the invariant behind it: the memoised value of an interpolation is the string the loop computes from the memo *)
Theorem C02_interpolation_invariant : forall W E f, JI5 W E f.
Proof. exact JI5_all. Qed.

(* ================= Examples ================= *)
(* base: o: {x: bx, y: [1, 2]}, p: 7
   e (imports base):  a: {b: [{k: v}, ${c.d}, ${o.y[0]}]}   c: {d: 5}   s: "x=${c.d}, p=${p}." *)
Definition ex_world : world :=
  {| w_envs := [("base", LoadOk {| ed_imports := [];
                                   ed_values := [("o", EObj [("x", EStr "bx"); ("y", EArr [ENum "1"; ENum "2"])]);
                                                 ("p", ENum "7")] |})];
     w_provs := []; w_ctx := []; w_check := false; w_show := false; w_fault := None; w_decrypt := fun _ _ => None |}.
Definition ex_def : envdef :=
  {| ed_imports := [("base", true)];
     ed_values := [("a", EObj [("b", EArr [EObj [("k", EStr "v")]; ESym [AName "c"; AName "d"];
                                           ESym [AName "o"; AName "y"; AIdx 0]])]);
                   ("c", EObj [("d", ENum "5")]);
                   ("s", EInterp [("x=", Some [AName "c"; AName "d"]); (", p=", Some [AName "p"]); (".", None)])] |}.
Definition ex_run := eval_env ex_world 80 "" "e" ex_def st0.
Definition ex_xv : xval :=
  XObj false false
    [("a", XObj false false [("b", XArr false false [XObj false false [("k", XScalar false false (SStr "v"))];
                                                       XScalar false false (SNum "5"); XScalar false false (SNum "1")])]);
     ("c", XObj false false [("d", XScalar false false (SNum "5"))]);
     ("o", XObj false false [("x", XScalar false false (SStr "bx"));
                             ("y", XArr false false [XScalar false false (SNum "1"); XScalar false false (SNum "2")])]);
     ("p", XScalar false false (SNum "7"));
     ("s", XScalar false false (SStr "x=5, p=7."))].

Example C02_ex2_value : export big_fuel (fst ex_run) = Some ex_xv /\ nerr (snd ex_run) = 0 /\ cknown (fst ex_run) = true.
Proof. vm_compute. repeat split; reflexivity. Qed.

(* a.b[1] is ${c.d}: the value shown at a.b[1] is the value found at c.d *)
Example C02_ex2_nested_local :
  exists xk, x_access (acc_of [IKey "a"; IKey "b"; IIdx 1]) ex_xv = Some xk /\ x_access [AName "c"; AName "d"] ex_xv = Some xk.
Proof.
  apply (C02_nested_reference_denotes ex_world 80 "" "e" ex_def [IKey "a"; IKey "b"; IIdx 1]); try (vm_compute; reflexivity).
Qed.

(* a.b[2] is ${o.y[0]}: a nested reference into the inherited base *)
Example C02_ex2_nested_into_base :
  exists xk, x_access (acc_of [IKey "a"; IKey "b"; IIdx 2]) ex_xv = Some xk /\
             x_access [AName "o"; AName "y"; AIdx 0] ex_xv = Some xk.
Proof.
  apply (C02_nested_reference_denotes ex_world 80 "" "e" ex_def [IKey "a"; IKey "b"; IIdx 2]); try (vm_compute; reflexivity).
Qed.

Example C02_ex2_nested_computed :
  x_access [AKey "a"; AKey "b"; AIdx 1] ex_xv = Some (XScalar false false (SNum "5")) /\
  x_access [AKey "a"; AKey "b"; AIdx 2] ex_xv = Some (XScalar false false (SNum "1")).
Proof. vm_compute. split; reflexivity. Qed.

(* s: "x=${c.d}, p=${p}." *)
Example C02_ex2_interpolation :
  exists sec, export big_fuel (property "s" (fst ex_run))
              = Some (XScalar sec false (SStr (interp_text [("x=", Some [AName "c"; AName "d"]); (", p=", Some [AName "p"]); (".", None)]
                                                           ex_xv EmptyString))).
Proof.
  apply (C02_interpolation_denotes ex_world 80 "" "e" ex_def "s"); try (vm_compute; reflexivity).
  intros text p [[= <- <-]|[[= <- <-]|[[=]|[]]]]; (split; [reflexivity|vm_compute; eauto]).
Qed.

Example C02_ex2_interpolation_text :
  interp_text [("x=", Some [AName "c"; AName "d"]); (", p=", Some [AName "p"]); (".", None)] ex_xv EmptyString = "x=5, p=7.".
Proof. vm_compute. reflexivity. Qed.
