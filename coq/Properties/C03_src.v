(* Properties/C03_src.v — side conditions of C03 on the SOURCE of the evaluator: the behaviour tables that
   harness/cmd/srcfacts/evalcore.go reads out of eval/value.go, eval/eval.go, eval/crypt.go and environment.go on every run
   (coq/Src/SrcEval.v) are the ones the models Model/Chain.v / Model/Eval.v were written against (Proofs/EvalSrc.v, where
   each table is listed next to the model definition it is the source of).  What C03 rests on: every place a secret flag is produced, joined or dropped — combine, containsSecrets, export / unexport / toString, the builtins, interpolation, the secret mark of declare.
   Statements only, closed by [exact]; decided by computation. *)
From Verif Require Import Base.Bytes Src.SrcEval Proofs.EvalSrc Proofs.EvalSrcCombine Proofs.EvalSrcContains Proofs.EvalSrcChainView Proofs.EvalSrcText Proofs.EvalSrcBuiltins Proofs.EvalSrcSecret Proofs.EvalSrcDeclare.

Theorem C03_src_taint_join : eval_src_combine_ok = true.
Proof. exact eval_src_combine_ok_true. Qed.

Theorem C03_src_contains_flags : eval_src_contains_ok = true.
Proof. exact eval_src_contains_ok_true. Qed.

Theorem C03_src_flags_exported : eval_src_chain_view_ok = true.
Proof. exact eval_src_chain_view_ok_true. Qed.

Theorem C03_src_text_functions : eval_src_text_ok = true.
Proof. exact eval_src_text_ok_true. Qed.

Theorem C03_src_builtins : eval_src_builtins_ok = true.
Proof. exact eval_src_builtins_ok_true. Qed.

Theorem C03_src_secret_builtin : eval_src_secret_ok = true.
Proof. exact eval_src_secret_ok_true. Qed.

Theorem C03_src_declared_secret : eval_src_declare_ok = true.
Proof. exact eval_src_declare_ok_true. Qed.
